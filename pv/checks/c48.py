"""C48 — Math functions are interface-agnostic.

For every recipe (one qp.math function + generated argument tuple) the real function is called with the *same* data in
numpy, autograd, jax and torch form.  Deciding monitors:

* ``math.value``   every interface's result (converted back by the harness's own converter) equals the numpy-path result, and
                   – where a plain numpy/scipy formula exists – the independent formula
* ``math.iface``   the result lives in the interface of the inputs (torch in → torch out, jax in → jax out, …); mixed inputs
                   follow the documented priority torch/jax > autograd > numpy
* ``math.grad``    for differentiable recipes the gradient of a fixed random scalarisation agrees between autograd.grad, jax.grad
                   and torch.autograd and with central finite differences of the numpy path
* ``math.contract`` functions documented as returning python objects (get_interface, requires_grad, allclose, …) obey their
                   documented contract in every interface
"""
import math
import warnings

import numpy as np

from pv.ctx import fingerprint

META = {
    "id": "C48",
    "level": "exploration",
    "technique": "differential runtime monitor: each qp.math function on identical data in numpy/autograd/jax/torch (+ mixed), results and "
                 "AD gradients compared with each other, with plain numpy/scipy formulas and with finite differences",
    "level_text": "A recipe table of ~150 (function, argument-shape family) entries covering multi_dispatch.py, the custom autoray registrations of "
                  "single_dispatch.py, utils.py, interface_utils.py, quantum.py, fidelity.py and matrix_manipulation.py is instantiated with random "
                  "real/complex/int data, hostile shapes (0-d, size-1 axes, batches) and float32/float64; held on the evaluations observed.",
    "level_note": "numpy/scipy are trusted as the value reference; finite differences (h=1e-6) are only a 1e-5 cross-check next to the 1e-8 "
                  "agreement demanded between AD frameworks. Gradients use real inputs only (complex-gradient conventions differ between "
                  "frameworks by design). TensorFlow is not installed. The multi_dispatch branch taken is inferred from the interface of the "
                  "arguments, not instrumented.",
    "shards": {"quick": 3, "thorough": 16},
    "budget_s": {"quick": 110, "thorough": 300},
    "min_evals": {"quick": 1000, "thorough": 6000},
    "min_nontrivial": {"quick": 100, "thorough": 600},
    "deciding": ["math.value", "math.iface", "math.grad", "math.contract"],
    "rule": "case = (recipe, generated argument arrays); one case is evaluated in 4 interfaces (+ mixed pairs, + 3 AD gradients); distinct = distinct "
            "(recipe, argument bytes); non-trivial = some tensor argument has >= 2 elements",
    "assumptions": ["numpy/scipy reference formulas are correct", "finite differences with h=1e-6 are accurate to 1e-5 on the smooth recipes used"],
}

IF4 = ["numpy", "autograd", "jax", "torch"]
JAX_ALWAYS = {"scatter", "scatter_element_add", "set_index", "expm", "norm", "svd", "gammainc", "detach", "take", "entr", "gamma", "block_diag",
              "fidelity", "asarray(like)", "ndim", "flatten", "eigvalsh", "gather", "unstack", "where", "einsum", "iscomplex", "cast", "convert_like"}


# ----------------------------------------------------------------------------- data helpers
def A(rng, *shape, kind="f", lo=None):
    """Random array: kind f (float64), c (complex128), i (int64), b (bool), p (positive float), f32."""
    shape = tuple(shape)
    if kind == "c":
        return rng.normal(size=shape) + 1j * rng.normal(size=shape)
    if kind == "i":
        return rng.integers(-5, 6, size=shape)
    if kind == "b":
        return rng.random(size=shape) < 0.5
    if kind == "p":
        return rng.uniform(0.3, 2.0, size=shape)
    if kind == "f32":
        return rng.normal(size=shape).astype(np.float32)
    return rng.normal(size=shape)


def herm(rng, n, batch=None, cplx=True):
    sh = ((batch,) if batch else ()) + (n, n)
    M = rng.normal(size=sh) + (1j * rng.normal(size=sh) if cplx else 0)
    return (M + np.conj(np.swapaxes(M, -1, -2))) / 2


class R:
    """One recipe instance: tensors T (numpy), call f(qm, T) and optional independent reference ref(T)."""

    def __init__(self, name, T, f, ref=None, grad=False, gi=0, mixed=False, out="tensor", tol=1e-10, ifaces=None, gtol=1e-7, cmp=None, cls=None, gmech=None):
        self.name, self.T, self.f, self.ref, self.grad, self.gi = name, [np.asarray(t) for t in T], f, ref, grad, gi
        self.mixed, self.out, self.tol, self.ifaces, self.gtol, self.cmp, self.cls = mixed, out, tol, list(ifaces or IF4), gtol, cmp, cls or name
        self.gmech = gmech or {}


def recipes(rng, qp, dims=None):
    """Instantiate every recipe once with fresh random data (``dims`` fixes the shape parameters so that jax's per-shape
    compilation cache is reused between iterations)."""
    import scipy.linalg as sla
    import scipy.special as ssp

    out = []
    add = out.append
    ck = "c" if rng.random() < 0.4 else "f"  # complex or real data for value checks
    n, m, k, B, nq = dims if dims is not None else [int(x) for x in rng.integers(1, 4, size=4)] + [int(rng.integers(1, 3))]

    # ------------------------------------------------------------ multi_dispatch.py
    add(R("kron", [A(rng, n, m, kind=ck), A(rng, k, n, kind=ck)], lambda q, T: q.kron(T[0], T[1]), lambda T: np.kron(T[0], T[1]), grad=ck == "f", mixed=True))
    add(R("kron/1d", [A(rng, n + 1), A(rng, k)], lambda q, T: q.kron(T[0], T[1]), lambda T: np.kron(T[0], T[1]), grad=True, gi=1))
    add(R("block_diag", [A(rng, n, m, kind=ck), A(rng, k, k, kind=ck), A(rng, 1, m, kind=ck)], lambda q, T: q.block_diag([T[0], T[1], T[2]]),
          lambda T: sla.block_diag(*T), grad=ck == "f", gi=1, mixed=True))
    add(R("block_diag/dtypes", [A(rng, n, n, kind="i"), A(rng, k, k)], lambda q, T: q.block_diag([T[0], T[1]]), lambda T: sla.block_diag(*T)))
    ax = [0, 1, -1, None][int(rng.integers(4))]
    add(R(f"concatenate/axis={ax}", [A(rng, n, m, kind=ck), A(rng, n, m, kind=ck)], lambda q, T, ax=ax: q.concatenate([T[0], T[1]], axis=ax),
          lambda T, ax=ax: np.concatenate(T, axis=ax), grad=("noag" if ax is None else True) if ck == "f" else False, mixed=True, cls="concatenate"))
    add(R("concatenate/1d", [A(rng, n), A(rng, m + 1), A(rng, 1)], lambda q, T: q.concatenate([T[0], T[1], T[2]]), lambda T: np.concatenate(T), grad=True, gi=1))
    kk = int(rng.integers(-2, 3))
    add(R(f"diag/1d,k={kk}", [A(rng, n + 1, kind=ck)], lambda q, T, kk=kk: q.diag(T[0], k=kk), lambda T, kk=kk: np.diag(T[0], k=kk), grad=ck == "f", cls="diag"))
    add(R("diag/2d", [A(rng, m + 1, m + 1)], lambda q, T, kk=kk: q.diag(T[0], k=min(kk, 0)), lambda T, kk=kk: np.diag(T[0], k=min(kk, 0)), grad=True, cls="diag"))
    add(R("diag/list-of-scalars", [A(rng), A(rng), A(rng)], lambda q, T: q.diag([T[0], T[1], T[2]]), lambda T: np.diag(np.stack(T)), grad=True, gi=2, cls="diag"))
    add(R("matmul", [A(rng, n, m, kind=ck), A(rng, m, k, kind=ck)], lambda q, T: q.matmul(T[0], T[1]), lambda T: T[0] @ T[1], grad=ck == "f", mixed=True))
    add(R("matmul/batched", [A(rng, B, n, m), A(rng, B, m, k)], lambda q, T: q.matmul(T[0], T[1]), lambda T: T[0] @ T[1], grad=True, gi=1))
    add(R("matmul/mat-vec", [A(rng, n, m, kind=ck), A(rng, m, kind=ck)], lambda q, T: q.matmul(T[0], T[1]), lambda T: T[0] @ T[1]))
    add(R("dot/0d", [A(rng), A(rng, n, m)], lambda q, T: q.dot(T[0], T[1]), lambda T: np.dot(T[0], T[1]), grad=True, mixed=True, cls="dot"))
    add(R("dot/1d-1d", [A(rng, m, kind=ck), A(rng, m, kind=ck)], lambda q, T: q.dot(T[0], T[1]), lambda T: np.dot(T[0], T[1]), grad=ck == "f", mixed=True, cls="dot"))
    add(R("dot/2d-1d", [A(rng, n, m), A(rng, m)], lambda q, T: q.dot(T[0], T[1]), lambda T: np.dot(T[0], T[1]), grad=True, gi=1, cls="dot"))
    add(R("dot/2d-2d", [A(rng, n, m, kind=ck), A(rng, m, k, kind=ck)], lambda q, T: q.dot(T[0], T[1]), lambda T: np.dot(T[0], T[1]), grad=ck == "f", cls="dot"))
    add(R("dot/Nd-Md", [A(rng, B, n, m), A(rng, k, m, 2)], lambda q, T: q.dot(T[0], T[1]), lambda T: np.dot(T[0], T[1]), grad=True, cls="dot"))
    add(R("dot/1d-2d", [A(rng, m), A(rng, m, k)], lambda q, T: q.dot(T[0], T[1]), lambda T: np.dot(T[0], T[1]), grad=True, cls="dot"))
    add(R("dot/float-complex", [A(rng, n, m), A(rng, m, kind="c")], lambda q, T: q.dot(T[0], T[1]), lambda T: np.dot(T[0], T[1]), mixed=True, cls="dot"))
    add(R("stack/float-complex", [A(rng, m), A(rng, m, kind="c")], lambda q, T: q.stack([T[0], T[1]]), lambda T: np.stack(T), cls="stack"))
    add(R("concatenate/int-complex", [A(rng, m, kind="i"), A(rng, 2, kind="c")], lambda q, T: q.concatenate([T[0], T[1]]), lambda T: np.concatenate(T), cls="concatenate"))
    add(R("dot/int-float", [A(rng, m, kind="i"), A(rng, m)], lambda q, T: q.dot(T[0], T[1]), lambda T: np.dot(T[0], T[1]), cls="dot"))
    add(R("tensordot/axes=1", [A(rng, n, m, kind=ck), A(rng, m, k, kind=ck)], lambda q, T: q.tensordot(T[0], T[1], axes=1), lambda T: np.tensordot(T[0], T[1], axes=1),
          grad=ck == "f", mixed=True, cls="tensordot"))
    add(R("tensordot/axes=0", [A(rng, n), A(rng, m)], lambda q, T: q.tensordot(T[0], T[1], axes=0), lambda T: np.tensordot(T[0], T[1], axes=0), grad=True, gi=1, cls="tensordot"))
    add(R("tensordot/axes=lists", [A(rng, n, m, k), A(rng, k, 2, n)], lambda q, T: q.tensordot(T[0], T[1], axes=[[0, 2], [2, 0]]),
          lambda T: np.tensordot(T[0], T[1], axes=[[0, 2], [2, 0]]), grad=True, cls="tensordot"))
    add(R("tensordot/axes=2", [A(rng, 2, n, m), A(rng, n, m, 3)], lambda q, T: q.tensordot(T[0], T[1], axes=2), lambda T: np.tensordot(T[0], T[1], axes=2), grad=True, cls="tensordot"))
    sax = int(rng.integers(-1, 2))
    add(R(f"stack/axis={sax}", [A(rng, n, m, kind=ck), A(rng, n, m, kind=ck)], lambda q, T, a=sax: q.stack([T[0], T[1]], axis=a), lambda T, a=sax: np.stack(T, axis=a),
          grad=ck == "f", mixed=True, cls="stack"))
    add(R("stack/scalars", [A(rng), A(rng), A(rng)], lambda q, T: q.stack([T[0], T[1], T[2]]), lambda T: np.stack(T), grad=True, cls="stack"))
    add(R("stack/int-float", [A(rng, m, kind="i"), A(rng, m)], lambda q, T: q.stack([T[0], T[1]]), lambda T: np.stack(T), cls="stack"))
    opt = [None, "greedy", "optimal"][int(rng.integers(3))]
    add(R("einsum/ij,jk->ik", [A(rng, n, m, kind=ck), A(rng, m, k, kind=ck)], lambda q, T, o=opt: q.einsum("ij,jk->ik", T[0], T[1], optimize=o), lambda T: T[0] @ T[1],
          grad=ck == "f", mixed=True, cls="einsum"))
    add(R("einsum/trace", [A(rng, m, m, kind=ck)], lambda q, T: q.einsum("ii", T[0]), lambda T: np.trace(T[0]), grad="noag" if ck == "f" else False, cls="einsum"))
    add(R("einsum/diag", [A(rng, m, m)], lambda q, T: q.einsum("ii->i", T[0]), lambda T: np.diagonal(T[0]).copy(), grad="noag", cls="einsum"))
    add(R("einsum/batch", [A(rng, B, n, m), A(rng, B, m)], lambda q, T, o=opt: q.einsum("bij,bj->bi", T[0], T[1], optimize=o), lambda T: np.einsum("bij,bj->bi", *T),
          grad=True, gi=1, cls="einsum"))
    add(R("einsum/three", [A(rng, n, m), A(rng, m, k), A(rng, k)], lambda q, T, o=opt: q.einsum("ij,jk,k->i", T[0], T[1], T[2], optimize=o),
          lambda T: np.einsum("ij,jk,k->i", *T), grad=True, gi=2, cls="einsum"))
    add(R("einsum/ellipsis", [A(rng, B, m, m, kind=ck), A(rng, m, kind=ck)], lambda q, T: q.einsum("...ji,...i->...j", T[0], T[1]), lambda T: np.einsum("...ji,...i->...j", *T),
          cls="einsum"))
    add(R("where/3", [A(rng, n, m, kind="b"), A(rng, n, m, kind=ck), A(rng, n, m, kind=ck)], lambda q, T: q.where(T[0], T[1], T[2]), lambda T: np.where(*T),
          grad=ck == "f", gi=1, cls="where"))
    add(R("where/scalar-branch", [A(rng, m) > 0, A(rng, m)], lambda q, T: q.where(T[0], T[1], 0.0), lambda T: np.where(T[0], T[1], 0.0), grad=True, gi=1, cls="where"))
    add(R("where/1", [A(rng, n + 1, m + 1, kind="b")], lambda q, T: q.where(T[0]), lambda T: np.where(T[0]), out="tuple", cls="where"))
    nz = bool(rng.random() < 0.5)
    add(R("frobenius_inner_product", [A(rng, m + 1, m + 1), A(rng, m + 1, m + 1)], lambda q, T, nz=nz: q.frobenius_inner_product(T[0], T[1], normalize=nz),
          lambda T, nz=nz: np.sum(T[0] * T[1]) / (np.sqrt(np.sum(T[0] ** 2) * np.sum(T[1] ** 2)) if nz else 1.0), grad=True, mixed=True))
    L = int(rng.integers(4, 9))
    idx = [int(x) for x in rng.permutation(L)[: int(rng.integers(1, 4))]]
    add(R("scatter", [A(rng, len(idx), kind=ck)], lambda q, T, idx=idx, L=L: q.scatter(np.array(idx), T[0], L), lambda T, idx=idx, L=L: _scatter_ref(idx, T[0], L), grad=ck == "f"))
    add(R("scatter_element_add/single", [A(rng, n + 1, m + 1), A(rng)], lambda q, T, i=(n, m): q.scatter_element_add(T[0], list(i), T[1]),
          lambda T, i=(n, m): _sea_ref(T[0], i, T[1]), grad=True, gi=int(rng.integers(2)), cls="scatter_element_add"))
    rows = [int(x) for x in rng.permutation(n + 2)[:2]]
    cols = [int(x) for x in rng.permutation(m + 2)[:2]]
    add(R("scatter_element_add/multi", [A(rng, n + 2, m + 2), A(rng, 2)], lambda q, T, r=rows, c=cols: q.scatter_element_add(T[0], [r, c], T[1]),
          lambda T, r=rows, c=cols: _sea_ref(T[0], (r, c), T[1]), grad=True, gi=int(rng.integers(2)), cls="scatter_element_add"))
    add(R("scatter_element_add/0d", [A(rng), A(rng)], lambda q, T: q.scatter_element_add(T[0], (), T[1]), lambda T: T[0] + T[1], grad=True, cls="scatter_element_add"))
    si = int(rng.integers(0, m + 1))
    add(R("set_index", [A(rng, m + 1), A(rng)], lambda q, T, si=si: q.set_index(_own_copy(T[0]), si, T[1]), lambda T, si=si: _set_ref(T[0], si, T[1])))
    add(R("add", [A(rng, n, m, kind=ck), A(rng, m, kind=ck)], lambda q, T: q.add(T[0], T[1]), lambda T: T[0] + T[1], grad=ck == "f", mixed=True))
    add(R("iscomplex", [A(rng, m, kind="c") if rng.random() < 0.5 else A(rng, m)], lambda q, T: q.iscomplex(T[0]), lambda T: bool(np.any(np.iscomplex(T[0]))), out="anybool"))
    add(R("iscomplex/zero-imag", [A(rng, m) + 0j], lambda q, T: q.iscomplex(T[0]), lambda T: False, out="anybool", cls="iscomplex"))
    add(R("expm", [A(rng, m + 1, m + 1, kind=ck) * 0.7], lambda q, T: q.expm(T[0]), lambda T: sla.expm(T[0]), tol=1e-9))
    add(R("expm/grad", [A(rng, 2, 2) * 0.7], lambda q, T: q.expm(T[0]), None, grad="noag", tol=1e-9, cls="expm"))
    add(R("norm", [A(rng, n + 1, m + 1, kind=ck)], lambda q, T: q.norm(T[0]), lambda T: np.sqrt(np.sum(np.abs(T[0]) ** 2)), grad=ck == "f"))
    add(R("norm/axis", [A(rng, n + 1, m + 1)], lambda q, T: q.norm(T[0], axis=1), lambda T: np.sqrt(np.sum(np.abs(T[0]) ** 2, axis=1)), grad="noag", cls="norm"))
    add(R("norm/ord1-vector", [A(rng, m + 2)], lambda q, T: q.norm(T[0], ord=1), lambda T: np.sum(np.abs(T[0])), grad="noag", cls="norm"))
    add(R("norm/ord2-matrix", [A(rng, m + 1, m + 1, kind=ck)], lambda q, T: q.norm(T[0], ord=2), lambda T: np.linalg.svd(T[0], compute_uv=False)[0], cls="norm"))
    add(R("svd/values", [A(rng, n + 1, m + 1, kind=ck)], lambda q, T: q.svd(T[0], compute_uv=False), lambda T: np.linalg.svd(T[0], compute_uv=False), grad="noag" if ck == "f" else False, tol=1e-9, cls="svd"))
    add(R("svd/full", [A(rng, n + 1, m + 1, kind=ck)], lambda q, T: q.svd(T[0], compute_uv=True), None, out="svd", tol=1e-9, cls="svd"))
    add(R("gammainc", [A(rng, m + 1, kind="p")], lambda q, T, mm=float(rng.uniform(0.5, 3)): q.gammainc(mm, T[0]), None, grad="notorch", tol=1e-9))
    add(R("detach", [A(rng, m, kind=ck)], lambda q, T: q.detach(T[0]), lambda T: T[0], out="detached"))
    dt = [None, "float64", "complex128", np.float32, np.dtype("int64")][int(rng.integers(5))]
    add(R("ones_like", [A(rng, n, m, kind=["f", "c", "i"][int(rng.integers(3))])], lambda q, T, dt=dt: q.ones_like(T[0], dtype=dt),
          lambda T, dt=dt: np.ones_like(T[0], dtype=dt), out="tensor+dtype"))
    add(R("unwrap", [A(rng, m), A(rng), A(rng, 2, kind="f32")], lambda q, T: q.unwrap([T[0], T[1], T[2]]), lambda T: [T[0], float(T[1]), T[2]], out="unwrapped"))
    add(R("array(like)", [A(rng, m)], lambda q, T: q.array([[1.0, 2.0], [3.0, 4.5]], like=T[0]), lambda T: np.array([[1.0, 2.0], [3.0, 4.5]])))
    add(R("eye(like)", [A(rng, m)], lambda q, T, n=n: q.eye(n + 1, like=T[0]), lambda T, n=n: np.eye(n + 1)))

    # ------------------------------------------------------------ utils.py
    a0 = A(rng, n, m, kind=ck)
    close = a0 + (1e-10 if rng.random() < 0.5 else 1e-3)
    add(R("allclose", [a0, close], lambda q, T: q.allclose(T[0], T[1]), lambda T: bool(np.allclose(T[0], T[1])), out="bool", mixed=True))
    add(R("allclose/rtol-atol", [a0, a0 * (1 + 1e-4)], lambda q, T: q.allclose(T[0], T[1], rtol=1e-3, atol=0.0), lambda T: bool(np.allclose(T[0], T[1], rtol=1e-3, atol=0.0)),
          out="bool", cls="allclose"))
    add(R("allclose/scalar", [a0 * 0 + 0.5], lambda q, T: q.allclose(T[0], 0.5), lambda T: True, out="bool", cls="allclose"))
    i0 = A(rng, m + 1, kind="i")
    add(R("allequal", [i0, i0.copy() if rng.random() < 0.5 else i0 + (np.arange(m + 1) == 0)], lambda q, T: q.allequal(T[0], T[1]), lambda T: bool(np.all(T[0] == T[1])),
          out="bool", mixed=True))
    cd = ["float32", "float64", "complex64", "complex128", np.float64, np.dtype("complex128"), "int64"][int(rng.integers(7))]
    add(R(f"cast/{np.dtype(cd).name}", [A(rng, n, m, kind=["f", "i"][int(rng.integers(2))])], lambda q, T, cd=cd: q.cast(T[0], cd),
          lambda T, cd=cd: T[0].astype(np.dtype(cd)), out="tensor+dtype", tol=1e-6, cls="cast"))
    add(R("cast_like", [A(rng, m, kind=["f", "i"][int(rng.integers(2))]), A(rng, 2, kind=["c", "f32", "f"][int(rng.integers(3))])], lambda q, T: q.cast_like(T[0], T[1]),
          lambda T: T[0].astype(T[1].dtype), out="tensor+dtype", tol=1e-6))
    add(R("convert_like", [A(rng, m, kind=ck), A(rng, 2)], lambda q, T: q.convert_like(_as_numpy(T[0]), T[1]), lambda T: T[0], out="tensor+dtype"))
    add(R("get_dtype_name", [A(rng, 2, kind=["f", "c", "i", "f32"][int(rng.integers(4))])], lambda q, T: q.get_dtype_name(T[0]), lambda T: T[0].dtype.name, out="py"))
    add(R("is_real_obj_or_close", [A(rng, m) + (0 if rng.random() < 0.3 else (1e-13j if rng.random() < 0.5 else 0.3j))], lambda q, T: q.is_real_obj_or_close(T[0]),
          lambda T: bool((not np.iscomplexobj(T[0])) or np.allclose(T[0].imag, 0.0)), out="bool"))
    gb = A(rng, *([B, 4] if rng.random() < 0.5 else [4]))
    add(R("get_batch_size", [gb], lambda q, T: q.get_batch_size(T[0], (4,), 4), lambda T: (T[0].shape[0] if T[0].ndim == 2 else None), out="py"))
    add(R("is_abstract/concrete", [A(rng, 2)], lambda q, T: q.is_abstract(T[0]), lambda T: False, out="bool", cls="is_abstract"))

    # ------------------------------------------------------------ autoray names with custom registrations (single_dispatch.py) + aliases in qp.math
    add(R("sum", [A(rng, n + 1, m, kind=ck)], lambda q, T: q.sum(T[0]), lambda T: np.sum(T[0]), grad=ck == "f"))
    sax2 = [0, -1, (0, 1)][int(rng.integers(3))]
    kd = bool(rng.random() < 0.5)
    add(R("sum/axis", [A(rng, n + 1, m, 2)], lambda q, T, a=sax2, kd=kd: q.sum(T[0], axis=a, keepdims=kd), lambda T, a=sax2, kd=kd: np.sum(T[0], axis=a, keepdims=kd),
          grad=True, cls="sum"))
    add(R("sum/axis=()", [A(rng, n, m)], lambda q, T: q.sum(T[0], axis=()), lambda T: np.sum(T[0], axis=()), cls="sum"))
    add(R("conj", [A(rng, n, m, kind="c")], lambda q, T: q.conj(T[0]), lambda T: np.conj(T[0])))
    add(R("transpose", [A(rng, n, m, k, kind=ck)], lambda q, T: q.transpose(T[0], (2, 0, 1)), lambda T: np.transpose(T[0], (2, 0, 1)), grad=ck == "f"))
    add(R("T", [A(rng, n, m + 1)], lambda q, T: q.T(T[0]), lambda T: T[0].T, grad=True))
    add(R("sqrt", [A(rng, m + 1, kind="p")], lambda q, T: q.sqrt(T[0]), lambda T: np.sqrt(T[0]), grad=True))
    add(R("sqrt/int", [np.abs(A(rng, m + 1, kind="i"))], lambda q, T: q.sqrt(T[0]), lambda T: np.sqrt(T[0]), cls="sqrt"))
    add(R("moveaxis", [A(rng, n, m, k + 1)], lambda q, T: q.moveaxis(T[0], 0, -1), lambda T: np.moveaxis(T[0], 0, -1), grad=True))
    add(R("mean", [A(rng, n + 1, m)], lambda q, T: q.mean(T[0], axis=0), lambda T: np.mean(T[0], axis=0), grad=True))
    dec = int(rng.integers(0, 4))
    add(R("round", [A(rng, m + 2) * 3], lambda q, T, d=dec: q.round(T[0], decimals=d), lambda T, d=dec: np.round(T[0], decimals=d), tol=1e-9))
    add(R("shape", [A(rng, n, m, 1)], lambda q, T: q.shape(T[0]), lambda T: tuple(T[0].shape), out="py"))
    add(R("ndim", [A(rng, *([n] * int(rng.integers(0, 4))))], lambda q, T: q.ndim(T[0]), lambda T: T[0].ndim, out="py"))
    add(R("size", [A(rng, n, m)], lambda q, T: q.size(T[0]), lambda T: T[0].size, out="py"))
    add(R("flatten", [A(rng, n, m, kind=ck)], lambda q, T: q.flatten(T[0]), lambda T: T[0].flatten(), grad=ck == "f"))
    add(R("reshape", [A(rng, n, 2, m)], lambda q, T: q.reshape(T[0], (-1, 2)), lambda T: np.reshape(T[0], (-1, 2)), grad=True))
    add(R("multiply", [A(rng, n, m, kind=ck), A(rng, m, kind=ck)], lambda q, T: q.multiply(T[0], T[1]), lambda T: T[0] * T[1], grad=ck == "f"))
    add(R("toarray", [A(rng, m, kind=ck)], lambda q, T: q.toarray(T[0]), lambda T: T[0], out="numpy"))
    gi_ = [int(x) for x in rng.integers(0, m + 2, size=3)]
    add(R("gather", [A(rng, m + 2, 2)], lambda q, T, g=gi_: q.gather(T[0], g), lambda T, g=gi_: T[0][np.array(g)], grad=True))
    add(R("unstack", [A(rng, n + 1, m)], lambda q, T: q.stack(list(q.unstack(T[0]))), lambda T: T[0], grad=True))
    tk = [int(x) for x in rng.integers(-(m + 2), m + 2, size=3)]
    tax = [None, 0, 1][int(rng.integers(3))]
    nax = [-1, -2][int(rng.integers(2))]
    add(R(f"take/axis={nax}", [A(rng, m + 2, m + 2 + int(rng.integers(2)))], lambda q, T, i=tk, a=nax: q.take(T[0], i, axis=a), lambda T, i=tk, a=nax: np.take(T[0], i, axis=a),
          grad=True, cls="take", gmech={"autograd": "take:autograd-negative-axis"}))
    add(R(f"take/axis={tax}", [A(rng, m + 2, m + 2 + int(rng.integers(2)))], lambda q, T, i=tk, a=tax: q.take(T[0], i, axis=a), lambda T, i=tk, a=tax: np.take(T[0], i, axis=a), grad=True, cls="take",
          gmech={"autograd": "take:autograd-negative-axis"} if (tax is not None and tax < 0) else None))
    add(R("take/2d-indices", [A(rng, m + 2, 3)], lambda q, T: q.take(T[0], [[0, 1], [1, 0]], axis=0), lambda T: np.take(T[0], [[0, 1], [1, 0]], axis=0), grad=True, cls="take"))
    add(R("eigvalsh", [herm(rng, m + 1)], lambda q, T: q.eigvalsh(T[0]), lambda T: np.linalg.eigvalsh(T[0]), tol=1e-9))
    add(R("eigvalsh/batched-real", [herm(rng, m + 1, batch=B, cplx=False)], lambda q, T: q.eigvalsh(T[0]), lambda T: np.linalg.eigvalsh(T[0]), tol=1e-9, cls="eigvalsh"))
    pr = rng.dirichlet(np.ones(m + 2), size=B)
    add(R("entr", [pr], lambda q, T: q.entr(T[0]), lambda T: -np.sum(T[0] * np.log(T[0]), axis=-1), grad=True))
    add(R("gamma", [A(rng, m + 1, kind="p") + 0.5], lambda q, T: q.gamma(T[0]), lambda T: ssp.gamma(T[0]), tol=1e-9, ifaces=["numpy", "autograd", "jax"]))
    add(R("diagonal", [A(rng, m + 1, m + 1)], lambda q, T: q.diagonal(T[0]), lambda T: np.diagonal(T[0]), grad=True))
    add(R("diag(torch k)", [A(rng, m + 2)], lambda q, T: q.diag(T[0], k=1), lambda T: np.diag(T[0], k=1), cls="diag"))
    eax = int(rng.integers(0, 3))
    add(R("expand_dims", [A(rng, n, m)], lambda q, T, a=eax: q.expand_dims(T[0], a), lambda T, a=eax: np.expand_dims(T[0], a), grad=True))
    add(R("equal", [i0, i0 + (np.arange(m + 1) % 2)], lambda q, T: q.equal(T[0], T[1]), lambda T: T[0] == T[1]))
    add(R("mod", [A(rng, m + 2) * 7], lambda q, T: q.mod(T[0], 2 * math.pi), lambda T: np.mod(T[0], 2 * math.pi), tol=1e-9))
    add(R("arctan2", [A(rng, m + 1), A(rng, m + 1)], lambda q, T: q.arctan2(T[0], T[1]), lambda T: np.arctan2(T[0], T[1]), grad=True))
    add(R("sort", [A(rng, m + 3)], lambda q, T: q.sort(T[0]), lambda T: np.sort(T[0])))
    add(R("outer", [A(rng, n + 1, kind=ck), A(rng, m + 1, kind=ck)], lambda q, T: q.outer(T[0], T[1]), lambda T: np.outer(T[0], T[1]), grad=ck == "f"))
    add(R("squeeze", [A(rng, 1, n, 1, m)], lambda q, T: q.squeeze(T[0]), lambda T: np.squeeze(T[0]), grad=True))
    add(R("abs", [A(rng, m + 1, kind=ck)], lambda q, T: q.abs(T[0]), lambda T: np.abs(T[0]), grad=ck == "f"))
    add(R("real/imag", [A(rng, m + 1, kind="c")], lambda q, T: q.stack([q.real(T[0]), q.imag(T[0])]), lambda T: np.stack([T[0].real, T[0].imag])))
    add(R("angle", [A(rng, m + 1, kind="c")], lambda q, T: q.angle(T[0]), lambda T: np.angle(T[0])))
    add(R("exp/sin/cos", [A(rng, m + 1)], lambda q, T: q.exp(T[0]) + q.sin(T[0]) * q.cos(T[0]), lambda T: np.exp(T[0]) + np.sin(T[0]) * np.cos(T[0]), grad=True))
    add(R("log", [A(rng, m + 1, kind="p")], lambda q, T: q.log(T[0]), lambda T: np.log(T[0]), grad=True))
    add(R("isclose", [a0, close], lambda q, T: q.isclose(T[0], T[1]), lambda T: np.isclose(T[0], T[1])))
    add(R("hstack/vstack", [A(rng, n, m), A(rng, n, m)], lambda q, T: q.vstack([q.hstack([T[0], T[1]]), q.hstack([T[0] * 2.0, T[1]])]),
          lambda T: np.vstack([np.hstack([T[0], T[1]]), np.hstack([T[0] * 2.0, T[1]])]), grad=True))
    add(R("any/all", [A(rng, n + 1, m, kind="b")], lambda q, T: (bool(q.any(T[0])), bool(q.all(T[0]))), lambda T: (bool(np.any(T[0])), bool(np.all(T[0]))), out="py"))
    add(R("trace", [A(rng, m + 1, m + 1, kind=ck)], lambda q, T: q.trace(T[0]), lambda T: np.trace(T[0]), grad=ck == "f"))
    add(R("prod", [A(rng, m + 1)], lambda q, T: q.prod(T[0]), lambda T: np.prod(T[0]), grad=True))
    add(R("max/min", [A(rng, n + 1, m + 1)], lambda q, T: q.max(T[0]) - q.min(T[0]), lambda T: np.max(T[0]) - np.min(T[0]), grad=True))
    add(R("sign", [A(rng, m + 2)], lambda q, T: q.sign(T[0]), lambda T: np.sign(T[0])))
    add(R("clip", [A(rng, m + 2)], lambda q, T: q.clip(T[0], -0.5, 0.5), lambda T: np.clip(T[0], -0.5, 0.5)))
    add(R("roll", [A(rng, m + 2)], lambda q, T: q.roll(T[0], 2), lambda T: np.roll(T[0], 2), grad=True))
    add(R("swapaxes", [A(rng, n, m, 2)], lambda q, T: q.swapaxes(T[0], 0, 2), lambda T: np.swapaxes(T[0], 0, 2), grad=True))
    add(R("cumsum", [A(rng, m + 2)], lambda q, T: q.cumsum(T[0], 0), lambda T: np.cumsum(T[0], 0), grad=True))
    add(R("broadcast_to", [A(rng, m)], lambda q, T, B=B: q.broadcast_to(T[0], (B, T[0].shape[0])), lambda T, B=B: np.broadcast_to(T[0], (B, T[0].shape[0])), grad="noag"))
    add(R("maximum", [A(rng, m + 1), A(rng, m + 1)], lambda q, T: q.maximum(T[0], T[1]), lambda T: np.maximum(T[0], T[1]), grad=True))
    add(R("logical", [A(rng, m + 2, kind="b"), A(rng, m + 2, kind="b")], lambda q, T: q.logical_and(T[0], q.logical_not(T[1])), lambda T: np.logical_and(T[0], np.logical_not(T[1]))))
    add(R("count_nonzero", [A(rng, m + 3, kind="i")], lambda q, T: int(q.count_nonzero(T[0])), lambda T: int(np.count_nonzero(T[0])), out="py"))
    add(R("zeros_like", [A(rng, n, m, kind=ck)], lambda q, T: q.zeros_like(T[0]), lambda T: np.zeros_like(T[0]), out="tensor+dtype"))
    add(R("linalg.eigh/values", [herm(rng, m + 1)], lambda q, T: q.linalg.eigh(T[0])[0], lambda T: np.linalg.eigh(T[0])[0], tol=1e-9, cls="linalg.eigh"))
    add(R("linalg.det", [A(rng, m + 1, m + 1, kind=ck)], lambda q, T: q.linalg.det(T[0]), lambda T: np.linalg.det(T[0]), grad=ck == "f", tol=1e-9))
    add(R("linalg.inv", [A(rng, m + 1, m + 1, kind=ck) + 3 * np.eye(m + 1)], lambda q, T: q.linalg.inv(T[0]), lambda T: np.linalg.inv(T[0]), grad=ck == "f", tol=1e-9))
    add(R("linalg.norm", [A(rng, m + 2, kind=ck)], lambda q, T: q.linalg.norm(T[0]), lambda T: np.linalg.norm(T[0]), grad=ck == "f"))
    add(R("linalg.matrix_power", [A(rng, m + 1, m + 1)], lambda q, T: q.linalg.matrix_power(T[0], 3), lambda T: np.linalg.matrix_power(T[0], 3), grad="noag", tol=1e-9))
    add(R("linalg.solve", [A(rng, m + 1, m + 1) + 3 * np.eye(m + 1), A(rng, m + 1)], lambda q, T: q.linalg.solve(T[0], T[1]), lambda T: np.linalg.solve(T[0], T[1]), grad="noag", gi=1, tol=1e-9))
    add(R("asarray(like)", [A(rng, m, kind=ck)], lambda q, T: q.asarray(_as_numpy(T[0]), like=q.get_interface(T[0])), lambda T: T[0], out="tensor+dtype"))
    add(R("fft", [A(rng, 4, kind=ck)], lambda q, T: q.fft.fft(T[0]), lambda T: np.fft.fft(T[0]), tol=1e-9))
    add(R("fft.ifft2", [A(rng, 2, 4, kind="c")], lambda q, T: q.fft.ifft2(T[0]), lambda T: np.fft.ifft2(T[0]), tol=1e-9, cls="fft"))

    # ------------------------------------------------------------ quantum.py / fidelity.py / matrix_manipulation.py (values are C49's job: here differential + gradients)
    d = 2**nq
    A0, A1 = A(rng, d, d), A(rng, d, d)
    C0, C1 = A(rng, d, d), A(rng, d, d)

    def rho_of(q, x, P, Q):  # real symmetric PSD, trace 1, smooth in real vector x (len 2)
        M = P * x[0] + Q * x[1] + q.eye(P.shape[0], like=q.get_interface(x))
        S = q.matmul(M, q.transpose(M))
        return S / q.trace(S)

    sig = (C0 + 0.5 * np.eye(d)) @ (C0 + 0.5 * np.eye(d)).T
    sig = sig / np.trace(sig)
    xs = A(rng, 2) * 0.5
    sub = [int(x) for x in rng.permutation(nq)[: int(rng.integers(1, nq + 1))]]
    add(R("fidelity", [xs, A0, A1, sig], lambda q, T: q.fidelity(rho_of(q, T[0], T[1], T[2]), T[3]), None, grad=True, tol=1e-8, gtol=2e-6))
    add(R("fidelity/arg1", [xs, A0, A1, sig], lambda q, T: q.fidelity(T[3], rho_of(q, T[0], T[1], T[2])), None, grad=True, tol=1e-8, gtol=2e-6, cls="fidelity"))
    psi0 = A(rng, d)
    add(R("fidelity_statevector", [xs, A0[0], A1[0], psi0 / np.linalg.norm(psi0)],
          lambda q, T: q.fidelity_statevector((T[1] * T[0][0] + T[2] * T[0][1] + 1.0) / q.sqrt(q.sum((T[1] * T[0][0] + T[2] * T[0][1] + 1.0) ** 2)), T[3]), None, grad=True, tol=1e-9))
    add(R("vn_entropy", [xs, A0, A1], lambda q, T, s=sub: q.vn_entropy(rho_of(q, T[0], T[1], T[2]), s, base=2), None, grad=True, tol=1e-9, gtol=2e-6))
    add(R("purity", [xs, A0, A1], lambda q, T, s=sub: q.purity(rho_of(q, T[0], T[1], T[2]), s), None, grad=True, tol=1e-9))
    add(R("trace_distance", [xs, A0, A1, sig], lambda q, T: q.trace_distance(rho_of(q, T[0], T[1], T[2]), T[3]), None, grad=True, tol=1e-9, gtol=2e-6))
    add(R("relative_entropy", [xs, A0, A1, sig], lambda q, T: q.relative_entropy(rho_of(q, T[0], T[1], T[2]), T[3]), None, grad=True, tol=1e-8, gtol=2e-6))
    if nq == 2:
        add(R("mutual_info", [xs, A0, A1], lambda q, T: q.mutual_info(rho_of(q, T[0], T[1], T[2]), [0], [1]), None, grad=True, tol=1e-9, gtol=2e-6))
    add(R("min_entropy", [xs, A0, A1], lambda q, T, s=sub: q.min_entropy(rho_of(q, T[0], T[1], T[2]), s), None, grad=True, tol=1e-9, gtol=2e-6))
    add(R("reduce_dm", [xs, A0, A1], lambda q, T, s=sub: q.real(q.reduce_dm(rho_of(q, T[0], T[1], T[2]), s)), None, grad=True, tol=1e-10))
    # partial_trace on 3 qubits with the traced indices in any order (autograd has its own implementation, the others share an einsum path)
    D3a, D3b = A(rng, 8, 8), A(rng, 8, 8)
    ptr = [int(x) for x in rng.permutation(3)[: int(rng.integers(1, 3))]]
    add(R("partial_trace", [xs, D3a, D3b], lambda q, T, s=ptr: q.real(q.partial_trace(rho_of(q, T[0], T[1], T[2]), s)), None, grad=True, tol=1e-10))
    pun = [[1, 0], [2, 0], [2, 1]][int(rng.integers(3))]
    add(R("partial_trace/unsorted", [xs, D3a, D3b], lambda q, T, s=pun: q.real(q.partial_trace(rho_of(q, T[0], T[1], T[2]), s)), None, grad=True, tol=1e-10,
          cls="partial_trace"))
    add(R("sqrt_matrix", [xs, A0, A1], lambda q, T: q.sqrt_matrix(rho_of(q, T[0], T[1], T[2])), None, tol=1e-8))
    add(R("reduce_statevector", [A(rng, d, kind="c") / 2], lambda q, T, s=sub: q.reduce_statevector(T[0], s), None))
    P = rng.dirichlet(np.ones(4))
    mpa = int(rng.integers(2))
    add(R("marginal_prob", [P], lambda q, T, a=mpa: q.marginal_prob(T[0], [a]), None, grad=True))
    add(R("cov_matrix", [rng.dirichlet(np.ones(8))], lambda q, T: q.cov_matrix(T[0], [qp.PauliZ(2), qp.PauliZ(0) @ qp.PauliX(1)], wires=qp.wires.Wires([0, 1, 2])), None, grad=True, tol=1e-10))
    add(R("cov_matrix/diag_approx", [rng.dirichlet(np.ones(4))], lambda q, T: q.cov_matrix(T[0], [qp.PauliZ(0), qp.PauliZ(1)], wires=qp.wires.Wires([0, 1]), diag_approx=True), None, cls="cov_matrix"))
    Mx = A(rng, 2, 2, kind=ck)
    add(R("expand_matrix", [Mx], lambda q, T: q.expand_matrix(T[0], wires=[2], wire_order=[0, 2, 1]), lambda T: np.kron(np.kron(np.eye(2), T[0]), np.eye(2)), grad=ck == "f"))
    add(R("expand_matrix/batched", [A(rng, B, 4, 4, kind=ck)], lambda q, T: q.expand_matrix(T[0], wires=[1, 0], wire_order=[0, 1, 2]), None, grad=ck == "f", cls="expand_matrix"))
    add(R("expand_vector", [A(rng, 4, kind=ck)], lambda q, T: q.expand_vector(T[0], [0, 2], [2, 1, 0]), None, grad=ck == "f"))
    add(R("reduce_matrices", [A(rng, 2, 2, kind=ck), A(rng, 4, 4, kind=ck)], lambda q, T: q.reduce_matrices([(T[0], [1]), (T[1], [0, 2])], q.matmul)[0], None))
    U2 = _haar(rng, 2) * np.exp(1j * rng.uniform(0, 6))
    add(R("convert_to_su2", [U2 if rng.random() < 0.6 else np.stack([U2, _haar(rng, 2)])], lambda q, T: q.convert_to_su2(T[0]), None, tol=1e-10))
    add(R("convert_to_su2/phase", [U2], lambda q, T: tuple(q.convert_to_su2(T[0], True)), None, tol=1e-10, out="tuple", cls="convert_to_su2"))
    add(R("convert_to_su4", [_haar(rng, 4) * np.exp(1j * rng.uniform(0, 6))], lambda q, T: q.convert_to_su4(T[0]), None, tol=1e-10))
    add(R("expectation_value", [herm(rng, d), A(rng, d, kind="c") / 2], lambda q, T: q.expectation_value(T[0], T[1]), lambda T: np.vdot(T[1], T[0] @ T[1])))
    add(R("choi_matrix", [_haar(rng, 2) * math.sqrt(0.3), _haar(rng, 2) * math.sqrt(0.7)], lambda q, T: q.choi_matrix([T[0], T[1]]), None))
    return out


def _haar(rng, d):
    G = rng.normal(size=(d, d)) + 1j * rng.normal(size=(d, d))
    Q, Rm = np.linalg.qr(G)
    return Q * (np.diag(Rm) / np.abs(np.diag(Rm)))


def _scatter_ref(idx, arr, L):
    o = np.zeros(L, dtype=arr.dtype)
    o[idx] = arr
    return o


def _sea_ref(t, i, v):
    o = np.array(t, copy=True)
    o[tuple(i)] += v
    return o


def _set_ref(t, i, v):
    o = np.array(t, copy=True)
    o[i] = v
    return o


def _own_copy(x):
    """Copy of a tensor in its own interface (set_index may write in place)."""
    mod = type(x).__module__
    if mod.startswith("torch"):
        return x.clone()
    if mod.startswith("jax"):
        return x
    return x.copy()


def _as_numpy(x):
    mod = type(x).__module__
    if mod.startswith("torch"):
        return x.detach().cpu().resolve_conj().numpy()
    return np.array(x)


# ----------------------------------------------------------------------------- the check
def run(ctx):
    warnings.filterwarnings("ignore")
    import autograd
    import autograd.numpy as anp
    import jax
    import jax.numpy as jnp
    import pennylane as qp
    import torch
    from pennylane import numpy as pnp

    jax.config.update("jax_enable_x64", True)
    # every eager jax op is compiled per (op, shapes, dtypes): keep the compiled kernels between runs (scratch, git-ignored)
    try:
        import os
        cdir = os.path.join(os.path.dirname(os.path.dirname(os.path.dirname(os.path.abspath(__file__)))), "evidence", ".work", "jaxcache")
        os.makedirs(cdir, exist_ok=True)
        jax.config.update("jax_compilation_cache_dir", cdir)
        jax.config.update("jax_persistent_cache_min_compile_time_secs", 0.0)
        jax.config.update("jax_persistent_cache_min_entry_size_bytes", -1)
    except Exception:  # noqa: BLE001 - only a speed-up
        pass
    qm = qp.math

    def to(iface, x, rg=False):
        x = np.asarray(x)
        if iface == "numpy":
            return x.copy()
        if iface == "autograd":
            return pnp.array(x, requires_grad=rg)
        if iface == "jax":
            return jnp.asarray(x)
        if iface == "torch":
            t = torch.tensor(x)
            if rg:
                t.requires_grad_(True)
            return t
        raise ValueError(iface)

    def iface_of(y):
        mod = type(y).__module__
        if mod.startswith("torch"):
            return "torch"
        if mod.startswith("jax") or mod.startswith("jaxlib"):
            return "jax"
        if mod.startswith("pennylane") or mod.startswith("autograd"):
            return "autograd"
        return "numpy"

    def norm(y):
        """Harness-side conversion of a (possibly nested) result to numpy."""
        if isinstance(y, (tuple, list)):
            return tuple(norm(e) for e in y)
        if isinstance(y, (set, frozenset, dict, str, type(None))):
            return y
        mod = type(y).__module__
        if mod.startswith("torch"):
            return y.detach().cpu().resolve_conj().resolve_neg().numpy()
        if mod.startswith("autograd") and hasattr(y, "_value"):
            return norm(y._value)
        return np.asarray(y)

    seen = {}

    def viol(mon, msg, case, mech, **kw):
        seen[mech] = seen.get(mech, 0) + 1
        ctx.count(f"viol/{mech}")
        if seen[mech] <= 2:
            ctx.violation(mon, msg, case=case, mech=mech, **kw)

    def close(a, b, tol):
        """Structural + numeric equality of normalised results; returns (ok, description)."""
        if isinstance(a, tuple) or isinstance(b, tuple):
            if not (isinstance(a, tuple) and isinstance(b, tuple) and len(a) == len(b)):
                return False, f"structure {type(a).__name__}/{type(b).__name__}"
            for x, y in zip(a, b):
                ok, why = close(x, y, tol)
                if not ok:
                    return ok, why
            return True, ""
        if isinstance(a, np.ndarray) or isinstance(b, np.ndarray):
            a, b = np.asarray(a), np.asarray(b)
            if a.shape != b.shape:
                return False, f"shape {a.shape} vs {b.shape}"
            if a.size == 0:
                return True, ""
            if a.dtype == bool or b.dtype == bool:
                return (bool(np.all(a == b)), "boolean values differ")
            with np.errstate(invalid="ignore"):
                err = float(np.max(np.abs(a.astype(complex) - b.astype(complex))))
            scale = max(1.0, float(np.max(np.abs(b))))
            return (err <= tol * scale, f"max abs difference {err:.3e} (tol {tol * scale:.1e})")
        return (a == b, f"{a!r} != {b!r}")

    def f32(T):
        return any(t.dtype in (np.float32, np.complex64) for t in T)

    import time as _time
    _t0 = _time.monotonic()

    def more():
        """Soft budget counted from the end of the imports (under load importing pennylane+jax+torch alone can take > 100 s)."""
        return (_time.monotonic() - _t0 < ctx.budget_s) or ctx.more()

    N = ctx.n(3, 160)
    for it in range(N):
        if not more():
            break
        gi = ctx.shard + it * ctx.nshards
        rng = ctx.case_rng(gi)
        if it % (10**6 if ctx.quick else 8) == 0:
            dims = [int(x) for x in ctx.rng.integers(1, 4, size=4)] + [int(ctx.rng.integers(1, 3))]
        recs = recipes(rng, qp, dims)
        for ri, r in enumerate(recs):
            ctx.case_index = gi * 1000 + ri
            info = {"recipe": r.name, "shapes": [list(t.shape) for t in r.T], "dtypes": [t.dtype.name for t in r.T], "iter": gi}
            ctx.case(fingerprint(r.name, *r.T), nontrivial=any(t.size >= 2 for t in r.T), cls=r.cls, sample=info if ri % 17 == it % 17 else None)
            # jax is the expensive interface (compilation): every recipe sees it every third iteration, recipes with jax-specific
            # code in PennyLane see it always
            if not (r.cls in JAX_ALWAYS or (ri + it) % 3 == 0):
                r.ifaces = [i for i in r.ifaces if i != "jax"]
            tol = max(r.tol, 2e-5 if f32(r.T) or "float32" in r.name or "complex64" in r.name else 0)
            # ---------------- values per interface
            res = {}
            for iface in r.ifaces:
                try:
                    y = r.f(qm, [to(iface, t) for t in r.T])
                    res[iface] = (y, norm(y))
                except Exception as e:  # noqa: BLE001
                    res[iface] = e
            base = res.get("numpy")
            # independent numpy/scipy formula vs. the numpy path
            if r.ref is not None and not isinstance(base, Exception):
                ctx.ev("math.value")
                want = r.ref(r.T)
                got = base[1]
                if r.out == "anybool":
                    ok, why = (bool(np.any(got)) == bool(want)), f"{got!r} vs {want!r}"
                elif r.out in ("bool", "py"):
                    ok, why = close(_py(got), _py(want), tol)
                elif r.out == "unwrapped":
                    ok, why = close(norm(list(got)), norm(list(want)), tol)
                else:
                    ok, why = close(got, norm(want), tol)
                if not ok:
                    viol("math.value", f"{r.name}[numpy] differs from the plain numpy/scipy formula: {why}", info, f"value:{r.cls}:numpy-vs-formula", observed=got, expected=norm(want))
            for iface in r.ifaces:
                v = res[iface]
                if isinstance(v, Exception):
                    ctx.ev("math.value")
                    others_ok = [i for i in r.ifaces if not isinstance(res[i], Exception)]
                    if isinstance(v, ImportError) and "couldn't find function" in str(v):
                        # documented: "only a subset of common functionality is supported" – no implementation registered for this backend
                        ctx.reject(f"unsupported:{r.cls}:{iface}")
                        if iface in ("autograd", "jax", "torch") and r.grad:
                            r.ifaces = [i for i in r.ifaces if i != iface]
                    elif others_ok:  # works in some interface but raises in this one
                        viol("math.value", f"{r.name}[{iface}] raised {type(v).__name__}: {str(v)[:200]} (works for {others_ok})", info, f"raises:{r.cls}:{iface}")
                    else:
                        ctx.inconclusive_case(f"{r.name}: raises in every interface: {type(v).__name__}: {str(v)[:120]}")
                    continue
                if iface == "numpy" or isinstance(base, Exception):
                    continue
                ctx.ev("math.value")
                y, yn = v
                if r.out == "anybool":
                    ok, why = bool(np.any(yn)) == bool(np.any(base[1])), f"{yn!r} vs {base[1]!r}"
                elif r.out == "svd":
                    ok, why = _svd_ok(yn, r.T[0], tol)
                elif r.out in ("bool", "py"):
                    ok, why = close(_py(yn), _py(base[1]), tol)
                elif r.out == "unwrapped":
                    ok, why = close(norm(list(yn)), norm(list(base[1])), tol)
                else:
                    ok, why = close(yn, base[1], tol)
                if not ok:
                    viol("math.value", f"{r.name}[{iface}] differs from the numpy result: {why}", info, f"value:{r.cls}:{iface}", observed=yn, expected=base[1])
                # ---------------- interface of the result
                if r.out in ("tensor", "tensor+dtype", "tuple", "svd", "detached"):
                    ctx.ev("math.iface")
                    ys = y if isinstance(y, (tuple, list)) else [y]
                    got_if = {iface_of(e) for e in ys}
                    allowed = {iface} if iface in ("jax", "torch") else {"autograd", "numpy"}
                    if not got_if <= allowed:
                        viol("math.iface", f"{r.name}: {iface} inputs produced a result in {sorted(got_if)}", info, f"iface:{r.cls}:{iface}")
                    if r.out == "tensor+dtype":
                        dn = [str(e.dtype).replace("torch.", "") for e in ys]
                        bn = [str(np.asarray(base[1]).dtype)]
                        if dn != bn:
                            viol("math.iface", f"{r.name}: {iface} result dtype {dn} != numpy result dtype {bn}", info, f"dtype:{r.cls}:{iface}")
                    if r.out == "detached":
                        if iface == "torch" and y.requires_grad:
                            viol("math.iface", "detach: torch result still requires grad", info, "detach:torch")
                if r.out == "numpy":
                    ctx.ev("math.iface")
                    if not isinstance(y, np.ndarray) or iface_of(y) != "numpy":
                        viol("math.iface", f"{r.name}: result for {iface} input is {type(y).__name__}, not a numpy array", info, f"iface:{r.cls}:{iface}")
            if r.out == "svd" and not isinstance(base, Exception):
                ctx.ev("math.value")
                ok, why = _svd_ok(base[1], r.T[0], tol)
                if not ok:
                    viol("math.value", f"{r.name}[numpy]: {why}", info, f"value:{r.cls}:numpy")
            # ---------------- mixed interfaces: documented priority
            if r.mixed and len(r.T) >= 2 and not isinstance(base, Exception) and it % 2 == 0:
                for hi, lo in (("torch", "numpy"), ("jax", "numpy"), ("autograd", "numpy"), ("torch", "autograd"), ("jax", "autograd")):
                    if hi == "jax" and "jax" not in r.ifaces:
                        continue
                    for order in (0, 1):
                        ifs = [hi if (j == 0) == (order == 0) else lo for j in range(len(r.T))]
                        minfo = {**info, "ifaces": ifs}
                        ctx.ev("math.value")
                        try:
                            y = r.f(qm, [to(f, t) for f, t in zip(ifs, r.T)])
                        except Exception as e:  # noqa: BLE001
                            viol("math.value", f"{r.name}: mixed inputs {ifs} raised {type(e).__name__}: {str(e)[:200]}", minfo, f"mixed-raises:{r.cls}:{hi}+{lo}")
                            continue
                        yn = norm(y)
                        if r.out in ("bool", "py"):
                            ok, why = close(_py(yn), _py(base[1]), tol)
                        else:
                            ok, why = close(yn, base[1], tol)
                        if not ok:
                            viol("math.value", f"{r.name}: mixed inputs {ifs} differ from the numpy result: {why}", minfo, f"mixed-value:{r.cls}:{hi}+{lo}")
                        if r.out in ("tensor", "tensor+dtype"):
                            ctx.ev("math.iface")
                            want_if = {hi} if hi in ("torch", "jax") else {"autograd", "numpy"}
                            if r.name == "cast_like":  # documented: result keeps the *type* of tensor1
                                want_if = {ifs[0]} if ifs[0] in ("torch", "jax") else {"autograd", "numpy"}
                            if iface_of(y) not in want_if:
                                viol("math.iface", f"{r.name}: mixed inputs {ifs} produced a {iface_of(y)} result (documented priority: {hi})", minfo, f"mixed-iface:{r.cls}:{hi}+{lo}")
            # ---------------- gradients
            if r.grad and all(t.dtype == np.float64 or t.dtype == bool for t in r.T):
                g_ifs = [i for i in ("autograd", "jax", "torch") if i in r.ifaces]
                if r.grad == "noag" and "autograd" in g_ifs:
                    g_ifs.remove("autograd")
                if r.grad == "notorch" and "torch" in g_ifs:
                    g_ifs.remove("torch")
                if isinstance(base, Exception) or isinstance(base[1], tuple):
                    continue
                y0 = base[1]
                wr = np.random.default_rng([gi, ri, 5]).normal(size=np.shape(y0))
                wi = np.random.default_rng([gi, ri, 6]).normal(size=np.shape(y0))
                g = r.gi

                def args(iface, x):
                    return [x if j == g else to(iface, t) for j, t in enumerate(r.T)]

                def scal_np(x):
                    o = norm(r.f(qm, args("numpy", x)))
                    return float(np.sum(wr * np.real(o)) + np.sum(wi * np.imag(o)))

                grads, vals = {}, {}
                for iface in g_ifs:
                    try:
                        if iface == "autograd":
                            def fa(x):
                                o = r.f(qm, args("autograd", x))
                                return anp.sum(wr * anp.real(o)) + anp.sum(wi * anp.imag(o))
                            gv = autograd.value_and_grad(fa)(pnp.array(r.T[g], requires_grad=True))
                            vals[iface], grads[iface] = float(np.real(gv[0])), np.asarray(gv[1])
                        elif iface == "jax":
                            def fj(x):
                                o = r.f(qm, args("jax", x))
                                return jnp.sum(wr * jnp.real(o)) + jnp.sum(wi * jnp.imag(o))
                            gv = jax.value_and_grad(fj)(jnp.asarray(r.T[g]))
                            vals[iface], grads[iface] = float(gv[0]), np.asarray(gv[1])
                        else:
                            x = torch.tensor(r.T[g], requires_grad=True)
                            o = r.f(qm, args("torch", x))
                            s = (torch.tensor(wr) * torch.real(o)).sum()
                            if torch.is_complex(o):
                                s = s + (torch.tensor(wi) * torch.imag(o)).sum()
                            (gt,) = torch.autograd.grad(s, x, allow_unused=True)
                            vals[iface] = float(s.detach())
                            grads[iface] = np.zeros_like(r.T[g]) if gt is None else gt.detach().numpy()
                    except Exception as e:  # noqa: BLE001
                        grads[iface] = e
                # finite differences on the numpy path
                x0 = np.array(r.T[g], dtype=float)
                v0 = scal_np(x0)
                fd = np.zeros_like(x0)
                h = 1e-6
                flat = x0.reshape(-1)
                for j in range(flat.size):
                    xp, xm = flat.copy(), flat.copy()
                    xp[j] += h
                    xm[j] -= h
                    fd.reshape(-1)[j] = (scal_np(xp.reshape(x0.shape)) - scal_np(xm.reshape(x0.shape))) / (2 * h)
                ginfo = {**info, "grad_wrt": g}
                okg = [i for i in g_ifs if not isinstance(grads[i], Exception)]
                for iface in g_ifs:
                    ctx.ev("math.grad")
                    gm = r.gmech.get(iface)
                    if isinstance(grads[iface], Exception):
                        e = grads[iface]
                        viol("math.grad", f"{r.name}: differentiating through {iface} raised {type(e).__name__}: {str(e)[:200]}", ginfo, gm or f"grad-raises:{r.cls}:{iface}")
                        continue
                    # the value computed while tracing must be the value of the numpy path
                    if not abs(vals[iface] - v0) <= max(1e-7, 100 * tol) * max(1.0, abs(v0), float(np.sum(np.abs(wr)) * np.max(np.abs(y0), initial=0.0))):
                        viol("math.grad", f"{r.name}: value computed while differentiating through {iface} is {vals[iface]!r}, numpy path gives {v0!r}", ginfo,
                             gm or f"traced-value:{r.cls}:{iface}")
                        continue
                    gg = _realarr(grads[iface])
                    if gg.shape != fd.shape:
                        viol("math.grad", f"{r.name}: {iface} gradient shape {gg.shape} != {fd.shape}", ginfo, gm or f"grad-shape:{r.cls}:{iface}")
                        continue
                    sc = max(1.0, float(np.max(np.abs(fd))))
                    err = float(np.max(np.abs(gg - fd)))
                    if not err <= 2e-5 * sc + 10 * r.gtol * sc:
                        viol("math.grad", f"{r.name}: {iface} gradient differs from finite differences by {err:.3e}", ginfo, gm or f"grad-fd:{r.cls}:{iface}", observed=gg, expected=fd)
                for a_i in range(len(okg)):
                    for b_i in range(a_i + 1, len(okg)):
                        ctx.ev("math.grad")
                        ga, gb = _realarr(grads[okg[a_i]]), _realarr(grads[okg[b_i]])
                        if ga.shape != gb.shape:
                            continue
                        sc = max(1.0, float(np.max(np.abs(ga))))
                        err = float(np.max(np.abs(ga - gb)))
                        if not err <= r.gtol * sc:
                            viol("math.grad", f"{r.name}: gradients of {okg[a_i]} and {okg[b_i]} differ by {err:.3e}", ginfo,
                                 r.gmech.get(okg[a_i]) or r.gmech.get(okg[b_i]) or f"grad-diff:{r.cls}:{okg[a_i]}-{okg[b_i]}", observed=ga, expected=gb)
        # ---------------- documented contracts of functions that return python objects
        contracts(ctx, qm, qp, rng, to, viol, pnp, jnp, jax, torch)


def _realarr(g):
    """Gradient w.r.t. a real input as a float array (autograd may hand back a complex/object dtype with zero imaginary part)."""
    return np.real(np.array(g, dtype=complex))


def _py(x):
    if isinstance(x, np.ndarray) and x.shape == ():
        return x.item()
    if isinstance(x, tuple):
        return tuple(_py(e) for e in x)
    if isinstance(x, np.generic):
        return x.item()
    return x


def _svd_ok(yn, M, tol):
    if not (isinstance(yn, tuple) and len(yn) == 3):
        return False, f"svd(compute_uv=True) returned {type(yn).__name__} of length {len(yn) if isinstance(yn, tuple) else '-'}"
    U, S, Vh = yn
    s_ref = np.linalg.svd(M, compute_uv=False)
    if np.shape(S) != s_ref.shape or np.max(np.abs(S - s_ref)) > tol * max(1, s_ref[0]):
        return False, "singular values differ"
    kk = len(S)
    rec = (U[:, :kk] * S) @ Vh[:kk, :]
    if rec.shape != M.shape or np.max(np.abs(rec - M)) > tol * max(1, s_ref[0]) * 10:
        return False, "U diag(S) Vh does not reproduce the matrix"
    return True, ""


def contracts(ctx, qm, qp, rng, to, viol, pnp, jnp, jax, torch):
    mon = "math.contract"
    x = rng.normal(size=3)

    def expect(name, got, want, mech, info=None):
        ctx.ev(mon)
        if got != want:
            viol(mon, f"{name}: got {got!r}, documented {want!r}", info or {"fn": name}, mech)

    # get_interface: names and priority
    names = {"numpy": "numpy", "autograd": "autograd", "jax": "jax", "torch": "torch"}
    for i, nme in names.items():
        expect(f"get_interface({i})", qm.get_interface(to(i, x)), nme, f"get_interface:{i}")
        expect(f"get_deep_interface([[{i}]])", qm.get_deep_interface([[to(i, x[0]), to(i, x[1])], [to(i, x[2])]]), nme, f"get_deep_interface:{i}")
    expect("get_interface(list)", qm.get_interface([1.0, 2.0]), "numpy", "get_interface:builtins")
    expect("get_interface(float)", qm.get_interface(0.3), "numpy", "get_interface:builtins")
    for hi, lo in (("torch", "numpy"), ("jax", "numpy"), ("autograd", "numpy"), ("torch", "autograd"), ("jax", "autograd")):
        with warnings.catch_warnings():
            warnings.simplefilter("ignore")
            expect(f"get_interface({lo},{hi})", qm.get_interface(to(lo, x), to(hi, x)), hi, f"get_interface:priority:{hi}+{lo}")
            expect(f"get_interface({hi},{lo},{lo})", qm.get_interface(to(hi, x), to(lo, x), 1.0), hi, f"get_interface:priority:{hi}+{lo}")
    ctx.ev(mon)
    try:
        qm.get_interface(to("torch", x), to("jax", x))
        viol(mon, "get_interface(torch, jax) did not raise (documented: incompatible tensors cannot both be present)", {"fn": "get_interface"}, "get_interface:incompatible")
    except ValueError:
        pass
    # requires_grad per interface (documented table)
    expect("requires_grad(numpy)", qm.requires_grad(x), False, "requires_grad:numpy")
    expect("requires_grad(autograd True)", qm.requires_grad(pnp.array(x, requires_grad=True)), True, "requires_grad:autograd")
    expect("requires_grad(autograd False)", qm.requires_grad(pnp.array(x, requires_grad=False)), False, "requires_grad:autograd")
    expect("requires_grad(torch True)", qm.requires_grad(torch.tensor(x, requires_grad=True)), True, "requires_grad:torch")
    expect("requires_grad(torch False)", qm.requires_grad(torch.tensor(x)), False, "requires_grad:torch")
    seen_jax = {}

    def probe(v):
        seen_jax["rg"] = qm.requires_grad(v)
        seen_jax["abs"] = qm.is_abstract(v)
        seen_jax["bp"] = qm.in_backprop(v)
        return jnp.sum(v**2)

    jax.grad(probe)(jnp.asarray(x))
    expect("requires_grad(jax tracer under grad)", seen_jax["rg"], True, "requires_grad:jax")
    expect("in_backprop(jax tracer under grad)", seen_jax["bp"], True, "in_backprop:jax")
    jax.jit(probe)(jnp.asarray(x))
    expect("is_abstract(jax tracer under jit)", seen_jax["abs"], True, "is_abstract:jax-jit")
    expect("is_abstract(jax concrete)", qm.is_abstract(jnp.asarray(x)), False, "is_abstract:jax")
    seen_ag = {}

    def probe_ag(v):
        seen_ag["bp"] = qm.in_backprop(v)
        seen_ag["rg"] = qm.requires_grad(v)
        return pnp.sum(v**2)

    qp.grad(probe_ag)(pnp.array(x, requires_grad=True))
    expect("in_backprop(autograd box)", seen_ag["bp"], True, "in_backprop:autograd")
    expect("requires_grad(autograd box)", seen_ag["rg"], True, "requires_grad:autograd-box")
    expect("in_backprop(numpy)", qm.in_backprop(x), False, "in_backprop:numpy")
    # get_trainable_indices
    vals_t = [torch.tensor(0.1, requires_grad=True), torch.tensor(0.2), torch.tensor(0.3, requires_grad=True)]
    expect("get_trainable_indices(torch)", qm.get_trainable_indices(vals_t), {0, 2}, "get_trainable_indices:torch")
    vals_a = [pnp.array(0.1, requires_grad=False), pnp.array([0.2, 0.3], requires_grad=True)]
    expect("get_trainable_indices(autograd)", qm.get_trainable_indices(vals_a), {1}, "get_trainable_indices:autograd")
    expect("get_trainable_indices(numpy)", qm.get_trainable_indices([x, x]), set(), "get_trainable_indices:numpy")
    # qp.math.grad / jacobian agree across frameworks
    W = rng.normal(size=(3, 3))

    def fq(v):
        return qm.sum(qm.sin(qm.dot(qm.convert_like(W, v), v)) ** 2)

    def fvec(v):
        return qm.sin(qm.dot(qm.convert_like(W, v), v))

    c, s_ = np.cos(W @ x), np.sin(W @ x)
    jref = c[:, None] * W
    gref = (2 * s_ * c) @ W
    for i in ("autograd", "jax", "torch"):
        xi = to(i, x, rg=True)
        ctx.ev(mon)
        try:
            g = np.asarray(norm_simple(qm.grad(fq)(xi)))
            if g.shape != gref.shape or np.max(np.abs(g - gref)) > 1e-9:
                viol(mon, f"qp.math.grad[{i}] differs from the analytic gradient", {"fn": "grad", "iface": i}, f"math.grad:{i}")
        except Exception as e:  # noqa: BLE001
            viol(mon, f"qp.math.grad[{i}] raised {type(e).__name__}: {str(e)[:200]}", {"fn": "grad", "iface": i}, f"math.grad-raises:{i}")
        ctx.ev(mon)
        try:
            j = np.asarray(norm_simple(qm.jacobian(fvec)(to(i, x, rg=True))))
            if j.shape != jref.shape or np.max(np.abs(j - jref)) > 1e-9:
                viol(mon, f"qp.math.jacobian[{i}] differs from the analytic jacobian", {"fn": "jacobian", "iface": i}, f"math.jacobian:{i}")
        except Exception as e:  # noqa: BLE001
            viol(mon, f"qp.math.jacobian[{i}] raised {type(e).__name__}: {str(e)[:200]}", {"fn": "jacobian", "iface": i}, f"math.jacobian-raises:{i}")


def norm_simple(y):
    if type(y).__module__.startswith("torch"):
        return y.detach().cpu().numpy()
    return np.asarray(y)
