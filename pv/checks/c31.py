"""C31 — Seeded and parallel execution is reproducible and order-preserving.

Monitors (M-EXEC history + model)
* ``par.order``      — every circuit of a batch encodes its batch index in binary on dedicated marker wires (X gates) and
  measures ``probs`` on them: whatever the shot count, ``results[i]`` must be the one-hot vector of ``i``.
* ``par.analytic``   — analytic results of a batch executed through an executor equal the serial execution
  (``max_workers=None``) to 1e-12.
* ``par.schedule``   — same seed, same backend, same worker count, *different* injected per-task delay plans (and so
  different completion orders, proven by worker-side logs): finite-shot results are bitwise identical.
* ``seed.repro``     — two devices created with the same seed give bitwise identical finite-shot results for the same
  sequence of executions (serial and parallel); a different seed gives different samples (sanity of the oracle).
* ``par.derivs``     — adjoint derivative entry points (compute_derivatives, execute_and_compute_derivatives, jvp, vjp)
  through an executor equal the serial results, in batch order.

The executor classes handed to ``ExecutionConfig(executor_backend=…)`` are thin harness subclasses of the real
``SerialExec / ThreadPoolExec / ProcPoolExec / MPPoolExec`` whose ``map`` swaps ``_simulate_wrapper`` for the picklable
``pv.c65_workers.JSim`` (planned delay keyed by the circuit's marker angle, start/finish events to spool files, then the
real ``_simulate_wrapper``).  The unmodified classes are run as well (natural jitter from mixed circuit sizes).
"""
from __future__ import annotations

import os
import warnings

import numpy as np

from pv.ctx import fingerprint

META = {
    "id": "C31",
    "level": "exploration",
    "technique": "history + model: batches executed on default.qubit through jitter-injecting subclasses of the real executors "
                 "(worker-side logs prove permuted completion), compared with serial execution, with index-encoding marker wires, "
                 "and across same-seed devices / different delay plans (bitwise)",
    "level_text": "Random mixed batches (analytic, integer shots and shot vectors in one batch; 2-9 wires) are executed with max_workers in "
                  "{None,1,2,3,4,8} on the serial, thread-pool, process-pool and multiprocessing-pool back ends; order, analytic equality "
                  "with serial, same-seed reproducibility and schedule-independence of the samples are checked on every batch.",
    "level_note": "Equality across different worker counts or back ends is not demanded (the statement fixes seed, backend and worker "
                  "count); it is only recorded. The JAX PRNG-key path and jitted execution are not driven. Process pools spawn workers that "
                  "import pennylane (~6 s each when idle), so the harness subclasses of the two process back ends keep one pool per (backend, size) alive across executions (quick: one pool per shard, 4 per run); the unmodified process classes (fresh pool per execute) run in the thorough tier only; derivative batches "
                  "use consecutive integer wires and single-parameter gates only (the device-level adjoint entry points expect "
                  "preprocessed tapes: map_to_standard_wires() forgets trainable_params when it relabels, adjoint_vjp skips multi-parameter "
                  "gates) - both unrelated to parallelism.",
    "design_ref": "7/C31",
    "shards": {"quick": 4, "thorough": 16},
    "budget_s": {"quick": 200, "thorough": 480},
    "min_evals": {"quick": 300, "thorough": 5000},
    "min_nontrivial": {"quick": 12, "thorough": 100},
    "deciding": ["par.order", "par.analytic", "par.schedule", "seed.repro", "par.derivs"],
    "rule": "case = one batch executed under one (backend, max_workers, seed) with R delay plans; distinct = batch content + configuration; "
            "non-trivial = worker logs of at least one of its executions show a completion order different from the submission order",
    "assumptions": ["marker wires are only touched by the harness' X gates, so probs on them identifies the circuit exactly"],
}

# ----------------------------------------------------------------------------- jitter executors (parent-side only)
JIT = {"spool": None, "delays": {}, "call": 0, "last_call_id": None, "enabled": True, "tag": "x"}


def _jmap(self, sup_map, fn, *args, **kwargs):
    if JIT["enabled"] and getattr(fn, "__name__", "") == "_simulate_wrapper":
        from pv.c65_workers import JSim

        JIT["call"] += 1
        cid = f"{JIT['tag']}-{JIT['call']}"
        JIT["last_call_id"] = cid
        fn = JSim(JIT["spool"], cid, dict(JIT["delays"]))
    return sup_map(fn, *args, **kwargs)


POOLS = {}


def close_pools():
    for (kind, _), pool in list(POOLS.items()):
        try:
            if kind == "mp_pool":
                pool.terminate()
                pool.join()
            else:
                pool.shutdown(wait=True, cancel_futures=True)
        except Exception:  # noqa: BLE001
            pass
    POOLS.clear()


def make_executors():
    from pennylane.concurrency.executors import MPPoolExec, ProcPoolExec, SerialExec, ThreadPoolExec

    class JSerial(SerialExec):
        def map(self, fn, *args, **kwargs):
            return _jmap(self, super().map, fn, *args, **kwargs)

    class JThread(ThreadPoolExec):
        def map(self, fn, *args, **kwargs):
            return _jmap(self, super().map, fn, *args, **kwargs)

    # Process back ends: default.qubit builds a fresh executor (and so a fresh spawn pool whose workers import pennylane) for
    # every execute().  The harness subclasses keep ONE pool per (backend, size) alive and hand it to every executor instance
    # (only _get_backend is overridden: submission, result collection and ordering are the real code).  The unmodified
    # classes (fresh pool per call) are driven in the thorough tier.
    class JProc(ProcPoolExec):
        def map(self, fn, *args, **kwargs):
            return _jmap(self, super().map, fn, *args, **kwargs)

        def _get_backend(self):
            key = ("cf_procpool", self._size)
            if key not in POOLS:
                POOLS[key] = self._exec_backend()(self._size)
            return POOLS[key]

    class JMP(MPPoolExec):
        def map(self, fn, *args, **kwargs):
            return _jmap(self, super().map, fn, *args, **kwargs)

        def _get_backend(self):
            key = ("mp_pool", self._size)
            if key not in POOLS:
                POOLS[key] = self._exec_backend()(self._size)
            return POOLS[key]

    return {"serial": (JSerial, SerialExec), "cf_threadpool": (JThread, ThreadPoolExec),
            "cf_procpool": (JProc, ProcPoolExec), "mp_pool": (JMP, MPPoolExec)}


# ----------------------------------------------------------------------------- batches
def marker_angle(i):
    return 0.001 * (i + 1)


def gen_batch(qp, rng, nb, max_wires, allow_shots=True, adjoint_only=False):
    """nb circuits; circuit i: RZ(marker_i) on the first marker wire (delay key; acts trivially on |0>), X gates writing i in
    binary on the marker wires, then a random body on the work wires; measurements: probs(marker wires) first."""
    k = max(1, int(np.ceil(np.log2(max(nb, 2)))))
    mw = [f"m{j}" for j in range(k)]
    tapes, desc = [], []
    for i in range(nb):
        nw = int(rng.integers(2, max_wires + 1))
        wires = list(range(nw))
        if adjoint_only:
            # derivative batches use plain consecutive integer wires in order of first use: the device-level derivative wrappers
            # call tape.map_to_standard_wires(), which (unrelated to parallelism) forgets trainable_params when it has to relabel
            ops = [qp.RZ(marker_angle(i), wires=0)] + [qp.RY(float(rng.uniform(-3, 3)), wires=w) for w in range(1, nw)]
        else:
            ops = [qp.RZ(marker_angle(i), wires=mw[0])]
            for j in range(k):
                if (i >> j) & 1:
                    ops.append(qp.X(mw[j]))
        nops = int(rng.integers(2, 14))
        for _ in range(nops):
            r = rng.random()
            if r < 0.45:
                g = [qp.RX, qp.RY, qp.RZ][int(rng.integers(3))]
                ops.append(g(float(rng.uniform(-3, 3)), wires=int(rng.integers(nw))))
            elif r < 0.6:
                ops.append(qp.Hadamard(int(rng.integers(nw))))
            elif r < 0.9 and nw >= 2:
                a, b = (int(x) for x in rng.choice(nw, size=2, replace=False))
                ops.append([qp.CNOT, qp.CZ][int(rng.integers(2))](wires=[a, b]))
            elif not adjoint_only:
                ops.append(qp.Rot(*[float(x) for x in rng.uniform(-3, 3, size=3)], wires=int(rng.integers(nw))))
            else:  # the device-level adjoint entry points expect single-parameter gates (Rot is decomposed by device preprocessing)
                ops.append(qp.PhaseShift(float(rng.uniform(-3, 3)), wires=int(rng.integers(nw))))
        if adjoint_only:
            shots = None
            ms = [qp.expval(qp.Z(int(rng.integers(nw)))) for _ in range(int(rng.integers(1, 3)))]
            ms.append(qp.expval(qp.X(int(rng.integers(1, nw))) @ qp.Z(0)))
        else:
            r = rng.random()
            if not allow_shots or r < 0.4:
                shots = None
            elif r < 0.8:
                shots = int(rng.integers(5, 400))
            else:
                shots = [int(x) for x in rng.integers(3, 60, size=int(rng.integers(2, 4)))]
            ms = [qp.probs(wires=mw)]
            for _ in range(int(rng.integers(1, 4))):
                r2 = rng.random()
                w = int(rng.integers(nw))
                if r2 < 0.35:
                    ms.append(qp.expval(qp.Z(w)))
                elif r2 < 0.5:
                    ms.append(qp.var(qp.X(w)))
                elif r2 < 0.75:
                    ms.append(qp.probs(wires=wires[: min(nw, 3)]))
                elif shots is not None:
                    ms.append(qp.sample(wires=wires[: min(nw, 3)]))
                else:
                    ms.append(qp.expval(qp.Y(w)))
        tapes.append(qp.tape.QuantumScript(ops, ms, shots=shots))
        desc.append({"i": i, "wires": nw, "ops": len(ops), "shots": shots, "meas": [type(m).__name__ for m in ms]})
    return tapes, desc, k


def leaves(x):
    if isinstance(x, (tuple, list)):
        out = []
        for y in x:
            out.extend(leaves(y))
        return out
    if isinstance(x, dict):
        return [np.asarray(sorted(x.items()), dtype=object)]
    return [np.asarray(x)]


def bitwise_equal(a, b):
    la, lb = leaves(a), leaves(b)
    if len(la) != len(lb):
        return False
    for x, y in zip(la, lb):
        if x.shape != y.shape or x.dtype != y.dtype:
            return False
        if x.dtype == object:
            if x.tolist() != y.tolist():
                return False
        elif not np.array_equal(x, y):
            return False
    return True


def close(a, b, atol=1e-12):
    la, lb = leaves(a), leaves(b)
    if len(la) != len(lb):
        return False
    return all(x.shape == y.shape and np.allclose(x, y, rtol=0, atol=atol) for x, y in zip(la, lb))


def first_leaf_per_shot_copy(res, tape):
    """probs(marker wires) results of one circuit: list of arrays (one per shot-vector entry)."""
    nm = len(tape.measurements)
    if tape.shots.has_partitioned_shots:
        return [np.asarray(r[0] if nm > 1 else r) for r in res]
    return [np.asarray(res[0] if nm > 1 else res)]


# ----------------------------------------------------------------------------- one execution with logs
def execute_logged(ctx, W, dev, tapes, config, spool, delays):
    JIT["delays"] = delays
    JIT["last_call_id"] = None
    res = dev.execute(tapes, config)
    cid = JIT["last_call_id"]
    log = W.read_spool(spool, cid) if cid else []
    fins = [e[1] for e in log if e[0] == "F"]
    sub = [repr(int(round(marker_angle(i) * 1e6))) for i in range(len(tapes))]
    permuted = len(fins) == len(sub) and len(sub) >= 2 and fins != sub
    return res, {"permuted": permuted, "fin_order": [sub.index(k) if k in sub else -1 for k in fins], "pids": len({e[2] for e in log}),
                 "threads": len({(e[2], e[3]) for e in log}), "logged": len(fins)}


def plan_delays(rng, n, plan, scale):
    keys = [int(round(marker_angle(i) * 1e6)) for i in range(n)]
    if plan == "long-first":
        return {k: scale * (n - i) / n for i, k in enumerate(keys)}
    if plan == "short-first":
        return {k: scale * (i + 1) / n for i, k in enumerate(keys)}
    if plan == "random":
        return {k: float(scale * rng.random()) for k in keys}
    return {}


def check_order(ctx, tapes, res, k, where, case, index_of=None):
    """index_of[pos] = batch index encoded in the circuit at position pos (identity by default)."""
    ok = True
    if len(res) != len(tapes):
        ctx.ev("par.order")
        ctx.violation("par.order", f"{where}: {len(res)} results for {len(tapes)} circuits", case=case, mech="result-count")
        return False
    for i, (t, r) in enumerate(zip(tapes, res)):
        ctx.ev("par.order")
        want = i if index_of is None else index_of[i]
        try:
            for p in first_leaf_per_shot_copy(r, t):
                j = int(np.argmax(p))
                if p.shape != (2 ** k,) or abs(float(p[j]) - 1.0) > 1e-9 or j != _bits_to_index(want, k):
                    got = _index_from_onehot(j, k)
                    ctx.violation("par.order", f"{where}: results[{i}] belongs to circuit {got} (marker wires read {j:0{k}b})",
                                  case={**case, "position": i, "belongs_to": got}, mech="results-out-of-batch-order")
                    ok = False
                    break
        except Exception as e:  # noqa: BLE001
            ctx.violation("par.order", f"{where}: results[{i}] has an unexpected structure: {type(e).__name__}: {e}", case=case,
                          mech="result-structure")
            ok = False
    return ok


def _bits_to_index(i, k):
    # probs over wires [m0..m_{k-1}] : m0 is the most significant bit of the basis-state index; bit j of i sits on wire m_j
    return sum(((i >> j) & 1) << (k - 1 - j) for j in range(k))


def _index_from_onehot(j, k):
    return sum(((j >> (k - 1 - b)) & 1) << b for b in range(k))


# ----------------------------------------------------------------------------- workloads
def parallel_case(ctx, qp, W, EX, rng, spool, backend, workers, nb, max_wires, R, scale, jitter=True, idx=0):
    from pennylane.devices import ExecutionConfig

    tapes, desc, k = gen_batch(qp, rng, nb, max_wires)
    seed = int(rng.integers(1, 2 ** 31 - 1))
    cls = EX[backend][0 if jitter else 1]
    cfg = ExecutionConfig(executor_backend=cls, device_options={"max_workers": workers})
    case = {"backend": backend, "max_workers": workers, "jitter": jitter, "seed": seed, "batch": desc[:8], "n": nb}
    JIT["enabled"] = jitter
    plans = ["long-first", "random", "short-first", "long-first"][:R] if jitter else ["none"] * R
    runs, infos = [], []
    for r, plan in enumerate(plans):
        dev = qp.device("default.qubit", seed=seed)
        delays = plan_delays(rng, nb, plan, scale)
        res1, info = execute_logged(ctx, W, dev, tapes, cfg, spool, delays)
        # "same sequence of executions": a second execution on the same device (its generator has advanced)
        res2, info2 = execute_logged(ctx, W, dev, tapes[::-1], cfg, spool, {}) if (r < 2 and backend in ("serial", "cf_threadpool")) \
            else (None, None)
        runs.append((res1, res2))
        infos.append(info)
        if info["permuted"]:
            ctx.count(f"permuted_executions.{backend}")
            ctx.note_add("_orders", fingerprint(backend, repr(info["fin_order"])), cap=100000)
            if ctx.nevents.get("interleaving", 0) < 40:
                ctx.event("interleaving", backend=backend, max_workers=workers, plan=plan, n=nb, completion_order=info["fin_order"][:24],
                          pids=info["pids"], threads=info["threads"])
        ctx.count(f"executions.{backend}")
    permuted_any = any(i["permuted"] for i in infos)
    distinct_orders = len({tuple(i["fin_order"]) for i in infos})
    fp = fingerprint(backend, workers, jitter, seed, repr(desc))
    ctx.case(fp, nontrivial=permuted_any, cls=f"{backend}:w{workers}" + ("" if jitter else ":unmodified"),
             sample={**{kk: case[kk] for kk in ("backend", "max_workers", "jitter", "n")}, "completion_orders": [i["fin_order"][:12] for i in infos],
                     "worker_pids": [i["pids"] for i in infos], "shots": [d["shots"] for d in desc][:12]})
    # (1) order, every run
    for r, (res1, res2) in enumerate(runs):
        check_order(ctx, tapes, res1, k, f"{backend}(max_workers={workers}) run {r}", case)
        if res2 is not None:
            check_order(ctx, tapes[::-1], res2, k, f"{backend}(max_workers={workers}) run {r}, second execution", case,
                        index_of=list(range(nb))[::-1])
    # (2) analytic == serial
    dev0 = qp.device("default.qubit", seed=seed)
    serial = dev0.execute(tapes, ExecutionConfig())
    for i, t in enumerate(tapes):
        if t.shots:
            continue
        for r, (res1, _) in enumerate(runs):
            ctx.ev("par.analytic")
            if len(res1) == len(tapes) and not close(res1[i], serial[i]):
                ctx.violation("par.analytic", f"{backend}(max_workers={workers}) run {r}: analytic result of circuit {i} differs from the "
                              "serial execution", case={**case, "circuit": desc[i]}, mech="analytic-differs-from-serial",
                              observed=[x.tolist() for x in leaves(res1[i])][:3], expected=[x.tolist() for x in leaves(serial[i])][:3])
                break
    # (3) schedule independence / same-seed reproducibility (bitwise) across the R runs (each used a fresh same-seed device)
    if any(t.shots for t in tapes):
        for r in range(1, len(runs)):
            mon = "par.schedule" if (jitter and infos[r]["fin_order"] != infos[0]["fin_order"]) else "seed.repro"
            ctx.ev(mon)
            if not bitwise_equal(runs[r][0], runs[0][0]):
                bad = [i for i in range(nb) if not bitwise_equal(runs[r][0][i], runs[0][0][i])] if len(runs[r][0]) == len(runs[0][0]) == nb else []
                ctx.violation(mon, f"{backend}(max_workers={workers}), same seed {seed}: finite-shot results of run {r} (completion order "
                              f"{infos[r]['fin_order'][:10]}) differ from run 0 (completion order {infos[0]['fin_order'][:10]}) at circuits {bad[:6]}",
                              case=case, mech="samples-depend-on-schedule" if mon == "par.schedule" else "same-seed-not-reproducible")
            if runs[r][1] is not None and runs[0][1] is not None:
                ctx.ev("seed.repro")
                if not bitwise_equal(runs[r][1], runs[0][1]):
                    ctx.violation("seed.repro", f"{backend}(max_workers={workers}), same seed {seed}: the SECOND execution on two same-seed "
                                  "devices gave different finite-shot results", case=case, mech="second-execution-not-reproducible")
        # sanity of the oracle: a different seed must give different samples (otherwise bitwise equality says nothing)
        if idx % 4 == 0 and sum(int(t.shots.total_shots) for t in tapes if t.shots) >= 200:
            dev2 = qp.device("default.qubit", seed=seed + 1)
            JIT["delays"] = {}
            other = dev2.execute(tapes, cfg)
            ctx.ev("seed.sanity")
            if bitwise_equal(other, runs[0][0]):
                ctx.count("seed_sanity_equal_samples_for_different_seed")
    return permuted_any, distinct_orders


def serial_repro_case(ctx, qp, rng):
    """max_workers=None: two same-seed devices, same sequence of 2-3 executions -> identical results; order by markers."""
    from pennylane.devices import ExecutionConfig

    nb = int(rng.integers(2, 9))
    tapes, desc, k = gen_batch(qp, rng, nb, 5)
    seed = int(rng.integers(1, 2 ** 31 - 1))
    nseq = int(rng.integers(2, 4))
    seqs = []
    for _ in range(2):
        dev = qp.device("default.qubit", seed=seed)
        seqs.append([dev.execute(tapes if s % 2 == 0 else tapes[::-1], ExecutionConfig()) for s in range(nseq)])
    case = {"backend": "none(max_workers=None)", "seed": seed, "batch": desc[:8], "sequence": nseq}
    ctx.case(fingerprint("serial", seed, repr(desc)), nontrivial=False, cls="max_workers=None")
    check_order(ctx, tapes, seqs[0][0], k, "max_workers=None", case)
    for s in range(nseq):
        ctx.ev("seed.repro")
        if not bitwise_equal(seqs[0][s], seqs[1][s]):
            ctx.violation("seed.repro", f"two devices with seed {seed}: execution {s} of the same sequence gave different results", case=case,
                          mech="same-seed-not-reproducible:serial")


def derivs_case(ctx, qp, EX, rng, backend, workers, jitter_cls=True):
    """Adjoint derivative entry points through an executor == serial, in batch order (parameters make every circuit distinct)."""
    from pennylane.devices import ExecutionConfig

    nb = int(rng.integers(2, 9))
    tapes, desc, k = gen_batch(qp, rng, nb, 5, adjoint_only=True)
    for t in tapes:
        npar = len(t.get_parameters(trainable_only=False))
        t.trainable_params = list(range(1, npar))  # everything but the marker angle
    tapes = [t for t in tapes if t.trainable_params] or tapes
    cls = EX[backend][0]
    par = ExecutionConfig(executor_backend=cls, device_options={"max_workers": workers}, gradient_method="adjoint", use_device_gradient=True)
    ser = ExecutionConfig(gradient_method="adjoint", use_device_gradient=True)
    JIT["delays"] = {}
    dev_p = qp.device("default.qubit")
    dev_s = qp.device("default.qubit")
    case = {"backend": backend, "max_workers": workers, "batch": desc[:8]}
    ctx.case(fingerprint("derivs", backend, workers, repr(desc), repr([t.get_parameters() for t in tapes])), nontrivial=False, cls=f"derivs:{backend}")
    tang = [tuple(float(x) for x in rng.uniform(-1, 1, size=len(t.trainable_params))) for t in tapes]
    cot = [tuple(float(x) for x in rng.uniform(-1, 1, size=len(t.measurements))) for t in tapes]
    calls = [
        ("compute_derivatives", lambda d, c: d.compute_derivatives(tapes, c)),
        ("execute_and_compute_derivatives", lambda d, c: d.execute_and_compute_derivatives(tapes, c)),
        ("compute_jvp", lambda d, c: d.compute_jvp(tapes, tang, c)),
        ("execute_and_compute_jvp", lambda d, c: d.execute_and_compute_jvp(tapes, tang, c)),
        ("compute_vjp", lambda d, c: d.compute_vjp(tapes, cot, c)),
        ("execute_and_compute_vjp", lambda d, c: d.execute_and_compute_vjp(tapes, cot, c)),
    ]
    for name, f in calls:
        ctx.ev("par.derivs")
        try:
            a = f(dev_p, par)
            b = f(dev_s, ser)
        except Exception as e:  # noqa: BLE001
            ctx.violation("par.derivs", f"{name} through {backend}(max_workers={workers}) raised {type(e).__name__}: {str(e)[:200]}",
                          case=case, mech=f"derivs-raise:{name}:{type(e).__name__}")
            continue
        if not close(a, b, atol=1e-10):
            la, lb = leaves(a), leaves(b)
            perm = len(la) == len(lb) and sorted(map(lambda x: repr(np.round(x, 8).tolist()), la)) == sorted(map(lambda x: repr(np.round(x, 8).tolist()), lb))
            ctx.violation("par.derivs", f"{name} through {backend}(max_workers={workers}) differs from the serial result"
                          + (" (same values in a different order)" if perm else ""), case=case,
                          mech=f"derivs-out-of-order:{name}" if perm else f"derivs-differ:{name}")


# ----------------------------------------------------------------------------- driver
def run(ctx):
    warnings.simplefilter("ignore")
    import pennylane as qp

    from pv import c65_workers as W

    root = os.path.dirname(os.path.dirname(os.path.dirname(os.path.abspath(__file__))))
    spool = os.path.join(root, "evidence", ".work", "C31", f"spool-{ctx.tier}-{ctx.seed}-{ctx.shard}")
    os.makedirs(spool, exist_ok=True)
    JIT["spool"] = spool
    JIT["tag"] = f"s{ctx.shard}"
    EX = make_executors()
    rng = ctx.rng
    q = ctx.quick
    idx = 0
    # ---- cheap part: serial reproducibility, serial executor, thread pools.  The quick-tier amounts always run; whatever the
    # thorough tier adds is trimmed by the soft budget (a loaded machine must not turn it into a timeout).
    def go(j, minimum):
        return j < minimum or ctx.more()

    for j in range(6 if q else 40):
        if not go(j, 6):
            break
        ctx.case_index = idx = idx + 1
        serial_repro_case(ctx, qp, rng)
    for j in range(3 if q else 12):
        if not go(j, 3):
            break
        ctx.case_index = idx = idx + 1
        parallel_case(ctx, qp, W, EX, rng, spool, "serial", 1, int(rng.integers(2, 10)), 5, R=2, scale=0.0, idx=idx)
    thread_workers = [1, 2, 3, 4, 8]
    nthread = 10 if q else 80
    for j in range(nthread):
        if not go(j, 5):
            break
        ctx.case_index = idx = idx + 1
        w = thread_workers[(j + ctx.shard) % len(thread_workers)]
        parallel_case(ctx, qp, W, EX, rng, spool, "cf_threadpool", w, int(rng.integers(2, 25 if not q else 17)), 7 if q else 9,
                      R=3, scale=0.02, jitter=(j % 5 != 4), idx=idx)
    for j in range(2 if q else 10):
        if not go(j, 2):
            break
        ctx.case_index = idx = idx + 1
        derivs_case(ctx, qp, EX, rng, "cf_threadpool", thread_workers[(j + ctx.shard) % 5])
    ctx.case_index = idx = idx + 1
    derivs_case(ctx, qp, EX, rng, "serial", 1)
    # ---- expensive part: spawn pools whose workers import pennylane
    proc_plan = [("cf_procpool", 2), ("mp_pool", 3), ("cf_procpool", 3), ("mp_pool", 2), ("cf_procpool", 4), ("mp_pool", 4),
                 ("cf_procpool", 8), ("mp_pool", 8)]
    try:
        # one pool per shard always (cf_procpool w2/w3, mp_pool w3/w2, rotated by shard and seed), reused by 3 executions
        backend, w = proc_plan[(ctx.shard + ctx.seed) % 4]
        ctx.case_index = idx = idx + 1
        parallel_case(ctx, qp, W, EX, rng, spool, backend, w, int(rng.integers(6, 13)), 6, R=3, scale=0.2, idx=idx)
        ctx.case_index = idx = idx + 1
        derivs_case(ctx, qp, EX, rng, backend, w)
        if not q:
            close_pools()
            for j in range(3):
                if not ctx.more():
                    break
                backend, w = proc_plan[4 + (ctx.shard + j + ctx.seed) % 4] if j == 0 else proc_plan[(3 * ctx.shard + j + ctx.seed) % len(proc_plan)]
                for rep in range(3):
                    if rep and not ctx.more():
                        break
                    ctx.case_index = idx = idx + 1
                    parallel_case(ctx, qp, W, EX, rng, spool, backend, w, int(rng.integers(6, 25)), 8, R=3, scale=0.2, idx=idx)
                if ctx.more():
                    ctx.case_index = idx = idx + 1
                    derivs_case(ctx, qp, EX, rng, backend, w)
                close_pools()
            if ctx.more():  # the unmodified classes: a fresh spawn pool per execute(), natural jitter only
                backend, w = [("cf_procpool", 2), ("mp_pool", 2)][ctx.shard % 2]
                ctx.case_index = idx = idx + 1
                parallel_case(ctx, qp, W, EX, rng, spool, backend, w, int(rng.integers(6, 13)), 8, R=2, scale=0.0, jitter=False, idx=idx)
    finally:
        close_pools()
    orders = ctx.notes.pop("_orders", [])
    ctx.note("interleavings_observed", len(orders))
    ctx.note("permuted_executions_total", sum(v for kk, v in ctx.counters.items() if kk.startswith("permuted_executions.")))
    try:
        for fn in os.listdir(spool):
            os.remove(os.path.join(spool, fn))
        os.rmdir(spool)
    except OSError:
        pass
