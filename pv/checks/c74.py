"""C74 — MBQC conversion and Pauli tracking preserve the circuit.

Level: translation validation (every converted program is validated against its source).

Deciding monitors:
* ``mbqc.gateset``   – ``convert_to_mbqc_gateset`` (graph decomposition enabled, always restored): output gates ⊆
  {CNOT, H, S, RotXZX, RZ, X, Y, Z, I, GlobalPhase} and the circuit unitary equals the source's (R-SV, up to global phase).
* ``mbqc.formalism`` – ``convert_to_mbqc_formalism`` (``diagonalize_mcms`` False and True): the output tape (graph states,
  X/Y/parametric mid-circuit measurements with reset, conditional measurements, conditional byproducts) is interpreted by
  R-BR history by history (all histories when ≤ 256, otherwise sampled ones): on every history the final state must be
  U|0…0⟩ on the returned logical wires ⊗ |0…0⟩ on all auxiliary wires, up to a global phase.
* ``pauli.commute``  – exhaustive: for every supported Clifford (H, S, CNOT) and every Pauli frame, the matrices satisfy
  C·P·C† ∝ P′ with P′ = ``commute_clifford_op``; ``pauli_prod`` against matrix products; ``pauli_to_xz``/``xz_to_pauli``.
* ``pauli.offline``  – ``get_byproduct_corrections``: the converted circuit *without* online byproducts (and without the
  physical Paulis, which the tracker absorbs) is followed along sampled histories; for every raw computational-basis
  outcome r of the logical wires, P_history(r) must equal P_source(corrected(r)).
* ``mcm.diagonalize`` – ``diagonalize_mcms`` on tapes with parametric MCMs in the XY / YZ / ZX planes (documented bases),
  X/Y measurements, conditional measurements: same history probabilities and same states of the unmeasured wires.
"""
from __future__ import annotations

import itertools
import math

import numpy as np

from pv.ctx import fingerprint

META = {
    "id": "C74",
    "level": "translation_validation",
    "technique": "per-history interpretation of the converted MBQC program by an independent branch interpreter (R-BR) against the "
                 "source unitary (R-SV); exhaustive matrix check of the Pauli-tracker commutation rules",
    "level_text": "Each generated circuit is converted by the real transforms and the produced program is executed by a numpy-only "
                  "interpreter that knows only the documented measurement bases and graph-state definition; every explored "
                  "measurement history must reproduce the source circuit. Clifford × Pauli-frame rules are enumerated completely.",
    "level_note": "Histories are enumerated completely only for ≤ 8 measurements and sampled otherwise (CNOT: 13 measurements). "
                  "default.qubit is not used as a second opinion (it cannot execute parametric MCMs without diagonalisation). "
                  "Trusts R-GATES/R-SV/R-BR and the documented definitions of RotXZX, GraphStatePrep and the measurement planes.",
    "design_ref": "7/C74",
    "shards": {"quick": 3, "thorough": 16},
    "budget_s": {"quick": 60, "thorough": 480},
    "min_evals": {"quick": 1500, "thorough": 20000},
    "deciding": ["mbqc.gateset", "mbqc.formalism", "pauli.commute", "pauli.offline", "mcm.diagonalize"],
    "rule": "random circuits over {H, S, RZ, RotXZX, CNOT, X, Y, Z, I, GlobalPhase} on 1–2 (thorough: 3) logical wires with a generic "
            "first layer; distinct = fingerprint of (circuit, diagonalize flag); non-trivial = ≥ 1 measured gate and every explored "
            "history has non-zero probability",
    "assumptions": ["R-BR measurement semantics (projective, reset to |0>) is what 'measure_x/measure_y/measure_arbitrary_basis "
                    "with reset=True' documents"],
}

MBQC_SET = {"CNOT", "Hadamard", "S", "RotXZX", "RZ", "PauliX", "PauliY", "PauliZ", "Identity", "GlobalPhase"}


# ------------------------------------------------------------------------------------------------ helpers
def source_state(ops, wires):
    """U|0…0> of the source circuit with the reference gate table (RotXZX from its documented definition)."""
    from pv.ref import c21_branch as br
    from pv.ref import sv

    prog = br.program_from_ops(ops, fallback=False)
    gates = [(g[1], g[2]) for g in prog]
    return sv.run(gates, wires)


def source_unitary(ops, wires, fallback=False):
    from pv.ref import c21_branch as br
    from pv.ref import sv

    prog = br.program_from_ops(ops, fallback=fallback)
    return sv.unitary([(g[1], g[2]) for g in prog], wires)


def gen_mbqc_circuit(qp, rng, n_wires, n_gates, max_cnot, clifford_only=False):
    from pennylane.ftqc import RotXZX

    ops = []
    ang = lambda: float(rng.uniform(-math.pi, math.pi))  # noqa: E731
    for w in range(n_wires):  # generic first layer
        if rng.random() < 0.75:
            ops.append(RotXZX(ang(), ang(), ang(), wires=w))
        else:
            ops += [qp.H(w), qp.RZ(ang(), wires=w), qp.H(w)]
    ncnot = 0
    pool = ["H", "S", "RZ", "RotXZX", "CNOT", "X", "Y", "Z", "I", "GP"]
    if clifford_only:
        pool = ["H", "S", "CNOT", "X", "Y", "Z", "I"]
    for _ in range(n_gates):
        g = pool[int(rng.integers(len(pool)))]
        w = int(rng.integers(n_wires))
        if g == "CNOT":
            if n_wires < 2 or ncnot >= max_cnot:
                g = "H"
            else:
                a, b = [int(x) for x in rng.choice(n_wires, size=2, replace=False)]
                ops.append(qp.CNOT([a, b]))
                ncnot += 1
                continue
        if g == "H":
            ops.append(qp.H(w))
        elif g == "S":
            ops.append(qp.S(w))
        elif g == "RZ":
            ops.append(qp.RZ([ang(), 0.0, math.pi / 2, -math.pi][int(rng.integers(4))] if rng.random() < 0.3 else ang(), wires=w))
        elif g == "RotXZX":
            ops.append(RotXZX(ang(), ang(), ang(), wires=w))
        elif g == "X":
            ops.append(qp.X(w))
        elif g == "Y":
            ops.append(qp.Y(w))
        elif g == "Z":
            ops.append(qp.Z(w))
        elif g == "I":
            ops.append(qp.Identity(w))
        elif g == "GP":
            ops.append(qp.GlobalPhase(ang()))
    return ops


def n_measured(ops):
    return sum(13 if type(o).__name__ == "CNOT" else 4 for o in ops if type(o).__name__ in ("CNOT", "Hadamard", "S", "RZ", "RotXZX"))


def expected_full(state_logical, logical_order, out_wires, wire_order):
    """|ψ> on out_wires (ψ given on logical_order, logical wire i ↦ out_wires[i]) ⊗ |0> elsewhere, as a flat vector."""
    n = len(wire_order)
    T = np.zeros([2] * n, dtype=complex)
    k = len(out_wires)
    psi = np.asarray(state_logical).reshape([2] * k)
    idx = [0] * n
    for bits in itertools.product((0, 1), repeat=k):
        for b, w in zip(bits, out_wires):
            idx[wire_order.index(w)] = b
        T[tuple(idx)] = psi[bits]
    return T.reshape(-1)


def histories(ctx, prog, wire_order, n_meas, rng, n_samples):
    """All histories when few, else sampled ones (Born sampling + a few adversarial all-0 / all-1 / alternating strings)."""
    from pv.ref import c21_branch as br

    if n_meas <= 8:
        R = br.enumerate_branches(prog, wire_order)
        return R.branches, True
    out = []
    for pat in ("zeros", "ones", "alt"):
        ch = {"zeros": (lambda k, p0, p1: 0 if p0 > 1e-12 else 1), "ones": (lambda k, p0, p1: 1 if p1 > 1e-12 else 0)}.get(pat)
        if ch is None:
            cnt = [0]

            def ch(k, p0, p1, cnt=cnt):
                cnt[0] += 1
                b = cnt[0] % 2
                return b if (p1 if b else p0) > 1e-12 else 1 - b
        out.append(br.follow(prog, wire_order, ch))
    for _ in range(n_samples):
        out.append(br.follow(prog, wire_order, rng))
    return out, False


# ------------------------------------------------------------------------------------------------ monitors
def check_gateset(ctx, qp, rng, i):
    from pennylane.ftqc import convert_to_mbqc_gateset

    from pv.gen import circ
    from pv.ref import bridge, sv

    nw = int(rng.integers(1, 4))
    wires = list(range(nw))
    pool = ["PauliX", "PauliY", "PauliZ", "Hadamard", "S", "T", "SX", "RX", "RY", "RZ", "PhaseShift", "Rot", "U2", "U3", "CNOT", "CZ", "CY",
            "SWAP", "CRX", "CRY", "CRZ", "IsingXX", "IsingZZ", "ISWAP", "Toffoli", "CSWAP", "ControlledPhaseShift"]
    ops = circ.random_ops(qp, rng, wires, int(rng.integers(1, 7)), pool=pool, patterns=0.2)
    tape = qp.tape.QuantumScript(ops, [qp.sample(wires=wires)], shots=10)
    fp = fingerprint("gateset", circ.tape_struct(tape))
    ctx.count("programs")
    qp.decomposition.enable_graph()
    try:
        (out,), _ = convert_to_mbqc_gateset(tape)
    except Exception as e:  # noqa: BLE001
        ctx.ev("mbqc.gateset")
        ctx.case(fp, nontrivial=False, cls="gateset")
        ctx.violation("mbqc.gateset", f"convert_to_mbqc_gateset raised {type(e).__name__}: {e}", case=circ.describe(tape), mech=f"gateset-raise:{type(e).__name__}")
        return
    finally:
        qp.decomposition.disable_graph()
    changed = [type(o).__name__ for o in out.operations] != [type(o).__name__ for o in ops]
    ctx.case(fp, nontrivial=changed, cls="gateset", sample={"source": [repr(o) for o in ops][:8], "out_len": len(out.operations)})
    ctx.ev("mbqc.gateset")
    bad = sorted({type(o).__name__ for o in out.operations} - MBQC_SET)
    if bad:
        ctx.violation("mbqc.gateset", f"output contains gates outside the MBQC gate set: {bad}", case=circ.describe(tape), mech="gateset-leak:" + "+".join(bad))
        return
    U0, _ = bridge.tape_unitary(ops, wires)
    U1 = source_unitary(out.operations, wires)
    d = sv.phase_dist(U1, U0)
    if d > 1e-8 * max(1, 2**nw):
        ctx.violation("mbqc.gateset", f"unitary changed by the gate-set conversion: phase-distance {d:.3g}", case={**circ.describe(tape), "out": [repr(o) for o in out.operations][:30]},
                      mech="gateset-unitary")
        return
    if sv.dist(U1, U0) > 1e-8 * 2**nw:
        ctx.count("gateset_global_phase_differs")


def check_formalism(ctx, qp, rng, i, thorough):
    from pennylane.ftqc import convert_to_mbqc_formalism

    from pv.ref import c21_branch as br
    from pv.ref import sv

    nw = int(rng.integers(1, 4 if thorough else 3))
    max_cnot = (2 if thorough else 1) if nw > 1 else 0
    if rng.random() < 0.15 and nw > 1 and not ctx.quick:
        max_cnot = 3
    ops = gen_mbqc_circuit(qp, rng, nw, int(rng.integers(1, 6)), max_cnot)
    diag = bool(rng.random() < 0.4)
    wires = list(range(nw))
    meas_order = [int(x) for x in rng.permutation(nw)] if rng.random() < 0.5 else wires
    tape = qp.tape.QuantumScript(ops, [qp.sample(wires=meas_order)], shots=10)
    fp = fingerprint("formalism", [repr(o) for o in ops], diag, meas_order)
    ctx.count("programs")
    desc = {"ops": [repr(o) for o in ops], "diagonalize_mcms": diag, "sample_wires": meas_order}
    try:
        (out,), _ = convert_to_mbqc_formalism(tape, diagonalize_mcms=diag)
    except Exception as e:  # noqa: BLE001
        ctx.ev("mbqc.formalism")
        ctx.case(fp, nontrivial=False, cls="formalism")
        ctx.violation("mbqc.formalism", f"convert_to_mbqc_formalism raised {type(e).__name__}: {e}", case=desc, mech=f"formalism-raise:{type(e).__name__}")
        return
    nm = n_measured(ops)
    out_wires = list(out.measurements[0].wires)
    wo = list(out.wires)
    for w in out_wires:
        if w not in wo:
            wo.append(w)
    if len(wo) > 17:
        ctx.inconclusive_case(f"formalism: {len(wo)} wires")
        return
    prog = br.program_from_ops(out.operations, fallback=False)
    keys = br.measurement_keys(out.operations)
    psi = source_state(ops, wires)
    # logical wire meas_order[j] ↦ out_wires[j]
    psi_perm = np.transpose(np.asarray(psi).reshape([2] * nw), [wires.index(w) for w in meas_order]).reshape(-1)
    target = expected_full(psi_perm, meas_order, out_wires, wo)
    hs, complete = histories(ctx, prog, wo, nm, rng, n_samples=(10 if ctx.quick else 24))
    ctx.case(fp, nontrivial=nm > 0 and all(h.p > 0 for h in hs), cls=f"formalism/{'diag' if diag else 'parametric'}/w{nw}/m{nm}",
             sample={**desc, "measurements": nm, "histories": len(hs), "complete": complete, "wires": len(wo)})
    if len(keys) < nm:
        ctx.ev("mbqc.formalism")
        ctx.violation("mbqc.formalism", f"{len(keys)} measurement operators for {nm} expected measurements", case=desc, mech="formalism-measurement-count")
        return
    for h in hs:
        ctx.ev("mbqc.formalism")
        if h.state is None:
            continue
        d = sv.phase_dist(h.state.reshape(-1), target)
        if d > 1e-8:
            gate_kinds = sorted({type(o).__name__ for o in ops})
            ctx.violation("mbqc.formalism", f"history {''.join(map(str, h.bits()))}: final state differs from U|0> on the logical wires (phase-distance {d:.3g})",
                          case={**desc, "history": list(h.bits()), "p": h.p}, mech="formalism-state:" + ("diag" if diag else "parametric"),
                          observed=h.p, expected=gate_kinds)
            return
        # uniformity of outcomes is a by-product (not part of the statement): recorded only
        if abs(h.p - 2.0 ** (-len(h.order))) > 1e-9:
            ctx.count("history_probability_not_uniform")


def pauli_from_xz(x, z):
    from pv.ref import gates as G

    return np.linalg.matrix_power(G.X, int(x)) @ np.linalg.matrix_power(G.Z, int(z))


def proportional(A, B, tol=1e-9):
    t = np.vdot(B.reshape(-1), A.reshape(-1))
    if abs(t) < 1e-12:
        return False
    return np.linalg.norm(A - (t / abs(t)) * B * (np.linalg.norm(A) / np.linalg.norm(B))) < tol


def check_tracker_exhaustive(ctx, qp):
    from pennylane.ftqc import pauli_tracker as pt

    from pv.ref import gates as G

    cliff = {"H": (qp.H(0), G.H), "S": (qp.S(0), np.diag([1, 1j]).astype(complex)), "CNOT": (qp.CNOT([0, 1]), G.controlled(G.X, 1)),
             "H@5": (qp.H(5), G.H), "S@a": (qp.S("a"), np.diag([1, 1j]).astype(complex)), "CNOT@[3,1]": (qp.CNOT([3, 1]), G.controlled(G.X, 1))}
    for name, (op, C) in cliff.items():
        k = len(op.wires)
        for frame in itertools.product([(0, 0), (1, 0), (0, 1), (1, 1)], repeat=k):
            ctx.ev("pauli.commute")
            ctx.case(fingerprint("commute", name, frame), nontrivial=any(f != (0, 0) for f in frame), cls=f"commute/{name.split('@')[0]}")
            try:
                new = pt.commute_clifford_op(op, [tuple(f) for f in frame])
            except Exception as e:  # noqa: BLE001
                ctx.violation("pauli.commute", f"commute_clifford_op({name}, {frame}) raised {type(e).__name__}: {e}", mech=f"commute-raise:{name.split('@')[0]}")
                continue
            P = G.kron(*[pauli_from_xz(*f) for f in frame])
            Pn = G.kron(*[pauli_from_xz(int(a), int(b)) for a, b in new])
            if len(new) != k or not proportional(C @ P @ C.conj().T, Pn):
                ctx.violation("pauli.commute", f"{name}: C·P·C† for frame {frame} is not ∝ the returned {new}", case={"clifford": name, "frame": frame, "returned": [list(map(int, t)) for t in new]},
                              mech=f"commute-rule:{name.split('@')[0]}")
    # xz <-> pauli round trips and products
    paulis = {"I": qp.I, "X": qp.X, "Y": qp.Y, "Z": qp.Z}
    for nm_, cls in paulis.items():
        ctx.ev("pauli.commute")
        x, z = pt.pauli_to_xz(cls(0))
        back = pt.xz_to_pauli(x, z)
        if back is not cls or pt.pauli_to_xz(cls) != (x, z) or not proportional(pauli_from_xz(x, z), G.PAULI[nm_]):
            ctx.violation("pauli.commute", f"pauli_to_xz/xz_to_pauli inconsistent for {nm_}: {(x, z)} -> {back}", mech="xz-encoding")
    for L in (1, 2, 3):
        for word in itertools.product("IXYZ", repeat=L):
            ctx.ev("pauli.commute")
            ctx.case(fingerprint("prod", word), nontrivial=L > 1, cls="pauli_prod")
            x, z = pt.pauli_prod([paulis[c](0) for c in word])
            M = np.eye(2, dtype=complex)
            for c in word:
                M = M @ G.PAULI[c]
            if not proportional(M, pauli_from_xz(int(x), int(z))):
                ctx.violation("pauli.commute", f"pauli_prod({''.join(word)}) = {(int(x), int(z))} but the matrix product is not ∝ X^x Z^z", mech="pauli-prod")
    # documented rejections
    for bad in ([(0, 0)], [(0, 2), (0, 0)]):
        try:
            pt.commute_clifford_op(qp.CNOT([0, 1]), bad)
            ctx.violation("pauli.commute", f"commute_clifford_op accepted the invalid frame {bad}", mech="commute-accepts-invalid")
        except ValueError:
            ctx.reject("invalid-frame")
    try:
        pt.commute_clifford_op(qp.T(0), [(0, 1)])
        ctx.violation("pauli.commute", "commute_clifford_op accepted a non-Clifford gate", mech="commute-accepts-invalid")
    except NotImplementedError:
        ctx.reject("unsupported-gate")


def logical_measurements(out_ops):
    """Group the measurement operators of a converted tape into logical measurements (an unconditional MCM, or the pair of
    Conditional(MCM)s made by cond_measure), in queue order."""
    groups, i = [], 0
    names = ("MidMeasure", "ParametricMidMeasure", "XMidMeasure", "YMidMeasure")
    while i < len(out_ops):
        op = out_ops[i]
        t = type(op).__name__
        if t in names:
            groups.append([op])
        elif t == "Conditional" and type(op.base).__name__ in names:
            groups.append([op.base, out_ops[i + 1].base])
            i += 1
        i += 1
    return groups


def check_offline(ctx, qp, rng, i):
    from pennylane.ftqc import convert_to_mbqc_formalism, get_byproduct_corrections

    from pv.ref import c21_branch as br
    from pv.ref import sv

    nw = int(rng.integers(1, 3))
    from pennylane.ftqc import RotXZX

    ops = []
    ang = lambda: float(rng.uniform(-math.pi, math.pi))  # noqa: E731
    for w in range(nw):  # at most one non-Clifford gate per wire, first on the wire (documented restriction)
        r = rng.random()
        if r < 0.6:
            ops.append(RotXZX(ang(), ang(), ang(), wires=w))
        elif r < 0.85:
            ops.append(qp.RZ(ang(), wires=w))
    ncnot = 0
    for _ in range(int(rng.integers(1, 6))):
        g = ["H", "S", "CNOT", "X", "Y", "Z", "I", "H", "S"][int(rng.integers(9))]
        w = int(rng.integers(nw))
        if g == "CNOT":
            if nw < 2 or ncnot >= 1:
                g = "H"
            else:
                a, b = [int(x) for x in rng.permutation(2)]
                ops.append(qp.CNOT([a, b]))
                ncnot += 1
                continue
        ops.append({"H": qp.H, "S": qp.S, "X": qp.X, "Y": qp.Y, "Z": qp.Z, "I": qp.I}[g](w))
    wires = list(range(nw))
    tape = qp.tape.QuantumScript(ops, [qp.sample(wires=wires)], shots=1)
    fp = fingerprint("offline", [repr(o) for o in ops])
    desc = {"ops": [repr(o) for o in ops]}
    ctx.count("programs")
    (out,), _ = convert_to_mbqc_formalism(tape)
    # executed program: no online byproducts, no physical Paulis (the tracker absorbs both)
    kept = []
    for o in out.operations:
        t = type(o).__name__
        if t == "Conditional" and type(o.base).__name__ in ("PauliX", "PauliZ"):
            continue
        if t in ("PauliX", "PauliY", "PauliZ", "Identity"):
            continue
        kept.append(o)
    groups = logical_measurements(kept)
    nm = n_measured(ops)
    out_wires = list(out.measurements[0].wires)
    wo = list(out.wires)
    prog = br.program_from_ops(kept, fallback=False)
    p_src = sv.probs(source_state(ops, wires), wires)
    hs, complete = histories(ctx, prog, wo, nm, rng, n_samples=(6 if ctx.quick else 16))
    ctx.case(fp, nontrivial=nm > 0, cls=f"offline/w{nw}/m{nm}", sample={**desc, "histories": len(hs)})
    if len(groups) != nm:
        ctx.ev("pauli.offline")
        ctx.violation("pauli.offline", f"{len(groups)} logical measurements found for {nm} expected", case=desc, mech="offline-measurement-count")
        return
    for h in hs:
        if h.state is None:
            continue
        mid = [int(max(h.outcomes[k] for k in g)) for g in groups]
        p_raw = sv.probs(h.state, wo, out_wires)
        for r in range(2**nw):
            if p_raw[r] < 1e-12:
                continue
            bits = [(r >> (nw - 1 - j)) & 1 for j in range(nw)]
            ctx.ev("pauli.offline")
            try:
                corr = [int(b) for b in get_byproduct_corrections(tape, mid, bits)]
            except Exception as e:  # noqa: BLE001
                ctx.violation("pauli.offline", f"get_byproduct_corrections raised {type(e).__name__}: {e}", case={**desc, "mid": mid, "raw": bits}, mech=f"offline-raise:{type(e).__name__}")
                return
            # distribution of corrected samples on this history: sum over raw outcomes mapping to the same corrected one
            cidx = int("".join(map(str, corr)), 2)
            flip = cidx ^ r
            p_corr = np.array([p_raw[j ^ flip] for j in range(2**nw)])
            if np.linalg.norm(p_corr - p_src) > 1e-8:
                ctx.violation("pauli.offline", f"history {''.join(map(str, mid))}: corrected-sample distribution {np.round(p_corr, 6)} differs from the source's {np.round(p_src, 6)}",
                              case={**desc, "mid": mid, "raw": bits, "corrected": corr}, mech="offline-correction")
                return
            break  # the x-record does not depend on the raw sample: one raw outcome per history decides


def check_diagonalize(ctx, qp, rng, i):
    from pennylane.ftqc import cond_measure, diagonalize_mcms, measure_arbitrary_basis, measure_x, measure_y

    from pv.ref import c21_branch as br
    from pv.ref import sv

    nw = int(rng.integers(2, 4))
    wires = list(range(nw))
    ang = lambda: float(rng.uniform(-math.pi, math.pi))  # noqa: E731
    plan = []
    planes_used = []

    def qfunc():
        for w in wires:
            qp.Rot(*plan_rot[w], wires=w)
        qp.CNOT([0, 1])
        ms = []
        for kind, w, a, reset, ps in plan:
            if kind == "x":
                m = measure_x(w, reset=reset, postselect=ps)
            elif kind == "y":
                m = measure_y(w, reset=reset, postselect=ps)
            elif kind == "z":
                m = qp.measure(w, reset=reset, postselect=ps)
            elif kind == "cm":
                from functools import partial

                m = cond_measure(ms[-1], partial(measure_arbitrary_basis, angle=a), partial(measure_arbitrary_basis, angle=-a))(plane=kind_plane[w], wires=w, reset=reset)
            else:
                m = measure_arbitrary_basis(w, angle=a, plane=kind, reset=reset, postselect=ps)
            ms.append(m)
            tgt = (w + 1) % nw
            qp.cond(m, qp.RY)(0.7, wires=tgt)
            if reset:  # the state a non-reset parametric measurement leaves on its wire is not documented: wire not reused
                qp.RY(0.4, wires=w)
                qp.CNOT([w, tgt])

    plan_rot = {w: (ang(), ang(), ang()) for w in wires}
    kind_plane = {w: ["XY", "YZ", "ZX"][int(rng.integers(3))] for w in wires}
    nmeas = int(rng.integers(1, 3))
    for j in range(nmeas):
        kind = ["XY", "YZ", "ZX", "x", "y", "z", "cm"][int(rng.integers(7))]
        if kind == "cm" and j == 0:
            kind = "XY"
        w = int(rng.integers(nw))
        plan.append((kind, w, ang(), True if kind == "cm" else bool(rng.random() < 0.6), (None if kind == "cm" or rng.random() < 0.8 else int(rng.integers(2)))))
        planes_used.append(kind_plane[w] if kind == "cm" else kind)
    tape = qp.tape.make_qscript(qfunc)()
    (dt,), _ = diagonalize_mcms(tape)
    fp = fingerprint("diag", repr(plan), repr(plan_rot), repr(kind_plane))
    desc = {"plan": [list(p) for p in plan], "cond_planes": kind_plane}
    ctx.count("programs")
    ctx.case(fp, nontrivial=True, cls="diagonalize/" + "+".join(sorted(set(planes_used))), sample=desc)
    left = [type(o).__name__ for o in dt.operations if type(o).__name__ in ("ParametricMidMeasure", "XMidMeasure", "YMidMeasure")
            or (type(o).__name__ == "Conditional" and type(o.base).__name__ in ("ParametricMidMeasure", "XMidMeasure", "YMidMeasure"))]
    ctx.ev("mcm.diagonalize")
    if left:
        ctx.violation("mcm.diagonalize", f"diagonalized tape still contains {sorted(set(left))}", case=desc, mech="diagonalize-leaves-parametric")
        return
    Ra = br.enumerate_branches(br.program_from_ops(tape.operations), wires)
    Rb = br.enumerate_branches(br.program_from_ops(dt.operations), wires)
    A = {b.bits(): b for b in Ra.branches}
    B = {b.bits(): b for b in Rb.branches}

    def yz_flipped(op):
        """Classifier hypothesis: the YZ-plane basis with the opposite angle sign, cos(θ/2)|0> − i sin(θ/2)|1>."""
        if type(op).__name__ == "ParametricMidMeasure" and op.hyperparameters.get("plane") == "YZ":
            return br.plane_basis("YZ", -float(np.asarray(op.hyperparameters["angle"])))
        return None

    def classify(default):
        if "YZ" not in planes_used:
            return default
        Rc = br.enumerate_branches(br.program_from_ops(tape.operations, basis_override=yz_flipped), wires)
        Cb = {b.bits(): b for b in Rc.branches}
        same = set(Cb) == set(B) and all(abs(Cb[k].p - B[k].p) < 1e-9 for k in B)
        return "diagonalize-mcms-YZ-plane-angle-sign" if same else default
    measured = {p[1] for p in plan}
    keep = [w for w in wires if w not in measured] or None
    for bits in sorted(set(A) | set(B)):
        ctx.ev("mcm.diagonalize")
        pa = A[bits].p if bits in A else 0.0
        pb = B[bits].p if bits in B else 0.0
        tagp = "+".join(sorted(set(planes_used)))
        if abs(pa - pb) > 1e-9:
            ctx.violation("mcm.diagonalize", f"history {bits}: probability {pb:.6f} after diagonalize_mcms vs {pa:.6f} with the documented measurement bases",
                          case=desc, mech=classify("diagonalize-basis:" + tagp), observed=pb, expected=pa)
            return
        if keep and bits in A and bits in B:
            ra = sv.reduced_dm(sv.density(A[bits].state.reshape(-1)), wires, keep)
            rb = sv.reduced_dm(sv.density(B[bits].state.reshape(-1)), wires, keep)
            if np.linalg.norm(ra - rb) > 1e-8:
                ctx.violation("mcm.diagonalize", f"history {bits}: state of the unmeasured wires differs after diagonalize_mcms (‖Δρ‖={np.linalg.norm(ra - rb):.3g})",
                              case=desc, mech=classify("diagonalize-state:" + tagp))
                return


def run(ctx):
    import warnings

    import pennylane as qp

    warnings.filterwarnings("ignore")
    thorough = not ctx.quick
    if ctx.shard == 0 or thorough:
        check_tracker_exhaustive(ctx, qp)
    base = ctx.shard * 1_000_000
    plan = [("gateset", ctx.n(240, 3200), check_gateset), ("diag", ctx.n(240, 3200), check_diagonalize),
            ("offline", ctx.n(120, 1600), check_offline), ("formalism", ctx.n(150, 800), None)]
    for name, n, fn in plan:
        for i in range(n):
            if not ctx.more():
                break
            ctx.case_index = base + {"gateset": 0, "diag": 100_000, "offline": 200_000, "formalism": 300_000}[name] + i
            rng = np.random.default_rng([ctx.seed, 74, ctx.shard, {"gateset": 1, "diag": 2, "offline": 3, "formalism": 4}[name], i])
            with ctx.guard(name):
                if fn is None:
                    check_formalism(ctx, qp, rng, i, thorough)
                else:
                    fn(ctx, qp, rng, i)
