"""C55 — Lie-algebra tools compute closed algebras and correct structure constants.

Deciding monitors (post-conditions on the real ``qp.liealg`` functions, evaluated with dense numpy linear algebra on the
matrices of the returned objects; nothing of PennyLane's Pauli/linear-algebra code is used by the oracle):

* ``closure.independent``  real-linear rank of the returned basis == its length (SVD with a gap check)
* ``closure.spans``        every generator lies in the span of the returned basis
* ``closure.closed``       i[B_a, B_b] lies in the span for ALL pairs
* ``closure.minimal``      span equals an independently computed dense Lie closure (same dimension, contained in it)
* ``sc.commutators``       [B_a, B_b] = -i Σ_c f[c,a,b] B_c  (the documented convention [iG_a, iG_b] = Σ f^c_ab iG_c), for the
                           operator / pauli=True / matrix=True paths and is_orthogonal both ways where admissible; plus
                           antisymmetry and the Jacobi identity (ad is a representation) on the returned tensor
* ``vspace.rank``          PauliVSpace: len(basis) == exact rank, ``is_independent`` == (rank grows), ``add`` keeps a basis
* ``invol.parity``         every involution of qp.liealg (even_odd, concurrence, A, AI, AII, AIII, BD, BDI, DIII, C, CI, CII) returns,
                           for operators in an eigenspace, exactly the ±1-eigenspace membership given by its documented formula
                           (θ(x) evaluated densely on x = iG), in PauliSentence / Operator / matrix form; and is multiplicative
                           under commutators (automorphism): parity([a,b]) = parity(a)·parity(b)
* ``cartan.relations``     cartan_decomp: k ∪ m is a partition of g, [k,k] ⊆ k, [k,m] ⊆ m, [m,m] ⊆ k (dense), and
                           check_cartan_decomp agrees
* ``csa.maxabelian``       horizontal_cartan_subalgebra: a ⊆ span(m), abelian, maximal abelian in m (centraliser of a in m has
                           dimension dim a), newg = k ⊕ m̃ ⊕ a spans g, and new_adj are the structure constants of newg
* ``center.commutes``      center(g): elements lie in g, commute with all of g, and their number equals the dense centre dimension
"""
import numpy as np

from pv.ctx import fingerprint

META = {
    "id": "C55",
    "level": "exploration",
    "technique": "post-condition monitors with dense linear algebra (ranks with gap check, least-squares span membership, commutator "
                 "reconstruction from structure constants, reference Lie closure, documented involution formulas)",
    "level_text": "Known algebras (Ising, Heisenberg, XY chains) and random Pauli-word / Pauli-sentence generator sets on up to 4 qubits are "
                  "fed to lie_closure / structure_constants / center / cartan_decomp / horizontal_cartan_subalgebra / PauliVSpace in "
                  "operator, Pauli-sentence and matrix form; every returned object is validated against the defining algebraic "
                  "relations with independent dense numpy computations. Held on the inputs observed.",
    "level_note": "Trusts numpy (SVD, lstsq, QR). Hermitian generators with real coefficients only (documented domain). Random generator "
                  "sets are limited to 3 qubits (dim <= 63), structured ones reach 4 qubits; matrix=True is used with wires 0..n-1 only "
                  "(the code asserts that). Involutions with p != q are exercised on dense inputs only.",
    "shards": {"quick": 3, "thorough": 16},
    "budget_s": {"quick": 100, "thorough": 480},
    "min_evals": {"quick": 400, "thorough": 8000},
    "deciding": ["closure.independent", "closure.spans", "closure.closed", "closure.minimal", "sc.commutators", "vspace.rank",
                 "invol.parity", "cartan.relations", "csa.maxabelian", "center.commutes"],
    "rule": "case = (generator set, input form) or (vector-space history) or (operator, involution, form); distinct = distinct content; "
            "non-trivial = closure strictly larger than the generator span / dependent candidate present / operator with >= 2 qubits",
    "assumptions": ["dense reference closure and involution formulas transcribe the definitions"],
    "max_inconclusive_frac": 0.25,
}

RES = 1e-8


# ------------------------------------------------------------------------------------------ generators of generator sets
def _w(**kw):
    return {int(k[1:]): v for k, v in kw.items()}


def gen_algebra(r, quick):
    """returns (name, n, gens) with gens = list of sentences, sentence = list of (word dict, real coeff)."""
    kind = ["tfim", "heis_sum", "heis_words", "xy", "words", "words", "sentences", "sentences", "single_qubit_mix"][int(r.integers(0, 9))]
    if kind == "tfim":
        n = int(r.integers(2, 5))
        per = bool(r.random() < 0.3) and n > 2
        gens = [[({i: "X", (i + 1) % n: "X"}, 1.0)] for i in range(n if per else n - 1)] + [[({i: "Z"}, 1.0)] for i in range(n)]
        if r.random() < 0.3:  # summed form (translation-invariant generators)
            gens = [[t for g in gens[: (n if per else n - 1)] for t in g], [t for g in gens[(n if per else n - 1):] for t in g]]
            kind = "tfim_sum"
    elif kind == "heis_sum":
        n = int(r.integers(2, 5 if not quick else 4))
        gens = [[({i: P, i + 1: P}, 1.0) for P in "XYZ"] for i in range(n - 1)]
    elif kind == "heis_words":
        n = int(r.integers(2, 4))
        gens = [[({i: P, i + 1: P}, 1.0)] for i in range(n - 1) for P in "XYZ"]
    elif kind == "xy":
        n = int(r.integers(2, 5 if not quick else 4))
        gens = [[({i: "X", i + 1: "X"}, 1.0), ({i: "Y", i + 1: "Y"}, 1.0)] for i in range(n - 1)]
        if r.random() < 0.6:
            gens += [[({i: "Z"}, float(np.round(r.uniform(0.3, 2), 3)))] for i in range(n) if r.random() < 0.7]
    elif kind == "words":
        n = int(r.integers(1, 4))
        k = int(r.integers(1, 6))
        gens = [[(rand_word(r, n), 1.0)] for _ in range(k)]
    elif kind == "sentences":
        n = int(r.integers(1, 4))
        k = int(r.integers(1, 5))
        nice = r.random() < 0.6
        gens = []
        for _ in range(k):
            ws = {}
            for _ in range(int(r.integers(1, 4))):
                w = rand_word(r, n)
                ws[tuple(sorted(w.items()))] = (float(r.choice([1.0, -1.0, 0.5, 2.0, -0.5])) if nice else float(np.round(r.uniform(-2, 2), 4)) or 1.0)
            gens.append([(dict(k_), c) for k_, c in ws.items()])
    else:
        n = int(r.integers(2, 4))
        gens = [[({int(r.integers(0, n)): "XYZ"[int(r.integers(0, 3))]}, 1.0)] for _ in range(int(r.integers(2, 5)))]
        gens.append([(rand_word(r, n), 1.0)])
    # hostile extras: duplicates, scaled copies, linear combinations of generators
    if r.random() < 0.35 and gens:
        g = gens[int(r.integers(0, len(gens)))]
        gens = gens + [[(w, 2.0 * c) for w, c in g]]
    if r.random() < 0.2 and len(gens) >= 2:
        a, b = gens[0], gens[1]
        comb = {}
        for w, c in a:
            comb[tuple(sorted(w.items()))] = comb.get(tuple(sorted(w.items())), 0.0) + c
        for w, c in b:
            comb[tuple(sorted(w.items()))] = comb.get(tuple(sorted(w.items())), 0.0) - 0.5 * c
        comb = [(dict(k_), c) for k_, c in comb.items() if c != 0.0]
        if comb:
            gens = gens + [comb]
    if r.random() < 0.3:
        gens = [gens[int(i)] for i in r.permutation(len(gens))]
    return kind, n, gens


def rand_word(r, n):
    while True:
        w = {i: "XYZ"[int(r.integers(0, 3))] for i in range(n) if r.random() < 0.65}
        if w:
            return w


def gens_json(gens):
    return [" + ".join(f"{c}*" + "".join(f"{l}{w}" for w, l in sorted(word.items())) for word, c in g) for g in gens]


class Proj:
    """Orthogonal projector onto the real span of a list of matrices, with a residual tolerance that accounts for the conditioning
    of the given (column-normalised) basis: directions are only defined up to ~eps / sigma_min."""

    def __init__(self, L, mats, loose=1.0):
        A = L.colmat(mats)
        self.tol = RES * loose
        if A.size:
            U, s, _ = np.linalg.svd(A, full_matrices=False)   # rank revealing: the list may be linearly dependent
            keep = s > 1e-9 * s[0] if s[0] > 0 else np.zeros(len(s), dtype=bool)
            self.Q = U[:, keep]
            smin = (s[keep][-1] / s[0]) if keep.any() else 1.0
            self.tol = max(RES * loose, 1e-12 / max(smin, 1e-12))
        else:
            self.Q = np.zeros((0, 0))

    def resid(self, L, X):
        x = L.rvec(X)
        nx = np.linalg.norm(x)
        if nx == 0:
            return 0.0
        if self.Q.size == 0:
            return 1.0
        return float(np.linalg.norm(x - self.Q @ (self.Q.T @ x)) / nx)

    def outside(self, L, X):
        return self.resid(L, X) > self.tol


def negligible(C, A, B):
    """commutator that is rounding noise relative to its factors (exactly commuting elements)."""
    return float(np.linalg.norm(C)) <= 1e-7 * float(np.linalg.norm(A)) * float(np.linalg.norm(B))


def run(ctx):
    import functools
    import warnings

    import pennylane as qp
    from pennylane.pauli import PauliSentence, PauliVSpace, PauliWord

    from pv.ref import c55_lie as L

    warnings.filterwarnings("ignore")
    from pv.ref.c53_limit import limit_repeats
    limit_repeats(ctx)
    la = qp.liealg

    def mk_ps(sent, relabel=None):
        return PauliSentence({PauliWord({(relabel[w] if relabel else w): l for w, l in word.items()}): c for word, c in sent})

    def dense_of(obj, order):
        """dense matrix of a returned object (PauliSentence / PauliWord / Operator / ndarray) from its data."""
        if isinstance(obj, np.ndarray):
            return np.asarray(obj, dtype=complex)
        if isinstance(obj, PauliWord):
            return L.pauli_sentence_dense_fast([(dict(obj), 1.0)], order)
        if isinstance(obj, PauliSentence):
            return L.pauli_sentence_dense_fast([(dict(pw), c) for pw, c in obj.items()], order)
        rep = getattr(obj, "pauli_rep", None)
        if rep is not None:
            return L.pauli_sentence_dense_fast([(dict(pw), c) for pw, c in rep.items()], order)
        return np.asarray(qp.matrix(obj, wire_order=order))

    def herm(M):
        return np.max(np.abs(M - M.conj().T)) < 1e-9 * max(1.0, np.max(np.abs(M)))

    # =========================================================================================== algebra cases
    def do_algebra(ci):
        gi = ci * ctx.nshards + ctx.shard
        ctx.case_index = gi
        r = ctx.case_rng(gi)
        kind, n, gens = gen_algebra(r, ctx.quick)
        used = sorted({w for g in gens for word, _ in g for w in word})
        form = ["op", "pauli", "matrix", "matrix_dense"][int(r.integers(0, 4))]
        if form.startswith("matrix") and used != list(range(n)):
            form = "pauli"
        relabel = None
        if form in ("op", "pauli") and r.random() < 0.25:
            labs = ["a", "b", 7, "q3", 11, "z"]
            perm = r.permutation(len(labs))
            relabel = {i: labs[int(perm[i])] for i in range(n)}
        order = [relabel[i] for i in range(n)] if relabel else list(range(n))
        info = {"kind": kind, "n": n, "gens": gens_json(gens), "form": form, "relabel": relabel}
        gd = [L.sentence_dense(g, n) for g in gens]  # dense generators in canonical wire order 0..n-1
        try:
            ref = L.ref_closure(gd)
            gen_rank = L.rank(gd)
        except L.Ambiguous as e:
            ctx.inconclusive_case(f"reference: {e}")
            return
        d_ref = len(ref)
        ctx.case(fingerprint("alg", info["gens"], form), nontrivial=d_ref > gen_rank, cls=f"{kind}:{form}",
                 sample={**info, "dim": d_ref})
        # ---- call lie_closure
        try:
            if form == "op":
                inp = [mk_ps(g, relabel).operation() for g in gens]
                out = qp.lie_closure(inp)
            elif form == "pauli":
                inp = [mk_ps(g, relabel) for g in gens]
                if r.random() < 0.3 and all(len(g) == 1 and g[0][1] == 1.0 for g in gens):
                    inp = [next(iter(p.keys())) for p in inp]  # PauliWord inputs
                out = qp.lie_closure(inp, pauli=True)
            elif form == "matrix":
                inp = [mk_ps(g).operation() for g in gens]
                out = qp.lie_closure(inp, matrix=True)
            else:
                inp = [np.array(m) for m in gd]
                out = qp.lie_closure(inp, matrix=True)
        except Exception as e:  # noqa: BLE001
            spurious = form.startswith("matrix") and "not (skew-)Hermitian" in str(e)
            ctx.violation("closure.closed", f"lie_closure raised {type(e).__name__}: {str(e)[:200]}", case=info,
                          mech="lie_closure:matrix:noise-accepted-as-basis-element" if spurious else f"raise:lie_closure:{form}")
            return
        try:
            B = [dense_of(o, order) for o in out]
        except Exception as e:  # noqa: BLE001
            ctx.violation("closure.closed", f"cannot read lie_closure output: {type(e).__name__}: {e}", case=info, mech=f"output:lie_closure:{form}")
            return
        d = len(B)
        if not all(herm(b) for b in B):
            ctx.violation("closure.independent", "lie_closure returned a non-Hermitian basis element", case=info, mech=f"nonhermitian:{form}")
            return
        try:
            ctx.ev("closure.independent")
            rk = L.rank(B)
            if rk != d:
                ctx.violation("closure.independent", f"lie_closure returned {d} elements of rank {rk}", case=info, mech=f"dependent:{form}")
                return
        except L.Ambiguous as e:
            ctx.inconclusive_case(f"closure rank ambiguous: {e}")
            return
        loose = 100.0 if form.startswith("matrix") else 1.0   # matrix mode is iterative numerics (Gram-Schmidt): stated bound 1e-6
        PB = Proj(L, B, loose)
        ctx.ev("closure.spans")
        for gidx, g in enumerate(gd):
            if PB.outside(L, g):
                ctx.violation("closure.spans", f"generator {gidx} is not in the span of the closure (residual {PB.resid(L, g):.2e})", case=info,
                              mech=f"span:{form}")
                return
        ctx.ev("closure.closed")
        for a in range(d):
            for b in range(a + 1, d):
                C = L.hcomm(B[a], B[b])
                if not negligible(C, B[a], B[b]) and PB.outside(L, C):
                    ctx.violation("closure.closed", f"[B{a}, B{b}] is not in the span of the closure (dim {d}, reference dim {d_ref})", case=info,
                                  mech=f"not-closed:{form}")
                    return
        ctx.ev("closure.minimal")
        PR = Proj(L, ref, loose)
        if d != d_ref or any(PR.outside(L, b) for b in B):
            ctx.violation("closure.minimal", f"closure has dimension {d}, the Lie algebra generated has dimension {d_ref}", case=info,
                          mech=f"dim:{form}")
            return
        if d > (40 if ctx.quick else 70):
            return
        # ---- structure constants
        Bs = np.stack(B)
        G = np.real(np.einsum("aij,bji->ab", Bs, Bs))
        offd = G - np.diag(np.diag(G))
        orth = bool(np.max(np.abs(offd)) < 1e-10 * np.max(np.abs(np.diag(G)))) if d > 1 else True
        condG = float(np.linalg.cond(G)) if d > 0 else 1.0
        if not orth and condG > 1e6:
            ctx.count("sc.skipped_illconditioned_basis")
            return
        sctol = 1e-8 if orth else 1e-11 * max(1e3, condG)
        for is_orth in ([True, False] if orth else [False]):
            if is_orth is False and orth and r.random() < 0.5:
                continue
            try:
                if form == "op":
                    f = qp.structure_constants(list(out), is_orthogonal=is_orth)
                elif form == "pauli":
                    f = qp.structure_constants(list(out), pauli=True, is_orthogonal=is_orth)
                else:
                    f = qp.structure_constants(out, matrix=True, is_orthogonal=is_orth)
                f = np.asarray(f)
            except Exception as e:  # noqa: BLE001
                ctx.violation("sc.commutators", f"structure_constants raised {type(e).__name__}: {e}", case={**info, "is_orthogonal": is_orth},
                              mech=f"raise:structure_constants:{form}")
                return
            if not check_sc(f, Bs, {**info, "is_orthogonal": is_orth}, f"{form}:orth={is_orth}", r, sctol):
                return
        # cross path: operator list with matrix=True (wires 0..n-1)
        if form in ("op", "pauli") and relabel is None and used == list(range(n)) and ci % 3 == 0:
            try:
                ops = [o.operation() if isinstance(o, (PauliSentence, PauliWord)) else o for o in out]
                f = np.asarray(qp.structure_constants(ops, matrix=True, is_orthogonal=orth))
                if not check_sc(f, Bs, {**info, "is_orthogonal": orth, "path": "ops,matrix=True"}, f"ops-matrix:orth={orth}", r, sctol):
                    return
            except Exception as e:  # noqa: BLE001
                ctx.violation("sc.commutators", f"structure_constants(ops, matrix=True) raised {type(e).__name__}: {e}", case=info,
                              mech="raise:structure_constants:ops-matrix")
                return
        # cross path: dense, individually rescaled basis (exercises the normalisation / Gram handling of the matrix path)
        if ci % 2 == 0:
            scales = r.uniform(0.3, 3.0, size=d) * r.choice([-1.0, 1.0], size=d)
            Bsc = Bs * scales[:, None, None]
            try:
                arg = np.array(Bsc) if r.random() < 0.5 else [np.array(x) for x in Bsc]
                f = np.asarray(qp.structure_constants(arg, matrix=True, is_orthogonal=orth))
                if not check_sc(f, Bsc, {**info, "is_orthogonal": orth, "path": "rescaled dense,matrix=True", "scales": scales.tolist()},
                                f"dense-rescaled:orth={orth}", r, sctol):
                    return
            except Exception as e:  # noqa: BLE001
                ctx.violation("sc.commutators", f"structure_constants(dense, matrix=True) raised {type(e).__name__}: {e}", case=info,
                              mech="raise:structure_constants:dense")
                return
        # ---- center
        if form in ("op", "pauli"):
            do_center(out, B, info, form, order, orth)
        # ---- Cartan decomposition + CSA
        if relabel is None:
            do_cartan(out, B, Bs, info, form, n, r, orth)

    def check_sc(f, Bs, info, tag, r, sctol=1e-8):
        d = Bs.shape[0]
        ctx.ev("sc.commutators")
        if f.shape != (d, d, d):
            ctx.violation("sc.commutators", f"structure constants have shape {f.shape}, expected {(d, d, d)}", case=info, mech=f"sc-shape:{tag}")
            return False
        if np.max(np.abs(np.imag(f))) > 1e-12:
            ctx.violation("sc.commutators", "structure constants are not real", case=info, mech=f"sc-complex:{tag}")
            return False
        f = np.real(f)
        scale = max(1.0, float(np.max(np.abs(Bs))) ** 2)
        for a in range(d):
            Ca = np.einsum("ij,bjk->bik", Bs[a], Bs) - np.einsum("bij,jk->bik", Bs, Bs[a])  # [B_a, B_b] for all b
            pred = -1j * np.einsum("cb,cij->bij", f[:, a, :], Bs)
            err = float(np.max(np.abs(Ca - pred)))
            if err > sctol * scale:
                b = int(np.argmax(np.max(np.abs(Ca - pred), axis=(1, 2))))
                sign = float(np.max(np.abs(Ca + pred)))
                why = "sign/convention" if sign < sctol * scale else "value"
                ctx.violation("sc.commutators", f"[B{a}, B{b}] != -i sum_c f[c,{a},{b}] B_c (max err {err:.2e}, {why})", case=info,
                              mech=f"sc-{why}:{tag}")
                return False
        ctx.ev("sc.antisym")
        if np.max(np.abs(f + np.transpose(f, (0, 2, 1)))) > 1e-9 * max(1.0, np.max(np.abs(f))):
            ctx.violation("sc.antisym", "structure constants are not antisymmetric in (alpha, beta)", case=info, mech=f"sc-antisym:{tag}")
            return False
        # Jacobi: ad_a = f[:, a, :] must satisfy [ad_a, ad_b] = sum_e f[e,a,b] ad_e
        ctx.ev("sc.jacobi")
        for _ in range(min(20, d * d)):
            a, b = int(r.integers(0, d)), int(r.integers(0, d))
            lhs = f[:, a, :] @ f[:, b, :] - f[:, b, :] @ f[:, a, :]
            rhs = np.einsum("e,dec->dc", f[:, a, b], f)
            if np.max(np.abs(lhs - rhs)) > sctol * max(1.0, np.max(np.abs(f)) ** 2):
                ctx.violation("sc.jacobi", f"adjoint representation violates the Jacobi identity at ({a},{b})", case=info, mech=f"sc-jacobi:{tag}")
                return False
        return True

    def do_center(out, B, info, form, order, orth):
        d = len(B)
        try:
            cen = qp.center(list(out), pauli=(form == "pauli"))
            Cd = [dense_of(o, order) for o in cen]
        except Exception as e:  # noqa: BLE001
            ctx.violation("center.commutes", f"center raised {type(e).__name__}: {e}", case=info, mech=f"raise:center:{form}")
            return
        # reference centre dimension: c with sum_i c_i [B_i, B_j] = 0 for all j
        try:
            rows = []
            for j in range(d):
                rows.append(np.stack([L.rvec(L.comm(B[i], B[j])) for i in range(d)], axis=1))
            A = np.concatenate(rows, axis=0) if rows else np.zeros((0, d))
            s = np.linalg.svd(A, compute_uv=False) if A.size else np.zeros(0)
            s0 = max(1.0, s[0]) if s.size else 1.0
            if np.any((s / s0 > 1e-11) & (s / s0 < 1e-7)):
                raise L.Ambiguous("centre null space")
            ref_dim = d - int(np.sum(s / s0 >= 1e-7))
        except L.Ambiguous as e:
            ctx.inconclusive_case(f"center: {e}")
            return
        ctx.ev("center.commutes")
        PB = Proj(L, B)
        for k, c in enumerate(Cd):
            if PB.outside(L, c):
                ctx.violation("center.commutes", f"center element {k} is not in g", case=info, mech=f"center-outside:{form}")
                return
            for j in range(d):
                if np.max(np.abs(L.comm(c, B[j]))) > 1e-8 * max(1.0, np.max(np.abs(c)) * np.max(np.abs(B[j]))):
                    ctx.violation("center.commutes", f"center element {k} does not commute with B{j}", case=info, mech=f"center-noncommuting:{form}")
                    return
        try:
            rk = L.rank(Cd) if Cd else 0
        except L.Ambiguous as e:
            ctx.inconclusive_case(f"center rank: {e}")
            return
        if rk != ref_dim or len(Cd) != ref_dim:
            ctx.violation("center.commutes", f"center has {len(Cd)} elements of rank {rk}; the centre of g has dimension {ref_dim}"
                          + ("" if orth else " (basis of g is not orthogonal)"), case={**info, "basis_orthogonal": orth},
                          mech=f"center-dim:{form}" if orth else "center:nonorthogonal-basis")

    INVOLS = ["even_odd", "concurrence", "AI", "AII", "AIII", "BDI", "CII", "DIII", "A", "BD", "C", "CI"]

    def invol_fn(name, n, wire):
        half = 2 ** (n - 1)
        if name == "even_odd":
            return la.even_odd_involution
        if name == "concurrence":
            return la.concurrence_involution
        if name in ("AI", "CI"):
            return getattr(la, name)
        if name in ("AII", "DIII", "A", "BD", "C"):
            return getattr(la, name) if wire is None else functools.partial(getattr(la, name), wire=wire)
        if name in ("AIII", "BDI"):
            return functools.partial(getattr(la, name), p=half, q=half, **({} if wire is None else {"wire": wire}))
        if name == "CII":
            return functools.partial(la.CII, p=half // 2, q=half // 2, **({} if wire is None else {"wire": wire}))
        raise KeyError(name)

    def ref_parity(name, G, n, wire, weight=None):
        if name == "even_odd":
            return None if weight is None else bool(weight % 2)
        half = 2 ** (n - 1)
        if name in ("AIII", "BDI"):
            return L.parity(name, G, n, wire=wire, p=half, q=half)
        if name == "CII":
            return L.parity(name, G, n, wire=wire, p=half // 2, q=half // 2)
        if name in ("AI", "CI", "concurrence"):
            return L.parity(name, G, n)
        return L.parity(name, G, n, wire=wire)

    def do_cartan(out, B, Bs, info, form, n, r, orth):
        d = len(B)
        name = INVOLS[int(r.integers(0, len(INVOLS)))]
        if name == "CII" and n < 2:
            name = "AI"
        wire = None if (r.random() < 0.5 or name in ("even_odd", "concurrence", "AI", "CI")) else int(r.integers(0, n))
        fn = invol_fn(name, n, wire)
        cinfo = {**info, "involution": name, "wire": wire}
        # reference parities (needs every basis element in an eigenspace)
        refp = []
        for k_, b in enumerate(B):
            if name == "even_odd":
                # weight parity of the element's Pauli words, read from the dense matrix
                ws = set()
                for w in L.all_words(n):
                    if abs(np.trace(L.word_dense(w, n) @ b)) > 1e-9:
                        ws.add(len(w) % 2)
                p = None if len(ws) != 1 else bool(ws.pop())
            else:
                p = ref_parity(name, b, n, wire)
            refp.append(p)
        if any(p is None for p in refp):
            ctx.reject("basis element not in an eigenspace of the involution")
            return
        try:
            k, m = la.cartan_decomp(list(out) if not isinstance(out, np.ndarray) else out, fn)
        except AssertionError:
            ctx.reject("involution asserts mixed parity")
            return
        except Exception as e:  # noqa: BLE001
            dense_cii = name == "CII" and isinstance(out, np.ndarray)
            ctx.violation("cartan.relations", f"cartan_decomp raised {type(e).__name__}: {e}", case=cinfo,
                          mech="raise:invol:CII:matrix" if dense_cii else f"raise:cartan_decomp:{name}")
            return
        ctx.ev("cartan.relations")
        ctx.cover(f"cartan:{name}")
        order = list(range(n))
        kd = [dense_of(o, order) for o in k]
        md = [dense_of(o, order) for o in m]
        exp_k = [B[i] for i in range(d) if refp[i]]
        exp_m = [B[i] for i in range(d) if not refp[i]]
        same = len(kd) == len(exp_k) and len(md) == len(exp_m) and all(np.allclose(a, b_) for a, b_ in zip(kd, exp_k)) \
            and all(np.allclose(a, b_) for a, b_ in zip(md, exp_m))
        if not same:
            ctx.violation("cartan.relations", f"cartan_decomp({name}) does not split g by the documented involution: |k|={len(kd)} (expected {len(exp_k)}), "
                          f"|m|={len(md)} (expected {len(exp_m)})", case=cinfo, mech=f"cartan-split:{name}")
            return
        Pk, Pm = Proj(L, kd), Proj(L, md)
        for (A_, B_, P_, nm) in ((kd, kd, Pk, "[k,k] in k"), (kd, md, Pm, "[k,m] in m"), (md, md, Pk, "[m,m] in k")):
            for x in A_:
                for y in B_:
                    C = L.hcomm(x, y)
                    if not negligible(C, x, y) and P_.outside(L, C):
                        ctx.violation("cartan.relations", f"{nm} violated for involution {name}", case=cinfo, mech=f"cartan-rel:{name}")
                        return
        if len(k) and len(m) and d <= 30:
            try:
                ok = la.check_cartan_decomp(k, m, verbose=False)
                ctx.ev("cartan.checkfn")
                if not ok:
                    ctx.violation("cartan.checkfn", f"check_cartan_decomp returns False for a valid decomposition ({name})", case=cinfo,
                                  mech="check_cartan_decomp:false-negative")
            except Exception as e:  # noqa: BLE001
                ctx.violation("cartan.checkfn", f"check_cartan_decomp raised {type(e).__name__}: {e}", case=cinfo, mech="raise:check_cartan_decomp")
        # ---- horizontal CSA
        if len(k) == 0 or len(m) == 0 or d > 36 or form == "op":
            return
        if not orth:
            return
        start = int(r.integers(0, len(m))) if r.random() < 0.5 else 0
        hinfo = {**cinfo, "start_idx": start}
        try:
            if isinstance(out, np.ndarray):
                res = la.horizontal_cartan_subalgebra(np.array(k), np.array(m), start_idx=start)
            else:
                res = la.horizontal_cartan_subalgebra(list(k), list(m), start_idx=start)
            newg, k2, mt, a, new_adj = res
            ng, k2d, mtd, ad = ([dense_of(o, order) for o in x] for x in (newg, k2, mt, a))
        except Exception as e:  # noqa: BLE001
            ctx.violation("csa.maxabelian", f"horizontal_cartan_subalgebra raised {type(e).__name__}: {e}", case=hinfo, mech=f"raise:csa:{form}")
            return
        ctx.ev("csa.maxabelian")
        try:
            ra = L.rank(ad)
            if len(ng) > d or len(mtd) + len(ad) > len(md):
                # more elements than dim g / dim m: a numerically spurious vector was accepted as a new CSA element
                nonab = max([float(np.max(np.abs(L.comm(ad[i], ad[j])))) for i in range(len(ad)) for j in range(i + 1, len(ad))], default=0.0)
                ctx.violation("csa.maxabelian", f"horizontal_cartan_subalgebra returned |newg|={len(ng)} for dim g={d}, |mtilde|+|a|={len(mtd)}+{len(ad)} "
                              f"for dim m={len(md)}; max |[a_i,a_j]| = {nonab:.2e}", case=hinfo, mech="csa:spurious-element")
                return
            if ra != len(ad) or ra == 0:
                ctx.violation("csa.maxabelian", f"CSA has {len(ad)} elements of rank {ra}", case=hinfo, mech="csa-dependent")
                return
            for x in ad:
                if Pm.resid(L, x) > max(Pm.tol, 1e-7):
                    ctx.violation("csa.maxabelian", "CSA element is not in m", case=hinfo, mech="csa-outside-m")
                    return
            for i in range(len(ad)):
                for j in range(i + 1, len(ad)):
                    if np.max(np.abs(L.comm(ad[i], ad[j]))) > 1e-8 * max(1.0, np.max(np.abs(ad[i])) * np.max(np.abs(ad[j]))):
                        ctx.violation("csa.maxabelian", "CSA is not abelian", case=hinfo, mech="csa-nonabelian")
                        return
            # centraliser of a inside m
            rows = [np.stack([L.rvec(L.comm(mm, x)) for mm in md], axis=1) for x in ad]
            A = np.concatenate(rows, axis=0)
            s = np.linalg.svd(A, compute_uv=False)
            s0 = max(1.0, s[0]) if s.size else 1.0
            rel = s / s0
            if np.any((rel > 1e-11) & (rel < 1e-7)):
                raise L.Ambiguous("centraliser")
            cdim = len(md) - int(np.sum(rel >= 1e-7))
            if cdim != ra:
                ctx.violation("csa.maxabelian", f"CSA of dimension {ra} is not maximal abelian in m: its centraliser in m has dimension {cdim}",
                              case=hinfo, mech="csa-not-maximal")
                return
            # newg = k + mtilde + a spans g ; mtilde + a spans m
            if len(ng) != d or L.rank(ng) != d or any(Proj(L, B).resid(L, x) > 1e-7 for x in ng):
                ctx.violation("csa.maxabelian", "newg is not a basis of g", case=hinfo, mech="csa-newg")
                return
            if len(mtd) + len(ad) != len(md) or L.rank(mtd + ad) != len(md) or any(Pm.resid(L, x) > 1e-7 for x in mtd):
                ctx.violation("csa.maxabelian", "mtilde + a is not a basis of m", case=hinfo, mech="csa-mtilde")
                return
        except L.Ambiguous as e:
            ctx.inconclusive_case(f"csa: {e}")
            return
        ctx.ev("csa.new_adj")
        check_sc_named(np.asarray(new_adj), np.stack(ng), hinfo, r)

    def check_sc_named(f, Bs, info, r):
        d = Bs.shape[0]
        if f.shape != (d, d, d):
            ctx.violation("csa.new_adj", f"new_adj has shape {f.shape}", case=info, mech="csa-new_adj-shape")
            return
        f = np.real(f)
        scale = max(1.0, float(np.max(np.abs(Bs))) ** 2)
        for a in range(d):
            Ca = np.einsum("ij,bjk->bik", Bs[a], Bs) - np.einsum("bij,jk->bik", Bs, Bs[a])
            pred = -1j * np.einsum("cb,cij->bij", f[:, a, :], Bs)
            if float(np.max(np.abs(Ca - pred))) > 1e-7 * scale:
                ctx.violation("csa.new_adj", f"new_adj does not reproduce the commutators of newg (max err {float(np.max(np.abs(Ca - pred))):.2e})",
                              case=info, mech="csa-new_adj")
                return

    # =========================================================================================== PauliVSpace histories
    def do_vspace(ci):
        gi = 10_000_000 + ci * ctx.nshards + ctx.shard
        ctx.case_index = gi
        r = ctx.case_rng(gi)
        n = int(r.integers(1, 4))
        pool = [rand_word(r, n) for _ in range(int(r.integers(2, 7)))]
        order = list(range(n))

        def rand_sent():
            ws = {}
            for _ in range(int(r.integers(1, 4))):
                w = pool[int(r.integers(0, len(pool)))]
                ws[tuple(sorted(w.items()))] = float(np.round(r.uniform(-2, 2), 3)) or 1.0
            return [(dict(k_), c) for k_, c in ws.items()]

        sents = [rand_sent() for _ in range(int(r.integers(1, 6)))]
        info = {"n": n, "init": gens_json(sents)}
        try:
            as_ops = r.random() < 0.3
            vs = PauliVSpace([mk_ps(s).operation() if as_ops else mk_ps(s) for s in sents])
        except Exception as e:  # noqa: BLE001
            ctx.violation("vspace.rank", f"PauliVSpace raised {type(e).__name__}: {e}", case=info, mech="raise:vspace")
            return
        cur = [L.sentence_dense(s, n) for s in sents]
        hist = []
        dependent_seen = False
        try:
            for step in range(int(r.integers(2, 7))):
                rk = L.rank(cur)
                ctx.ev("vspace.rank")
                bd = [dense_of(b, order) for b in vs.basis]
                if len(bd) != rk or L.rank(bd) != rk or any(Proj(L, cur).outside(L, b) for b in bd):
                    ctx.violation("vspace.rank", f"PauliVSpace basis has {len(bd)} elements; the exact rank of what was added is {rk}",
                                  case={**info, "history": hist}, mech="vspace-rank")
                    return
                # candidate: random / exact combination of current vectors / near-dependent
                mode = int(r.integers(0, 4))
                if mode == 0 or not cur:
                    cand = rand_sent()
                else:
                    coef = r.uniform(-1.5, 1.5, size=len(sents))
                    comb = {}
                    for c0, s in zip(coef, sents):
                        for w, c in s:
                            comb[tuple(sorted(w.items()))] = comb.get(tuple(sorted(w.items())), 0.0) + float(c0) * c
                    if mode == 3:  # perturb off the span by a clear margin
                        w = rand_word(r, n)
                        comb[tuple(sorted(w.items()))] = comb.get(tuple(sorted(w.items())), 0.0) + float(r.choice([1e-3, 1e-5]))
                    cand = [(dict(k_), c) for k_, c in comb.items() if c != 0.0]
                    if not cand:
                        cand = rand_sent()
                cd = L.sentence_dense(cand, n)
                # distance of the candidate from the span of what was added so far, and conditioning of the current basis:
                # PennyLane's criterion is s_min(normalised [basis | cand]) > 100 eps; only assert clearly outside the grey zone
                Pc = Proj(L, cur)
                rel = Pc.resid(L, cd) if cur else 1.0
                Ab = L.colmat(bd)
                sb = np.linalg.svd(Ab, compute_uv=False) if Ab.size else np.ones(1)
                smin_b = float(sb[-1] / sb[0]) if sb.size and sb[0] > 0 else 1.0
                if rel < 2e-15:
                    want = False
                elif rel * smin_b > 1e-10:
                    want = True
                else:
                    ctx.count("vspace.grey_zone_candidates")
                    break
                dependent_seen = dependent_seen or not want
                hist.append({"cand": gens_json([cand])[0], "independent": want})
                ctx.ev("vspace.rank")
                got = bool(vs.is_independent(mk_ps(cand)))
                if got != want:
                    ctx.violation("vspace.rank", f"is_independent returned {got}, exact answer {want}", case={**info, "history": hist},
                                  mech="vspace-independent:" + ("false-positive" if got else "false-negative"))
                    return
                before = len(vs.basis)
                vs.add(mk_ps(cand) if r.random() < 0.7 else mk_ps(cand).operation())
                if (len(vs.basis) - before == 1) != want:
                    ctx.violation("vspace.rank", f"add() {'added' if len(vs.basis) > before else 'did not add'} a candidate whose independence is {want}",
                                  case={**info, "history": hist}, mech="vspace-add")
                    return
                cur.append(cd)
                sents.append(cand)
        except L.Ambiguous as e:
            ctx.inconclusive_case(f"vspace: {e}")
            return
        except Exception as e:  # noqa: BLE001
            ctx.violation("vspace.rank", f"PauliVSpace operation raised {type(e).__name__}: {e}", case={**info, "history": hist}, mech="raise:vspace-op")
            return
        ctx.case(fingerprint("vs", info["init"], hist), nontrivial=dependent_seen, cls="vspace", sample={**info, "history": hist[:3]})

    # =========================================================================================== involutions on single operators
    def do_invol(ci):
        gi = 20_000_000 + ci * ctx.nshards + ctx.shard
        ctx.case_index = gi
        r = ctx.case_rng(gi)
        n = int(r.integers(1, 5))
        name = INVOLS[int(r.integers(0, len(INVOLS)))]
        if name == "CII" and n < 2:
            n = 2
        wire = None if (r.random() < 0.4 or name in ("even_odd", "concurrence", "AI", "CI")) else int(r.integers(0, n))
        fn = invol_fn(name, n, wire)
        # two Pauli words a, b (eigen-operators of every involution here)
        wa, wb = rand_word(r, n), rand_word(r, n)
        info = {"involution": name, "n": n, "wire": wire, "a": gens_json([[(wa, 1.0)]])[0], "b": gens_json([[(wb, 1.0)]])[0]}
        ctx.case(fingerprint("inv", name, n, wire, sorted(wa.items()), sorted(wb.items())), nontrivial=n >= 2, cls=f"invol:{name}", sample=info)
        res = {}
        for tag, w in (("a", wa), ("b", wb)):
            G = L.word_dense(w, n)
            want = ref_parity(name, G, n, wire, weight=len(w))
            coeff = float(r.choice([1.0, -1.0, 0.5, -2.0]))
            forms = {"ps": PauliSentence({PauliWord(w): coeff}), "op": PauliSentence({PauliWord(w): coeff}).operation(),
                     "matrix": coeff * G}
            for fname, obj in forms.items():
                ctx.ev("invol.parity")
                try:
                    got = bool(fn(obj))
                except Exception as e:  # noqa: BLE001
                    ctx.violation("invol.parity", f"{name}({fname}) raised {type(e).__name__}: {e}", case={**info, "form": fname},
                                  mech=f"raise:invol:{name}:{fname}")
                    return
                if got != want:
                    ctx.violation("invol.parity", f"{name}({fname} of {info[tag]}) = {got}; documented formula puts i·G in the "
                                  f"{'+1' if want else '-1'} eigenspace", case={**info, "form": fname}, mech=f"invol:{name}:{fname}")
                    return
            res[tag] = want
        # automorphism: parity of the commutator
        Ga, Gb = L.word_dense(wa, n), L.word_dense(wb, n)
        C = L.hcomm(Ga, Gb)
        if np.max(np.abs(C)) > 1e-12:
            ctx.ev("invol.parity")
            try:
                got = bool(fn(np.array(C)))
                ps_c = PauliSentence({PauliWord(wa): 1.0}).commutator(PauliSentence({PauliWord(wb): 1.0}))
                ps_c = PauliSentence({pw: float(np.imag(c)) for pw, c in ps_c.items() if abs(c) > 1e-12})
                got2 = bool(fn(ps_c))
            except Exception as e:  # noqa: BLE001
                ctx.violation("invol.parity", f"{name}(commutator) raised {type(e).__name__}: {e}", case=info, mech=f"raise:invol-comm:{name}")
                return
            want = not (res["a"] ^ res["b"])
            if got != want or got2 != want:
                ctx.violation("invol.parity", f"{name}: parity of [a,b] is {got}/{got2}, parities of a,b are {res['a']},{res['b']} (not an automorphism)",
                              case=info, mech=f"invol-hom:{name}")
                return
        # sums of same-parity words (sentences in an eigenspace), and p != q dense cases
        if ci % 3 == 0 and name in ("AIII", "BDI", "CII"):
            dim = 2**n
            if name == "CII":
                if dim < 4:
                    return
                tot = dim // 2
                p = int(r.integers(1, tot)) if tot > 1 else 1
                q = tot - p
                if q < 1:
                    return
                sig = np.concatenate([np.ones(p), -np.ones(q), np.ones(p), -np.ones(q)])
            else:
                p = int(r.integers(1, dim))
                q = dim - p
                sig = np.concatenate([np.ones(p), -np.ones(q)])
            H = r.normal(size=(dim, dim)) + 1j * r.normal(size=(dim, dim))
            H = H + H.conj().T
            mask = np.outer(sig, sig)
            for want, Hm in ((True, H * (mask > 0)), (False, H * (mask < 0))):
                if np.max(np.abs(Hm)) < 1e-12:
                    continue
                ctx.ev("invol.parity")
                try:
                    got = bool(getattr(la, name)(np.array(Hm), p=p, q=q))
                except Exception as e:  # noqa: BLE001
                    ctx.violation("invol.parity", f"{name}(dense, p={p}, q={q}) raised {type(e).__name__}: {e}", case={**info, "p": p, "q": q},
                                  mech=f"raise:invol-pq:{name}")
                    return
                if got != want:
                    ctx.violation("invol.parity", f"{name}(dense, p={p}, q={q}) = {got}, documented {want}", case={**info, "p": p, "q": q},
                                  mech=f"invol-pq:{name}")
                    return

    nalg, nvs, ninv = ctx.n(450, 6000), ctx.n(300, 5000), ctx.n(600, 10000)
    for ci in range(max(nalg, nvs, ninv)):
        if not ctx.more():
            break
        if ci < nalg:
            do_algebra(ci)
        if ci < nvs:
            do_vspace(ci)
        if ci < ninv:
            do_invol(ci)
