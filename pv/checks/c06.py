"""C06 — Copies, pickles, pytrees and rebinding reproduce operators.

Post-conditions on the real round-trip functions for every generated operator / measurement process:

* ``rt.copy`` ``rt.deepcopy`` ``rt.pickle`` ``rt.pytree`` (qp.pytrees flatten/unflatten) ``rt.jax`` (jax.tree_util
  flatten/unflatten) ``rt.capture`` (capture-primitive bind through a jaxpr): the result must be
    (1) ``qp.equal`` to the original (both orders), (2) have the same harness-side structural fingerprint (class, wires,
    hyper-parameter structure, exact data bytes) and (3) have the same matrix when one is defined — three independent
    judgements, so the check does not rest on ``qp.equal`` alone
* ``alias.deepcopy``: no mutable container (list / dict / set / ndarray, nested operators) reachable from the deep copy's
  ``__dict__`` (``_data`` excluded: documented as shallow) is the same object as one reachable from the original; after
  mutating the copy's containers in place the original's fingerprint is unchanged
* ``bind.params``: ``bind_new_parameters(op, new)`` gives an operator whose ``data`` is exactly ``new``, whose class / wires /
  hyper-parameter fingerprint is unchanged, and leaves the original untouched
"""
import copy
import pickle

import numpy as np

from pv.ctx import fingerprint

META = {
    "id": "C06",
    "level": "exploration",
    "technique": "runtime post-conditions on copy/deepcopy/pickle/pytree/jax-pytree/capture round trips and on bind_new_parameters of "
                 "generated operator instances: qp.equal + independent structural fingerprint + matrix differential; aliasing monitor "
                 "by object identity and in-place mutation of the copy",
    "level_text": "Every concrete operator class (G-OP zoo, incl. templates, channels, observables, symbolic operators), nested "
                  "expressions (G-EXPR depth <= 3) and measurement processes are pushed through every round-trip path of the real code; "
                  "each result is judged three ways (qp.equal, harness fingerprint of class/wires/hyper-parameters/data bytes, matrix). "
                  "Deep copies are checked for shared mutable state by identity and by mutating the copy. Rebinding is checked against "
                  "the exact new parameters. Held on the instances observed.",
    "level_note": "Capture binding is exercised only for integer-wire instances and only judged when the jaxpr round trip completes "
                  "(the feature is documented as experimental; failures to trace are counted as rejections). Classes that carry "
                  "per-instance unique ids or closures over local state are exercised as the zoo builds them (module-level functions). "
                  "The structural fingerprint treats tuple/list containers of hyper-parameters as equivalent only for the equality "
                  "judgement of data *values*; container type changes are reported by the hash monitor of C04. Capture uses the jaxpr route of "
                  "the repository's own validity helper (tree_unflatten inside make_jaxpr, eval_jaxpr), not make_plxpr/plxpr_to_tape; "
                  "rt.capture is not a deciding monitor. bind_new_parameters is skipped for MultiControlledX/TemporaryAND (data = control "
                  "values) and ValueError from parameter validation is a rejection.",
    "shards": {"quick": 4, "thorough": 16},
    "budget_s": {"quick": 150, "thorough": 300},
    "min_evals": {"quick": 3000, "thorough": 40000},
    "min_nontrivial": {"quick": 500, "thorough": 5000},
    "deciding": ["rt.copy", "rt.deepcopy", "rt.pickle", "rt.pytree", "rt.jax", "alias.deepcopy", "bind.params"],
    "rule": "case = one (object, round-trip path); distinct = distinct (class, data fingerprint, path); non-trivial = the object has "
            "parameters, hyper-parameters or nested operators (so that a lossy round trip would be visible)",
    "assumptions": ["python pickle/copy protocol semantics", "qp.matrix correct (C01-C03)"],
    "allow_rejections": True,
}

MAXW = 5
SKIP_BIND = {"MultiControlledX", "TemporaryAND"}  # data = control values: the repository documents that rebinding them is meaningless


# ------------------------------------------------------------------------------------------------------- fingerprints
def _val(x):
    try:
        import scipy.sparse as sp
        if sp.issparse(x):
            x = x.toarray()
    except Exception:  # noqa: BLE001
        pass
    try:
        a = np.asarray(x)
        if a.dtype == object:
            return ("obj", repr(x)[:200])
        # container / python-vs-numpy scalar type is not part of the *value*
        return ("arr", a.shape, np.asarray(a, dtype=complex if a.dtype.kind in "fciub" else a.dtype).tobytes())
    except Exception:  # noqa: BLE001
        return ("repr", repr(x)[:200])


def _is_oplike(v):
    return hasattr(v, "wires") and (hasattr(v, "hyperparameters") or hasattr(v, "obs")) and not isinstance(v, (str, bytes))


def struct(x, depth=0):
    """Harness-side deep structural fingerprint (independent of qp.equal)."""
    if depth > 12:
        return ("deep",)
    t = type(x).__name__
    if t.endswith("MP") or (hasattr(x, "obs") and hasattr(x, "mv")):
        obs = getattr(x, "obs", None)
        ev = getattr(x, "_eigvals", None)
        extra = tuple((k, repr(getattr(x, k))) for k in ("seed", "k", "log_base", "all_outcomes") if hasattr(x, k))
        return ("MP", t, struct(obs, depth + 1) if obs is not None else None, tuple(x.wires) if obs is None else None,
                repr(getattr(x, "mv", None)) if getattr(x, "mv", None) is not None else None, _val(ev) if ev is not None else None, extra)
    items = []
    try:
        hp = dict(x.hyperparameters)
    except Exception:  # noqa: BLE001
        hp = {}
    for k in sorted(hp, key=str):
        items.append((str(k), _hval(hp[k], depth)))
    try:
        data = tuple(_val(d) for d in x.data)
    except Exception:  # noqa: BLE001
        data = ("nodata",)
    try:
        wires = tuple(x.wires)
    except Exception:  # noqa: BLE001
        wires = ("nowires",)
    # attributes that some classes keep outside data / hyperparameters (Operator2 argument kinds, controlled operators)
    for attr in ("control_values", "control_wires", "work_wires", "work_wire_type"):
        try:
            if hasattr(x, attr):
                v = getattr(x, attr)
                items.append(("@" + attr, _hval(list(v) if attr != "work_wire_type" else v, depth)))
        except Exception:  # noqa: BLE001
            pass
    args = getattr(x, "arguments", None)
    if isinstance(args, dict):
        dyn = set(getattr(x, "dynamic_argnames", ()))
        for k in sorted(args, key=str):
            if k not in dyn and str(k) not in dict(items):
                items.append(("arg:" + str(k), _hval(args[k], depth)))
    return (t, data, wires, tuple(items))


def _hval(v, depth):
    if _is_oplike(v):
        return struct(v, depth + 1)
    if isinstance(v, (list, tuple)) and v and any(_is_oplike(e) or isinstance(e, (list, tuple, dict)) for e in v):
        return ("seq", tuple(_hval(e, depth + 1) for e in v))
    if isinstance(v, dict):
        return ("dict", tuple((str(k), _hval(e, depth + 1)) for k, e in sorted(v.items(), key=lambda kv: str(kv[0]))))
    if callable(v) and not isinstance(v, type):
        return ("callable", getattr(v, "__qualname__", repr(v)))
    if isinstance(v, (np.ndarray, float, int, complex, np.generic, list, tuple, bool)):
        return _val(v)
    if hasattr(v, "tolist") and hasattr(v, "labels"):  # Wires
        return ("wires", tuple(v))
    r = repr(v)
    if " at 0x" in r:  # object without a value-based repr: compare by type only
        return ("objtype", type(v).__name__)
    return ("repr", r[:300])


def _desc(x):
    try:
        return repr(x)[:240].replace("\n", " ")
    except Exception as e:  # noqa: BLE001
        return f"<{type(x).__name__}: repr raised {type(e).__name__}>"


def _raise_site(e):
    import os
    import traceback
    for fr in reversed(traceback.extract_tb(e.__traceback__)):
        if "/pennylane/" in fr.filename:
            return f"{os.path.basename(fr.filename)}:{fr.name}"
    return "?"


# ------------------------------------------------------------------------------------------------------------ the check
def _limit_repeats(ctx, per_mech=2):
    """Record at most ``per_mech`` witnesses per (monitor, mechanism) and shard, so that frequent known mechanisms cannot
    exhaust the bus' witness buffer and hide a new one (all occurrences are still counted)."""
    orig, seen = ctx.violation, {}

    def violation(monitor, message, case=None, mech=None, observed=None, expected=None):
        k = (monitor, mech)
        seen[k] = seen.get(k, 0) + 1
        if seen[k] <= per_mech:
            orig(monitor, message, case=case, mech=mech, observed=observed, expected=expected)
        else:
            ctx.nviolations += 1
            ctx.count("witnesses_not_recorded_again")
    ctx.violation = violation


def run(ctx):
    import pennylane as qp

    _limit_repeats(ctx)

    from pv.checks.c04 import _random_mp
    from pv.gen import opzoo

    ctx.note("import_s", round(ctx.elapsed(), 1))
    classes = [c.__name__ for c in opzoo.classes(qp) if c.__name__ != "ParametrizedEvolution" or not ctx.quick]
    per_class = 2 if ctx.quick else 30
    work = [("zoo", n) for _ in range(per_class) for n in classes]
    n_expr, n_mp = (500, 250) if ctx.quick else (10000, 3000)
    work += [("expr", None)] * n_expr + [("mp", None)] * n_mp
    ncap = [0]
    for i, (src, name) in enumerate(work):
        if i % ctx.nshards != ctx.shard:
            continue
        if not ctx.more():
            break
        if ctx.only_case is not None and i != ctx.only_case:
            continue
        ctx.case_index = i
        rng = ctx.case_rng(i)
        seed = [int(x) for x in rng.integers(0, 2**31 - 1, size=3)]
        try:
            if src == "zoo":
                batch = int(rng.integers(1, 4)) if (opzoo.supports_broadcasting(qp, name) and rng.random() < 0.2) else None
                # integer wires for a third of the instances so that the capture path can be exercised
                wires = list(range(14)) if rng.random() < 0.35 else None
                a = opzoo.make(qp, name, np.random.default_rng(seed), batch=batch, wires=wires)
            elif src == "expr":
                a = opzoo.random_expr(qp, np.random.default_rng(seed), int(rng.integers(1, 4)), max_wires=3, hermitian=bool(rng.random() < 0.3))[0]
            else:
                with qp.queuing.QueuingManager.stop_recording():
                    a = _random_mp(qp, np.random.default_rng(seed))
        except opzoo.NoRecipe as e:
            ctx.uncovered(name, str(e))
            continue
        except opzoo.ExprBuildError:
            ctx.reject("expr-constructor-raised")
            continue
        except Exception as e:  # noqa: BLE001
            ctx.inconclusive_case(f"{src}:{name}: generator raised {type(e).__name__}: {e}")
            continue
        cls = type(a).__name__
        info = {"source": src, "class": cls, "seed": seed, "obj": _desc(a)}
        try:
            _one(ctx, qp, a, cls, info, rng, ncap)
        except Exception as e:  # noqa: BLE001
            import traceback
            ctx.inconclusive_case(f"{cls}: harness: {type(e).__name__}: {e} @ {traceback.format_exc()[-300:]}")
    ctx.note("total_s", round(ctx.elapsed(), 1))


def _matrix_or_none(qp, x):
    try:
        if not isinstance(x, qp.operation.Operator) or len(x.wires) > MAXW or type(x).__name__ == "ParametrizedEvolution":
            return None
        return np.asarray(qp.matrix(x, wire_order=list(x.wires)))
    except Exception:  # noqa: BLE001
        return None


_FAMILY = {"pytree": "unflatten", "_unflatten(_flatten)": "unflatten", "jax-pytree": "unflatten"}


def _judge(ctx, qp, mon, path, a, b, cls, info, sa, Ma):
    """Three-fold judgement of a round-trip result b of a."""
    pinfo = dict(info, path=path, result=_desc(b))
    path_m = _FAMILY.get(path, path)  # the three pytree paths share one mechanism tag
    ctx.ev(mon)
    if type(b) is not type(a):
        ctx.violation(mon, f"{path}: result has type {type(b).__name__}, original {cls}; a = {info['obj']}", case=pinfo, mech=f"{path_m}:type-changed:{cls}")
        return
    # (1) qp.equal, both orders
    for x, y, order in ((a, b, "a,b"), (b, a, "b,a")):
        try:
            r = qp.equal(x, y)
        except Exception as e:  # noqa: BLE001
            ctx.violation(mon, f"{path}: qp.equal({order}) raised {type(e).__name__}: {str(e)[:160]}; a = {info['obj']}", case=pinfo,
                          mech=f"{path_m}:equal-raises:{cls}:{type(e).__name__}")
            return
        if r is not True:
            why = ""
            try:
                qp.assert_equal(x, y)
            except AssertionError as ae:
                why = str(ae)[:240]
            except Exception:  # noqa: BLE001
                pass
            ctx.violation(mon, f"{path}: result is not qp.equal to the original ({order}); a = {info['obj']}; b = {_desc(b)}; {why}", case=pinfo,
                          mech=f"{path_m}:not-equal:{cls}")
            return
    # (2) structural fingerprint
    sb = struct(b)
    if sb != sa:
        diff = _first_diff(sa, sb)
        ctx.violation(mon, f"{path}: structural fingerprint changed at {diff}; a = {info['obj']}; b = {_desc(b)}", case=pinfo, mech=f"{path_m}:struct-changed:{cls}",
                      observed=repr(sb)[:600], expected=repr(sa)[:600])
        return
    # (3) matrix
    if Ma is not None:
        Mb = _matrix_or_none(qp, b)
        if Mb is None or Mb.shape != Ma.shape or not np.max(np.abs(Mb - Ma)) < 1e-10 * max(1.0, float(np.max(np.abs(Ma))) if Ma.size else 1.0):
            ctx.violation(mon, f"{path}: matrix of the result differs from the original's; a = {info['obj']}", case=pinfo, mech=f"{path_m}:matrix-changed:{cls}")


def _first_diff(x, y, path="root"):
    if type(x) is not type(y):
        return f"{path}: {repr(x)[:80]} != {repr(y)[:80]}"
    if isinstance(x, tuple):
        if len(x) != len(y):
            return f"{path}: length {len(x)} != {len(y)}"
        for i, (p, q) in enumerate(zip(x, y)):
            if p != q:
                return _first_diff(p, q, f"{path}[{i}]")
        return path
    return f"{path}: {repr(x)[:80]} != {repr(y)[:80]}"


def _mutables(x, qp, seen=None, depth=0, skip_data=True):
    """ids of mutable containers / nested operators reachable from x.__dict__ (``_data`` excluded)."""
    seen = {} if seen is None else seen
    if depth > 8:
        return seen
    d = getattr(x, "__dict__", None)
    if d is None:
        return seen
    for k, v in list(d.items()):
        if skip_data and k == "_data":
            continue
        _walk(v, qp, seen, depth + 1, f"{type(x).__name__}.{k}")
    return seen


def _walk(v, qp, seen, depth, where):
    if depth > 10 or id(v) in seen:
        return
    if isinstance(v, np.ndarray):
        if v.ndim > 0:  # 0-d arrays behave like immutable scalars here
            seen[id(v)] = (where, v)
        return
    if isinstance(v, (list, dict, set)):
        seen[id(v)] = (where, v)
        for e in (v.values() if isinstance(v, dict) else v):
            _walk(e, qp, seen, depth + 1, where + "[]")
        return
    if isinstance(v, tuple):
        for e in v:
            _walk(e, qp, seen, depth + 1, where + "()")
        return
    if isinstance(v, (qp.operation.Operator, qp.measurements.MeasurementProcess)):
        seen[id(v)] = (where, v)
        _mutables(v, qp, seen, depth + 1)
        return
    import inspect
    if type(v).__name__ == "BoundArguments" and hasattr(v, "arguments"):
        _walk(v.arguments, qp, seen, depth + 1, where + ".arguments")


def _one(ctx, qp, a, cls, info, rng, ncap):
    isop = isinstance(a, qp.operation.Operator)
    sa = struct(a)
    Ma = _matrix_or_none(qp, a)
    dfp = fingerprint(repr(sa))
    nontriv = True
    try:
        if isop:
            nontriv = bool(len(a.data) or a.arithmetic_depth or len(a.hyperparameters))
    except Exception:  # noqa: BLE001
        pass

    def attempt(mon, path, fn, reject=()):
        ctx.case(fingerprint(dfp, path), nontrivial=nontriv, cls=cls, sample=dict(info, path=path))
        try:
            with qp.queuing.QueuingManager.stop_recording():
                b = fn()
        except reject as e:
            ctx.reject(f"{path}:{type(e).__name__}")
            return None
        except Exception as e:  # noqa: BLE001
            ctx.ev(mon)
            ctx.violation(mon, f"{path} raised {type(e).__name__}: {str(e)[:220]} for a = {info['obj']}", case=dict(info, path=path),
                          mech=f"{_FAMILY.get(path, path)}:raises:{cls}:{type(e).__name__}@{_raise_site(e)}")
            return None
        _judge(ctx, qp, mon, path, a, b, cls, info, sa, Ma)
        return b

    attempt("rt.copy", "copy", lambda: copy.copy(a))
    dc = attempt("rt.deepcopy", "deepcopy", lambda: copy.deepcopy(a))
    attempt("rt.pickle", "pickle", lambda: pickle.loads(pickle.dumps(a)))
    attempt("rt.pytree", "pytree", lambda: qp.pytrees.unflatten(*qp.pytrees.flatten(a)))
    if isop:
        attempt("rt.pytree", "_unflatten(_flatten)", lambda: type(a)._unflatten(*a._flatten()))
    import jax

    def jax_rt():
        leaves, st = jax.tree_util.tree_flatten(a)
        return jax.tree_util.tree_unflatten(st, leaves)
    attempt("rt.jax", "jax-pytree", jax_rt)

    # ---------------------------------------------------------------- aliasing after deepcopy
    if dc is not None and dc is not a:
        ctx.ev("alias.deepcopy")
        ma, mc = _mutables(a, qp), _mutables(dc, qp)
        shared = [(mc[k][0]) for k in mc if k in ma]
        if shared:
            ctx.violation("alias.deepcopy", f"deepcopy shares mutable state with the original at {shared[:4]}; a = {info['obj']}", case=dict(info, shared=shared[:6]),
                          mech=f"deepcopy-alias:{cls}:{shared[0]}")
        else:
            # mutate every container of the copy in place; the original's fingerprint must stay
            for _, (where, v) in list(mc.items()):
                try:
                    if isinstance(v, np.ndarray) and v.flags.writeable and v.size and v.dtype.kind in "fciu":
                        v.flat[0] = v.flat[0] + 1
                    elif isinstance(v, list):
                        v.append("pv-mutation")
                    elif isinstance(v, dict):
                        v["pv-mutation"] = 1
                    elif isinstance(v, set):
                        v.add("pv-mutation")
                except Exception:  # noqa: BLE001
                    pass
            try:
                s_after = struct(a)
            except Exception as e:  # noqa: BLE001
                s_after = ("raised", type(e).__name__)
            if s_after != sa:
                ctx.violation("alias.deepcopy", f"mutating the deep copy changed the original at {_first_diff(sa, s_after)}; a = {info['obj']}", case=info,
                              mech=f"deepcopy-mutation-leaks:{cls}")

    # ---------------------------------------------------------------- bind_new_parameters
    if isop and cls not in SKIP_BIND:
        try:
            data = list(a.data)
        except Exception:  # noqa: BLE001
            data = []
        if data and any(np.asarray(d).dtype.kind in "fc" for d in data):
            new = []
            for d in data:
                arr = np.asarray(d)
                if arr.dtype.kind not in "fc":  # integer / boolean data (basis states, control values): re-bound unchanged
                    new.append(d)
                    continue
                shift = rng.uniform(0.1, 0.9, size=arr.shape) if arr.ndim else float(rng.uniform(0.1, 0.9))
                new.append(arr * 0.5 + shift if arr.ndim else float(np.real(arr)) * 0.5 + shift)
            sa_before = struct(a)
            binfo = dict(info, path="bind_new_parameters")
            ctx.case(fingerprint(dfp, "bind"), nontrivial=True, cls=cls, sample=binfo)
            try:
                with qp.queuing.QueuingManager.stop_recording():
                    b = qp.ops.functions.bind_new_parameters(a, new)
            except ValueError as e:
                b = None
                # parameters with constraints (unitarity, normalisation, probabilities): rebinding arbitrary values may be rejected
                ctx.reject(f"bind:{type(e).__name__}")
                ctx.note_add("bind_rejections", f"{cls}:{type(e).__name__}:{str(e)[:80]}", cap=40)
            except Exception as e:  # noqa: BLE001 - same shapes as op.data were supplied: anything but a value rejection is a failure to rebind
                b = None
                ctx.ev("bind.params")
                ctx.violation("bind.params", f"bind_new_parameters raised {type(e).__name__}: {str(e)[:200]} for a = {info['obj']} with new data of the same shapes",
                              case=binfo, mech=_bind_mech("raises", cls, sa, e))
            if b is not None:
                ctx.ev("bind.params")
                ok = True
                if type(b) is not type(a):
                    ctx.violation("bind.params", f"bind_new_parameters changed the type {cls} -> {type(b).__name__}; a = {info['obj']}", case=binfo, mech=f"bind:type-changed:{cls}")
                    ok = False
                if ok:
                    try:
                        bd = list(b.data)
                    except Exception as e:  # noqa: BLE001
                        bd = None
                    if bd is None or len(bd) != len(new) or any(np.shape(x) != np.shape(y) or not np.array_equal(np.asarray(x), np.asarray(y)) for x, y in zip(bd, new)):
                        ctx.violation("bind.params", f"bind_new_parameters: data of the result is not exactly the new parameters; a = {info['obj']}; b = {_desc(b)}",
                                      case=binfo, mech=_bind_mech("data-not-new", cls, sa), observed=repr(bd)[:300], expected=repr(new)[:300])
                        ok = False
                if ok:
                    s_b = struct(b)
                    if (s_b[0], s_b[2]) != (sa[0], sa[2]) or _strip_data(s_b[3]) != _strip_data(sa[3]):
                        ctx.violation("bind.params", f"bind_new_parameters changed attributes other than the parameters at "
                                      f"{_first_diff((sa[0], sa[2], _strip_data(sa[3])), (s_b[0], s_b[2], _strip_data(s_b[3])))}; a = {info['obj']}; b = {_desc(b)}",
                                      case=binfo, mech=f"bind:attributes-changed:{cls}")
                if struct(a) != sa_before:
                    ctx.violation("bind.params", f"bind_new_parameters mutated the original operator; a = {info['obj']}", case=binfo, mech=f"bind:mutates-original:{cls}")

    # ---------------------------------------------------------------- capture-primitive binding
    if isop and ncap[0] < (60 if ctx.quick else 400) and cls not in ("SubroutineOp",):
        try:
            int_wires = all(isinstance(w, int) for w in a.wires) and len(a.wires) > 0
        except Exception:  # noqa: BLE001
            int_wires = False
        if int_wires and getattr(a, "batch_size", None) is None:
            ncap[0] += 1
            _capture(ctx, qp, a, cls, info, sa, Ma)


def _type_names(st, acc=None):
    """Class names of all (nested) operators in a structural fingerprint."""
    acc = set() if acc is None else acc
    if isinstance(st, tuple):
        if len(st) == 4 and isinstance(st[0], str) and isinstance(st[1], tuple) and isinstance(st[3], tuple):
            acc.add(st[0])
        for e in st:
            _type_names(e, acc)
    return acc


def _bind_mech(kind, cls, sa, exc=None):
    """Mechanism tag of a rebinding failure; failures inherited from a nested operator are attributed to that operator."""
    nested = _type_names(sa) - {cls}
    if exc is not None:
        if nested & {"MultiControlledX", "TemporaryAND"} and not isinstance(exc, ValueError):
            return "bind:nested-misaligned:operand-with-data-but-num_params-0"
        if "ControlledQubitUnitary" in nested and isinstance(exc, TypeError) and "multiple values for argument 'wires'" in str(exc):
            return "bind:raises:ControlledQubitUnitary:TypeError"
        return f"bind:raises:{cls}:{type(exc).__name__}"
    if kind == "data-not-new" and nested & {"MultiControlledX", "TemporaryAND"}:
        return "bind:nested-misaligned:operand-with-data-but-num_params-0"
    return f"bind:{kind}:{cls}"


def _strip_data(items):
    """Hyper-parameter fingerprint without nested operators' data (rebinding legitimately changes the base's parameters)."""
    out = []
    for k, v in items:
        out.append((k, _strip(v)))
    return tuple(out)


def _strip(v):
    if isinstance(v, tuple) and len(v) == 4 and isinstance(v[0], str) and isinstance(v[3], tuple) and isinstance(v[1], tuple):
        return (v[0], "data", v[2], _strip_data(v[3]))  # nested operator struct
    if isinstance(v, tuple) and v and v[0] == "seq":
        return ("seq", tuple(_strip(e) for e in v[1]))
    return v


def _strip_work(st):
    """Structural fingerprint without work-wire information."""
    if isinstance(st, tuple):
        if len(st) == 2 and isinstance(st[0], str) and st[0] in ("@work_wires", "arg:work_wires", "work_wires", "@work_wire_type", "work_wire_type", "arg:work_wire_type"):
            return (st[0], "-")
        if len(st) == 4 and isinstance(st[0], str) and isinstance(st[1], tuple) and isinstance(st[2], tuple) and isinstance(st[3], tuple):
            return (st[0], st[1], "wires", _strip_work(st[3]))  # op.wires of legacy Controlled includes the work wires
        return tuple(_strip_work(e) for e in st)
    return st


def _capture(ctx, qp, a, cls, info, sa, Ma):
    import jax
    from pennylane.core.operator import Operator2
    qp.capture.enable()
    try:
        data, st = jax.tree_util.tree_flatten(a)

        def fn(*args):
            op = jax.tree_util.tree_unflatten(st, args)
            if isinstance(op, Operator2):
                op._bind_primitive()  # pylint: disable=protected-access
                return op.tracer
            return op
        jaxpr = jax.make_jaxpr(fn)(*data)
        b = jax.core.eval_jaxpr(jaxpr.jaxpr, jaxpr.consts, *data)[0]
    except Exception as e:  # noqa: BLE001 - tracing not supported for this class / argument kind (experimental feature)
        ctx.reject(f"capture:{type(e).__name__}")
        ctx.note_add("capture_rejections", f"{cls}:{type(e).__name__}", cap=60)
        return
    finally:
        qp.capture.disable()
    if not isinstance(b, qp.operation.Operator):
        ctx.reject("capture:class-not-captured")  # the class has no capture primitive path: its pytree leaves come back instead
        return
    ctx.case(fingerprint(repr(sa), "capture"), nontrivial=True, cls=cls)
    ctx.ev("rt.capture")
    try:
        ok = type(b) is type(a) and bool(qp.equal(a, b, check_interface=False, check_trainability=False))
    except Exception as e:  # noqa: BLE001
        ok = False
    if not ok:
        mech = f"capture:not-equal:{cls}"
        try:
            if _strip_work(struct(b)) == _strip_work(sa) and struct(b) != sa:
                mech = "capture:drops-work-wires"
            elif Ma is not None:
                Mb = _matrix_or_none(qp, b)
                if Mb is not None and Mb.shape == Ma.shape and np.max(np.abs(Mb - Ma)) < 1e-6:
                    mech = "capture:restructured-same-matrix"
        except Exception:  # noqa: BLE001
            pass
        ctx.violation("rt.capture", f"capture-primitive binding gives {_desc(b)} for a = {info['obj']}", case=dict(info, path="capture"), mech=mech)
        return
    if Ma is not None:
        Mb = _matrix_or_none(qp, b)
        if Mb is None or Mb.shape != Ma.shape or not np.max(np.abs(Mb - Ma)) < 1e-6:  # jax arrays may be float32-converted
            ctx.violation("rt.capture", f"capture-primitive binding changed the matrix for a = {info['obj']}", case=dict(info, path="capture"), mech=f"capture:matrix-changed:{cls}")
