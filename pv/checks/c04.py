"""C04 — Operator equality is an equivalence compatible with hashing and matrices.

Monitors (contract on the real ``qp.equal`` / ``hash`` / ``qp.matrix``; the workload knows how every pair was made):

* ``eq.reflexive``    qp.equal(a, a) is True for every generated operator / measurement process
* ``eq.identical``    objects built from identical data — copy.copy, copy.deepcopy, a reconstruction from the same
                      generator seed, pytree unflatten(flatten) — are equal to the original in both argument orders
* ``hash.identical``  … and have the same Python hash
* ``eq.symmetric``    equal(a, m) == equal(m, a) for single-field mutants m that differ structurally (wire, hyper-parameter,
                      control value, exponent, operand order, observable, another instance of the class) or by a parameter
                      shift δ ∈ {1e-3, 0.5, 2π} (≫ tolerance) or δ ≤ 1e-12 (≪ tolerance) — never in between
* ``eq.implies_matrix`` whenever equal(a, m) is True the matrices agree within c·(rtol·|θ| + atol)
* ``eq.transitive``   sampled triples of near-identical copies (parameter shifts ≤ 1e-12)

Hash equality is demanded only for identical data; hash collisions of *unequal* objects (RX(θ) vs RX(θ+2π): the hash
reduces those angles modulo 2π) are allowed by the statement and never flagged.
"""
import copy

import numpy as np

from pv.ctx import fingerprint

META = {
    "id": "C04",
    "level": "exploration",
    "technique": "runtime contract on qp.equal / hash over generated pairs with known provenance (identical reconstructions, copies, "
                 "single-field mutants) plus a matrix differential for pairs reported equal",
    "level_text": "Operator instances of every concrete class (G-OP zoo), nested expressions (G-EXPR) and measurement processes are "
                  "generated from seeds; identical-data partners are produced by copy, deepcopy, re-generation from the same seed and "
                  "pytree round trip, mutants by changing one field; reflexivity, symmetry, equal=>hash (identical data), "
                  "equal=>same matrix and sampled transitivity are evaluated on the real qp.equal/hash. Held on the pairs observed.",
    "level_note": "The oracle is the provenance of the pair (known to the generator) and numpy matrix comparison; qp.matrix itself is "
                  "trusted here (C01-C03 check it). Default rtol/atol, same-interface data (python/numpy). Objects carrying "
                  "per-instance unique ids (DynamicWire, MeasurementValue of a fresh qp.measure) are not re-generated from seed. "
                  "M-EQHASH is realised in the driver (every qp.equal call of the workload is followed by the hash comparison) rather "
                  "than as an ambient wrapper around qp.equal. Round-trip partners whose data or nested classes were changed by the "
                  "round trip itself are handed to C06 (not identical data). equal=>matrix is skipped for expressions containing a "
                  "fractional power (discontinuous at base eigenvalue -1).",
    "shards": {"quick": 4, "thorough": 16},
    "budget_s": {"quick": 150, "thorough": 300},
    "min_evals": {"quick": 8000, "thorough": 80000},
    "min_nontrivial": {"quick": 2000, "thorough": 20000},
    "deciding": ["eq.reflexive", "eq.identical", "hash.identical", "eq.symmetric", "eq.implies_matrix"],
    "rule": "case = one (object, partner, provenance) pair; distinct = distinct (class, data fingerprint, provenance kind); non-trivial = "
            "partner is a different Python object and (identical-data kinds) the object has parameters/hyper-parameters/nesting, or "
            "(mutant kinds) the mutation really changed a field",
    "assumptions": ["qp.matrix is correct (checked by C01-C03)", "pytree flatten/unflatten is only used as a workload generator"],
}

NO_REBUILD = {"Allocate", "Deallocate", "Conditional"}  # carry per-instance unique ids by design
MAXW = 6


# ------------------------------------------------------------------------------------------------ measurement processes
def _random_obs(qp, rng, w):
    r = rng.random()
    if r < 0.35:
        return getattr(qp, ["PauliX", "PauliY", "PauliZ", "Hadamard"][int(rng.integers(4))])(wires=w[0])
    if r < 0.55:
        return qp.prod(qp.PauliZ(w[0]), getattr(qp, ["PauliX", "PauliY"][int(rng.integers(2))])(w[1]))
    if r < 0.7:
        return qp.sum(qp.s_prod(float(rng.uniform(-1, 1)), qp.PauliX(w[0])), qp.s_prod(float(rng.uniform(-1, 1)), qp.PauliZ(w[1])))
    if r < 0.8:
        A = rng.normal(size=(2, 2))
        return qp.Hermitian(A + A.T, wires=w[0])
    if r < 0.9:
        return qp.Projector([int(x) for x in rng.integers(0, 2, size=2)], wires=w[:2])
    return qp.ops.LinearCombination([float(rng.uniform(-1, 1)), float(rng.uniform(-1, 1))], [qp.PauliX(w[0]), qp.PauliY(w[1]) @ qp.PauliZ(w[0])])


def _random_mp(qp, rng):
    from pv.gen import opzoo
    w = opzoo.wire_pool(rng, 6)
    k = int(rng.integers(14))
    if k == 0:
        return qp.expval(_random_obs(qp, rng, w))
    if k == 1:
        return qp.var(_random_obs(qp, rng, w))
    if k == 2:
        return qp.probs(wires=w[: int(rng.integers(1, 4))])
    if k == 3:
        return qp.probs(op=getattr(qp, ["PauliX", "PauliY", "Hadamard"][int(rng.integers(3))])(wires=w[0])) if rng.random() < 0.5 else qp.sample(wires=w[: int(rng.integers(1, 3))])
    if k == 4:
        return qp.sample(_random_obs(qp, rng, w))
    if k == 5:
        return qp.counts(wires=w[: int(rng.integers(1, 3))], all_outcomes=bool(rng.integers(2)))
    if k == 6:
        return qp.counts(_random_obs(qp, rng, w))
    if k == 7:
        return qp.state() if rng.random() < 0.5 else qp.density_matrix(wires=w[: int(rng.integers(1, 3))])
    if k == 8:
        return qp.vn_entropy(wires=w[: int(rng.integers(1, 3))], log_base=[None, 2, 10][int(rng.integers(3))])
    if k == 9:
        return qp.mutual_info(wires0=w[:1], wires1=w[1:3], log_base=[None, 2][int(rng.integers(2))])
    if k == 10:
        return qp.purity(wires=w[: int(rng.integers(1, 3))])
    if k == 11:
        return qp.classical_shadow(wires=w[: int(rng.integers(1, 3))], seed=int(rng.integers(1, 100)))
    if k == 12:
        return qp.shadow_expval(_random_obs(qp, rng, w), k=int(rng.integers(1, 4)), seed=int(rng.integers(1, 100)))
    # measurement with explicit eigvals on wires
    from pennylane.measurements import ExpectationMP
    n = int(rng.integers(1, 3))
    return ExpectationMP(eigvals=np.array([float(x) for x in rng.uniform(-1, 1, size=2**n)]), wires=qp.wires.Wires(w[:n]))


# ------------------------------------------------------------------------------------------------------------- helpers
def _eq(qp, a, b):
    """(result, exception)"""
    try:
        return bool(qp.equal(a, b)), None
    except Exception as e:  # noqa: BLE001
        return None, e


def _hash(x):
    try:
        return hash(x), None
    except Exception as e:  # noqa: BLE001
        return None, e


def _desc(x):
    try:
        return repr(x)[:260].replace("\n", " ")
    except Exception as e:  # noqa: BLE001
        return f"<{type(x).__name__} repr raised {type(e).__name__}>"


def _is_op(qp, x):
    return isinstance(x, qp.operation.Operator)


def _datafp(qp, x):
    try:
        leaves, _ = qp.pytrees.flatten(x)
        parts = []
        for l in leaves:
            try:
                parts.append(np.round(np.asarray(l, dtype=complex), 9).tobytes())
            except Exception:  # noqa: BLE001
                parts.append(repr(l)[:60])
        return fingerprint(type(x).__name__, _desc(x)[:120], *parts)
    except Exception:  # noqa: BLE001
        return fingerprint(type(x).__name__, _desc(x))


def _type_tree(x, depth=0):
    """Nested class names of an operator expression (through .base / .operands / .obs)."""
    out = [type(x).__name__]
    if depth > 10:
        return out
    for attr in ("base", "obs"):
        try:
            v = getattr(x, attr, None)
        except Exception:  # noqa: BLE001
            v = None
        if v is not None and hasattr(v, "wires"):
            out.append(_type_tree(v, depth + 1))
    try:
        ops = getattr(x, "operands", None)
    except Exception:  # noqa: BLE001
        ops = None
    if isinstance(ops, (list, tuple)):
        out.append([_type_tree(o, depth + 1) for o in ops])
    return out


def _has_frac_pow(x, depth=0):
    if depth > 10:
        return False
    z = getattr(x, "z", None) if type(x).__name__ in ("Pow", "PowOperation", "Pow2") else None
    try:
        if z is not None and float(z) != int(z):
            return True
    except Exception:  # noqa: BLE001
        return True
    for attr in ("base",):
        v = getattr(x, attr, None) if hasattr(type(x), attr) or attr in getattr(x, "__dict__", {}) else None
        if v is not None and hasattr(v, "wires") and _has_frac_pow(v, depth + 1):
            return True
    ops = getattr(x, "operands", None) if hasattr(type(x), "operands") or "operands" in getattr(x, "__dict__", {}) else None
    if isinstance(ops, (list, tuple)):
        return any(_has_frac_pow(o, depth + 1) for o in ops)
    return False


def _same_data(qp, a, b):
    """Harness-side check that two objects really carry identical data (same pytree leaves: shapes and bytes)."""
    try:
        la, _ = qp.pytrees.flatten(a)
        lb, _ = qp.pytrees.flatten(b)
    except Exception:  # noqa: BLE001
        return True
    if len(la) != len(lb) or _type_tree(a) != _type_tree(b):
        return False  # the round trip changed a (nested) class: C06's subject, not an identical-data pair
    for x, y in zip(la, lb):
        try:
            ax, ay = np.asarray(x), np.asarray(y)
            if ax.dtype == object or ay.dtype == object:
                continue
            if ax.shape != ay.shape or ax.tobytes() != ay.tobytes():
                return False
        except Exception:  # noqa: BLE001
            continue
    return True


def _matrix(qp, x, order):
    return np.asarray(qp.matrix(x, wire_order=order))


def _numeric_leaf_indices(leaves):
    out = []
    for i, l in enumerate(leaves):
        if isinstance(l, (bool, np.bool_, int, np.integer, str)) or l is None:
            continue
        try:
            a = np.asarray(l)
        except Exception:  # noqa: BLE001
            continue
        if a.dtype.kind in "fc" and a.size > 0:
            out.append(i)
    return out


def _shift_leaf(qp, a, rng, delta):
    """Copy of ``a`` with one numeric pytree leaf entry shifted by delta (None if not possible)."""
    leaves, struct = qp.pytrees.flatten(a)
    idx = _numeric_leaf_indices(leaves)
    if not idx:
        return None, None
    i = idx[int(rng.integers(len(idx)))]
    arr = np.array(leaves[i], copy=True)
    if arr.ndim == 0:
        new = arr + delta
        new = type(leaves[i])(new) if isinstance(leaves[i], (float, complex)) else new
    else:
        pos = tuple(int(rng.integers(s)) for s in arr.shape)
        arr[pos] = arr[pos] + delta
        new = arr
    leaves = list(leaves)
    old = leaves[i]
    leaves[i] = new
    try:
        with qp.queuing.QueuingManager.stop_recording():
            m = qp.pytrees.unflatten(leaves, struct)
    except Exception:  # noqa: BLE001 - the class validates its data (norms …) or cannot be unflattened: no mutant
        return None, None
    return m, {"leaf": i, "old_absmax": float(np.max(np.abs(np.asarray(old)))), "delta": delta}


def _structural_mutants(qp, a, rng, opzoo):
    """[(kind, mutant)] – each differs from ``a`` in one structural field."""
    out = []
    name = type(a).__name__
    with qp.queuing.QueuingManager.stop_recording():
        try:
            ws = list(a.wires)
        except Exception:  # noqa: BLE001
            ws = []
        if ws and _is_op(qp, a):
            try:
                out.append(("wire", a.map_wires({ws[int(rng.integers(len(ws)))]: "zz_new"})))
            except Exception:  # noqa: BLE001
                pass
            if len(ws) >= 2:
                try:
                    out.append(("wire-swap", a.map_wires({ws[0]: ws[1], ws[1]: ws[0]})))
                except Exception:  # noqa: BLE001
                    pass
        try:
            cv = list(getattr(a, "control_values", []) or [])
            base = getattr(a, "base", None)
            if cv and base is not None and hasattr(a, "control_wires"):
                j = int(rng.integers(len(cv)))
                cv2 = [bool(v) for v in cv]
                cv2[j] = not cv2[j]
                kw = {}
                if len(getattr(a, "work_wires", [])):
                    kw = {"work_wires": a.work_wires, "work_wire_type": a.work_wire_type}
                out.append(("control-value", qp.ctrl(base, control=a.control_wires, control_values=cv2, **kw)))
        except Exception:  # noqa: BLE001
            pass
        try:
            if name in ("Pow", "PowOperation", "Pow2"):
                out.append(("exponent", qp.pow(a.base, a.z + 1)))
            if name == "SProd":
                out.append(("scalar", qp.s_prod(a.scalar + 0.5, a.base)))
            if name in ("Exp", "Evolution"):
                out.append(("coeff", qp.exp(a.base, a.coeff + 0.5) if name == "Exp" else qp.ops.Evolution(a.base, a.param + 0.5)))
            if name in ("Prod", "Sum") and len(a.operands) >= 2:
                ops = list(a.operands)
                out.append(("operand-order", type(a)(*ops[::-1])))
                out.append(("operand-dropped", type(a)(*ops[:-1]) if len(ops) > 2 else ops[0]))
            if name == "PauliRot":
                word = a.hyperparameters["pauli_word"]
                new = ("Y" if word[0] != "Y" else "Z") + word[1:]
                out.append(("pauli-word", qp.PauliRot(a.data[0], new, wires=a.wires)))
            if name == "PCPhase":
                d = a.hyperparameters["dim"]
                d = d[0] if isinstance(d, (tuple, list)) else d
                out.append(("dim", qp.PCPhase(a.data[0], dim=(d + 1) % (2 ** len(a.wires) + 1), wires=a.wires)))
            if name == "MultiControlledX":
                cv = [bool(v) for v in a.control_values]
                cv[0] = not cv[0]
                out.append(("mcx-control-value", qp.MultiControlledX(wires=a.wires, control_values=cv)))
            if name == "IntegerComparator":
                h = a.hyperparameters
                out.append(("geq", qp.IntegerComparator(h["value"], geq=not h["geq"], wires=a.wires)))
            if name in ("Adjoint", "AdjointOperation", "Adjoint2"):
                out.append(("unwrapped", a.base))
            if name in ("BasisState",):
                st = np.array(a.data[0]).copy()
                st[0] = 1 - st[0]
                out.append(("basis-bit", qp.BasisState(st, wires=a.wires)))
            if name in ("BasisStateProjector",):
                st = np.array(a.data[0]).copy()
                st[0] = 1 - st[0]
                out.append(("basis-bit", qp.Projector(st, wires=a.wires)))
        except Exception:  # noqa: BLE001
            pass
    return out


def _mp_mutants(qp, a, rng):
    out = []
    M = qp.measurements
    try:
        if a.obs is not None:
            ws = list(a.obs.wires)
            out.append(("mp-obs-wire", type(a)(obs=a.obs.map_wires({ws[0]: "zz_new"})) if type(a).__name__ not in ("ShadowExpvalMP",) else None))
            out.append(("mp-type", qp.var(a.obs) if isinstance(a, M.ExpectationMP) else qp.expval(a.obs)))
        elif len(a.wires):
            ws = list(a.wires)
            if type(a).__name__ in ("ProbabilityMP", "SampleMP", "DensityMatrixMP", "PurityMP"):
                out.append(("mp-wires", type(a)(wires=qp.wires.Wires(ws[::-1] if len(ws) > 1 else ["zz_new"]))))
            if type(a).__name__ == "CountsMP":
                out.append(("mp-all-outcomes", qp.counts(wires=ws, all_outcomes=not a.all_outcomes)))
            if type(a).__name__ == "VnEntropyMP":
                out.append(("mp-log-base", qp.vn_entropy(wires=ws, log_base=3)))
            if type(a).__name__ == "ExpectationMP" and a.eigvals() is not None:
                ev = np.array(a.eigvals()).copy()
                ev[0] += 0.5
                out.append(("mp-eigvals", M.ExpectationMP(eigvals=ev, wires=a.wires)))
                out.append(("mp-eigvals-wires", M.ExpectationMP(eigvals=np.array(a.eigvals()), wires=qp.wires.Wires(["zz_new"] + ws[1:]))))
    except Exception:  # noqa: BLE001
        pass
    return [(k, m) for k, m in out if m is not None]


# ------------------------------------------------------------------------------------------------------------ the check
def _limit_repeats(ctx, per_mech=2):
    """Record at most ``per_mech`` witnesses per (monitor, mechanism) and shard, so that frequent known mechanisms cannot
    exhaust the bus' witness buffer and hide a new one (all occurrences are still counted)."""
    orig, seen = ctx.violation, {}

    def violation(monitor, message, case=None, mech=None, observed=None, expected=None):
        k = (monitor, mech)
        seen[k] = seen.get(k, 0) + 1
        if seen[k] <= per_mech:
            orig(monitor, message, case=case, mech=mech, observed=observed, expected=expected)
        else:
            ctx.nviolations += 1
            ctx.count("witnesses_not_recorded_again")
    ctx.violation = violation


def run(ctx):
    import pennylane as qp

    _limit_repeats(ctx)

    from pv.gen import opzoo

    ctx.note("import_s", round(ctx.elapsed(), 1))
    classes = [c.__name__ for c in opzoo.classes(qp) if c.__name__ != "ParametrizedEvolution" or not ctx.quick]
    per_class = 4 if ctx.quick else 40
    work = [("zoo", n) for _ in range(per_class) for n in classes]
    n_expr, n_mp = (1200, 600) if ctx.quick else (16000, 8000)
    work += [("expr", None)] * n_expr + [("mp", None)] * n_mp
    for i, (src, name) in enumerate(work):
        if i % ctx.nshards != ctx.shard:
            continue
        if not ctx.more():
            break
        if ctx.only_case is not None and i != ctx.only_case:
            continue
        ctx.case_index = i
        rng = ctx.case_rng(i)
        seed = [int(x) for x in rng.integers(0, 2**31 - 1, size=3)]
        batch = None
        if src == "zoo":
            if opzoo.supports_broadcasting(qp, name) and rng.random() < 0.2:
                batch = int(rng.integers(1, 4))

            def mk(seed=seed, name=name, batch=batch):
                return opzoo.make(qp, name, np.random.default_rng(seed), batch=batch)
        elif src == "expr":
            depth = int(rng.integers(1, 4))
            herm = bool(rng.random() < 0.3)

            def mk(seed=seed, depth=depth, herm=herm):
                return opzoo.random_expr(qp, np.random.default_rng(seed), depth, max_wires=3, hermitian=herm)[0]
        else:
            def mk(seed=seed):
                with qp.queuing.QueuingManager.stop_recording():
                    return _random_mp(qp, np.random.default_rng(seed))
        try:
            a = mk()
        except opzoo.NoRecipe as e:
            ctx.uncovered(name, str(e))
            continue
        except opzoo.ExprBuildError:
            ctx.reject("expr-constructor-raised")  # constructor errors are C03's subject
            continue
        except Exception as e:  # noqa: BLE001
            ctx.inconclusive_case(f"{src}:{name}: generator raised {type(e).__name__}: {e}")
            continue
        cls = type(a).__name__
        info = {"source": src, "class": cls, "seed": seed, "batch": batch, "obj": _desc(a)}
        try:
            _one(ctx, qp, opzoo, a, mk, src, cls, info, rng)
        except Exception as e:  # noqa: BLE001
            import traceback
            ctx.inconclusive_case(f"{cls}: harness: {type(e).__name__}: {e} @ {traceback.format_exc()[-300:]}")
    ctx.note("total_s", round(ctx.elapsed(), 1))


def _raise_mech(what, cls, e):
    import os
    import traceback
    site = "?"
    for fr in reversed(traceback.extract_tb(e.__traceback__)):
        if "/pennylane/" in fr.filename:
            site = f"{os.path.basename(fr.filename)}:{fr.name}"
            break
    return f"{what}-raises:{cls}:{type(e).__name__}@{site}"


def _one(ctx, qp, opzoo, a, mk, src, cls, info, rng):
    isop = _is_op(qp, a)
    dfp = _datafp(qp, a)
    # ---------------------------------------------------------------- reflexivity
    ctx.ev("eq.reflexive")
    r, e = _eq(qp, a, a)
    if e is not None:
        ctx.violation("eq.reflexive", f"qp.equal(a, a) raised {type(e).__name__}: {str(e)[:200]} for a = {info['obj']}", case=info, mech=_raise_mech("equal(a,a)", cls, e))
        ctx.case(fingerprint(dfp, "reflexive"), True, cls=cls, sample=info)
        return
    if r is not True:
        ctx.violation("eq.reflexive", f"qp.equal(a, a) is {r} for a = {info['obj']}", case=info, mech=f"irreflexive:{cls}")
    ha, e = _hash(a)
    if e is not None:
        ctx.ev("hash.identical")
        ctx.violation("hash.identical", f"hash(a) raised {type(e).__name__}: {str(e)[:200]} for a = {info['obj']}", case=info, mech=_raise_mech("hash", cls, e))
    nontriv_obj = True
    try:
        if isop:
            nontriv_obj = bool(len(a.data) or a.arithmetic_depth or any(True for _ in a.hyperparameters))
    except Exception:  # noqa: BLE001
        pass

    # ---------------------------------------------------------------- identical-data partners
    partners = []
    for kind, fn in (("copy", lambda: copy.copy(a)), ("deepcopy", lambda: copy.deepcopy(a)),
                     ("rebuild", None if cls in NO_REBUILD else mk),
                     ("pytree", lambda: qp.pytrees.unflatten(*qp.pytrees.flatten(a)))):
        if fn is None:
            continue
        try:
            with qp.queuing.QueuingManager.stop_recording():
                b = fn()
        except Exception as e:  # noqa: BLE001 - copying / round trips are C06's subject
            ctx.count(f"partner-unavailable:{kind}")
            ctx.note_add("partner_unavailable", f"{kind}:{cls}:{type(e).__name__}", cap=40)
            continue
        if kind in ("pytree", "rebuild") and not _same_data(qp, a, b):
            # the round trip itself changed the data (C06's subject): not an identical-data pair
            ctx.count(f"partner-data-differs:{kind}")
            ctx.note_add("partner_data_differs", f"{kind}:{cls}", cap=40)
            continue
        partners.append((kind, b))
    for kind, b in partners:
        pinfo = dict(info, partner=kind, partner_obj=_desc(b))
        ctx.case(fingerprint(dfp, kind), nontrivial=bool(nontriv_obj and b is not a), cls=cls, sample=pinfo)
        for x, y, order in ((a, b, "a,b"), (b, a, "b,a")):
            ctx.ev("eq.identical")
            r, e = _eq(qp, x, y)
            if e is not None:
                ctx.violation("eq.identical", f"qp.equal({order}) raised {type(e).__name__}: {str(e)[:200]}; b = {kind} of a = {info['obj']}", case=pinfo,
                              mech=_raise_mech(f"equal({kind})", cls, e))
                break
            if r is not True:
                why = ""
                try:
                    qp.assert_equal(x, y)
                except AssertionError as ae:
                    why = str(ae)[:300]
                except Exception:  # noqa: BLE001
                    pass
                ctx.violation("eq.identical", f"qp.equal({order}) is False for b = {kind} of a; a = {info['obj']}; b = {_desc(b)}; reason: {why}", case=pinfo,
                              mech=f"identical-unequal:{kind}:{cls}")
                break
        if ha is not None:
            ctx.ev("hash.identical")
            hb, e = _hash(b)
            if e is not None:
                ctx.violation("hash.identical", f"hash({kind} of a) raised {type(e).__name__}: {str(e)[:200]}", case=pinfo, mech=_raise_mech(f"hash({kind})", cls, e))
            elif hb != ha:
                ctx.violation("hash.identical", f"hash differs between a and its {kind}: a = {info['obj']}; b = {_desc(b)}", case=pinfo, mech=f"hash-differs:{kind}:{cls}")

    # ---------------------------------------------------------------- mutants
    mutants = []
    for delta in (1e-3, 0.5, 2 * np.pi, 1e-13):
        m, minfo = _shift_leaf(qp, a, rng, delta)
        if m is not None:
            mutants.append((f"param+{delta:g}", m, minfo))
    if isop:
        mutants += [(k, m, None) for k, m in _structural_mutants(qp, a, rng, opzoo)]
        if src == "zoo" and cls not in NO_REBUILD:
            try:
                other = opzoo.make(qp, type(a), np.random.default_rng([7] + info["seed"]))
                mutants.append(("other-instance", other, None))
            except Exception:  # noqa: BLE001
                pass
    else:
        mutants += [(k, m, None) for k, m in _mp_mutants(qp, a, rng)]
    Ma = None
    for kind, m, minfo in mutants:
        minf = dict(info, mutant=kind, mutant_obj=_desc(m), shift=minfo)
        ctx.ev("eq.symmetric")
        r1, e1 = _eq(qp, a, m)
        r2, e2 = _eq(qp, m, a)
        ctx.case(fingerprint(dfp, kind), nontrivial=True, cls=cls, sample=minf)
        if e1 is not None or e2 is not None:
            e = e1 or e2
            ctx.violation("eq.symmetric", f"qp.equal(a, m) raised {type(e).__name__}: {str(e)[:200]}; m = {kind} of a = {info['obj']}", case=minf,
                          mech=_raise_mech("equal(mutant)", cls, e))
            continue
        if r1 != r2:
            ctx.violation("eq.symmetric", f"qp.equal(a, m) = {r1} but qp.equal(m, a) = {r2}; m = {kind} of a; a = {info['obj']}; m = {_desc(m)}", case=minf,
                          mech=f"asymmetric:{kind.split('+')[0]}:{cls}")
            continue
        ctx.count(f"mutant:{kind}:{'equal' if r1 else 'unequal'}")
        if r1 and isop and _has_frac_pow(a):
            # the principal fractional power is discontinuous at base eigenvalue -1 (excluded from the matrix properties by
            # their statements): no Lipschitz bound exists there
            ctx.count("implies_matrix:fractional-pow-skipped")
            continue
        if r1 and isop:
            # equal ⇒ same linear map up to the tolerance-implied bound
            try:
                U = list(dict.fromkeys(list(a.wires) + list(m.wires)))
                if len(U) > MAXW or getattr(a, "batch_size", None) is not None:
                    continue
                if Ma is None or Ma[0] != U:
                    Ma = (U, _matrix(qp, a, U))
                Mm = _matrix(qp, m, U)
            except Exception:  # noqa: BLE001 - no matrix: nothing to compare
                ctx.count("implies_matrix:no-matrix")
                continue
            ctx.ev("eq.implies_matrix")
            leaves, _ = qp.pytrees.flatten(a)
            idx = _numeric_leaf_indices(leaves)
            amax = max([float(np.max(np.abs(np.asarray(leaves[i])))) for i in idx] + [1.0])
            nparam = max(1, sum(int(np.asarray(leaves[i]).size) for i in idx))
            scale = max(1.0, float(np.max(np.abs(Ma[1]))) if Ma[1].size else 1.0)
            bound = 4.0 * nparam * (1e-5 * amax + 1e-9) * scale + 1e-9
            err = float(np.max(np.abs(Ma[1] - Mm))) if Ma[1].shape == Mm.shape else float("inf")
            if not err <= bound:
                ctx.violation("eq.implies_matrix", f"qp.equal(a, m) is True but the matrices differ by {err:.3e} (> bound {bound:.1e}); m = {kind} of a; "
                              f"a = {info['obj']}; m = {_desc(m)}", case=minf, mech=f"equal-but-different-matrix:{kind.split('+')[0]}:{cls}")

    # ---------------------------------------------------------------- transitivity on near-identical copies
    b, _ = _shift_leaf(qp, a, rng, 1e-13)
    if b is not None:
        c, _ = _shift_leaf(qp, b, rng, 1e-13)
        if c is not None:
            ctx.ev("eq.transitive")
            rab, _e1 = _eq(qp, a, b)
            rbc, _e2 = _eq(qp, b, c)
            rac, _e3 = _eq(qp, a, c)
            if rab and rbc and rac is False:
                ctx.violation("eq.transitive", f"equal(a,b) and equal(b,c) but not equal(a,c) for shifts of 1e-13; a = {info['obj']}", case=info, mech=f"intransitive:{cls}")
