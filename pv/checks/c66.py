"""C66 — Local decomposition-rule contexts are isolated.

Deciding monitor **M-CTX** (history + per-agent sequential model).  Agents (real threads, asyncio tasks, and
"fibers" = ``contextvars.Context`` objects stepped in an arbitrary order inside one thread) each run a random program
of {enter ``local_decomps()``, exit, exit-by-exception, ``add_decomps(name, <unique rule>)``, ``_fix_decomp(name,
<unique rule>)``, ``list_decomps(name)``, ``has_decomp(name)``, ``get_fixed_decomp(name)``} over a few operator names
(to force contention).  Every rule carries a unique name that says which agent minted it, so every observation
identifies its writer.  Each observation is compared with the agent's own model — a stack of snapshot dicts, copied
on enter, dropped on exit (also on exit by exception) — and must therefore contain no rule minted by another agent or
by a context that has already exited.  At quiescence the registry seen from the main thread outside any context must
equal the pre-run snapshot by rule identity.

Interleavings are forced four ways: ``threading.Barrier`` sync points placed at random positions of the thread
programs (contexts span them), ``sys.setswitchinterval(1e-6)``, ``sys.monitoring`` LINE events restricted to the code
objects of ``decomposition_rule.py`` that inject ``time.sleep(0)`` with a seeded probability, and deterministic
fiber / asyncio schedules.  A logical clock (``itertools.count``) stamps every operation so that the offline checker
can *prove* overlap: an observation is "contended" when another agent had an open context holding at least one added
rule for the whole duration of the observation.
"""
from __future__ import annotations

import itertools
import sys
import threading
import time

from pv.ctx import fingerprint

META = {
    "id": "C66",
    "level": "exploration",
    "technique": "recorded multi-agent histories (threads / asyncio tasks / contextvars fibers) of local_decomps contexts checked offline "
                 "against a per-agent snapshot-stack model; unique rule ids identify the writer of everything observed; forced interleavings "
                 "(barriers, 1 µs switch interval, sys.monitoring LINE-event yield injection)",
    "level_text": "Each history runs 2-8 agents with nested local contexts, adds and fixes over 3-5 shared operator names; every list/has/"
                  "get_fixed observation is compared with the agent's own sequential model, and the global registry is compared with its "
                  "pre-run snapshot after every history. Overlap of dirty contexts in different threads is measured with a logical clock and "
                  "reported (overlapping_contexts_observed, contended_observations).",
    "level_note": "Agents only add/fix inside their own local contexts (outside any context add_decomps is documented to be global). Threads "
                  "started inside a context do not inherit it (Python semantics, encoded in the model). Not driven: the enable_graph "
                  "ContextVar toggle (a different registry, outside the statement), mutation of shared rule objects, sub-interpreters / "
                  "free-threaded builds. Thread schedules are not reproducible; fiber and asyncio schedules are.",
    "design_ref": "7/C66",
    "shards": {"quick": 4, "thorough": 16},
    "budget_s": {"quick": 60, "thorough": 420},
    "min_evals": {"quick": 5000, "thorough": 50000},
    "min_nontrivial": {"quick": 60, "thorough": 1000},
    "deciding": ["ctx.view", "ctx.global_restored", "ctx.graph_threads"],
    "rule": "case = one multi-agent history (kind, agent programs); distinct = fingerprint of the programs; non-trivial = at least one "
            "observation was made while ANOTHER agent provably had an open context holding an added rule (logical-clock overlap)",
    "assumptions": ["itertools.count() is atomic under the GIL (logical clock)",
                    "a rule's unique name identifies its writer"],
}

NAME_POOL = ["CRX", "Hadamard", "SWAP", "PvAlpha", "PvBeta"]


class PvBoom(Exception):
    pass


def _impl(*_, **__):  # shared implementation of all harness rules (never executed)
    return None


# ============================================================================ program generation
def gen_block(rng, names, depth, budget, top=False):
    """Structured program: list of ops.  ('ctx', body, raises) is a with-block (wrapped in try/except when it raises)."""
    out = []
    n = int(rng.integers(2, 7))
    for _ in range(n):
        if budget[0] <= 0:
            break
        budget[0] -= 1
        r = rng.random()
        nm = names[int(rng.integers(len(names)))]
        if r < 0.30 and depth < 4:
            body = gen_block(rng, names, depth + 1, budget)
            raises = rng.random() < 0.3
            if raises:
                body.append(("raise",))
            out.append(("ctx", body, raises))
        elif r < 0.55 and depth > 0:
            out.append(("add", nm))
        elif r < 0.63 and depth > 0:
            out.append(("fix", nm))
        elif r < 0.85:
            out.append(("list", nm))
        elif r < 0.93:
            out.append(("has", nm))
        else:
            out.append(("getfixed", nm))
    if top and not any(o[0] == "ctx" for o in out):
        out.append(("ctx", [("add", names[0]), ("list", names[0])], False))
    return out


def insertion_points(block, acc):
    for i in range(len(block) + 1):
        if i > 0 and block[i - 1][0] == "raise":
            break
        acc.append((block, i))
        if i < len(block) and block[i][0] == "ctx":
            insertion_points(block[i][1], acc)
    return acc


def add_syncs(rng, prog, nsync):
    """Insert exactly nsync ('sync',) ops at random live positions (execution order is irrelevant: every live position
    is executed exactly once because programs have no branches; code after a raise is never generated)."""
    for _ in range(nsync):
        pts = insertion_points(prog, [])
        blk, i = pts[int(rng.integers(len(pts)))]
        blk.insert(i, ("sync",))
    return prog


def flat_program(rng, names, nops):
    """Flat push/pop program for fibers (explicit __enter__/__exit__)."""
    out, depth = [], 0
    for _ in range(nops):
        r = rng.random()
        nm = names[int(rng.integers(len(names)))]
        if r < 0.17 and depth < 4:
            out.append(("enter",))
            depth += 1
        elif r < 0.30 and depth > 0:
            out.append(("exit", bool(rng.random() < 0.3)))
            depth -= 1
        elif r < 0.55 and depth > 0:
            out.append(("add", nm))
        elif r < 0.62 and depth > 0:
            out.append(("fix", nm))
        elif r < 0.86:
            out.append(("list", nm))
        elif r < 0.94:
            out.append(("has", nm))
        else:
            out.append(("getfixed", nm))
    while depth > 0:
        out.append(("exit", False))
        depth -= 1
    return out


def jsonable_prog(p):
    return [[o[0], jsonable_prog(o[1]), o[2]] if o[0] == "ctx" else list(o) for o in p]


# ============================================================================ the per-agent model and recorder
class Agent:
    """Runs ops against the real registry, keeps the snapshot-stack model and a log for the offline checker."""

    def __init__(self, env, aid, base_rules, base_fixed):
        self.env = env
        self.aid = aid
        self.nrule = 0
        # model: stack of (rules: name -> list of rule names, fixed: name -> rule name)
        self.stack = [({k: list(v) for k, v in base_rules.items()}, dict(base_fixed))]
        self.obs = []  # (t0, t1, kind, name, observed, expected, depth)
        self.intervals = []  # [enter_tick, first_add_tick or None, exit_tick or None]
        self.open = []  # indices into intervals
        self.cms = []  # open context managers (fibers)
        self.error = None
        self.trace = []  # (tick, op) for interleaving fingerprints

    # ---- model transitions
    def m_enter(self):
        r, f = self.stack[-1]
        self.stack.append(({k: list(v) for k, v in r.items()}, dict(f)))

    def m_exit(self):
        self.stack.pop()

    def m_view(self, name):
        r, f = self.stack[-1]
        if name in f:
            return [f[name]]
        return list(r.get(name, []))

    def new_rule(self, tag):
        self.nrule += 1
        uid = f"pv_{self.env.hid}_{self.aid}_{tag}{self.nrule}"
        rule = self.env.DR.DecompositionRule(_impl, resources={}, name=uid)
        self.env.rules[uid] = rule
        return uid, rule

    # ---- real + model, one op
    def tick(self):
        return next(self.env.clock)

    def do_enter_model_and_log(self):
        self.m_enter()
        self.intervals.append([self.tick(), None, None])
        self.open.append(len(self.intervals) - 1)

    def do_exit_model_and_log(self):
        self.intervals[self.open.pop()][2] = self.tick()
        self.m_exit()

    def do_simple(self, op):
        DR = self.env.DR
        k = op[0]
        if k == "add":
            uid, rule = self.new_rule("a")
            DR.add_decomps(op[1], rule)
            t = self.tick()
            self.stack[-1][0].setdefault(op[1], []).append(uid)
            for i in self.open:
                if self.intervals[i][1] is None:
                    self.intervals[i][1] = t
            self.trace.append((t, "add"))
        elif k == "fix":
            uid, rule = self.new_rule("f")
            DR._fix_decomp(op[1], rule)  # pylint: disable=protected-access
            t = self.tick()
            self.stack[-1][1][op[1]] = uid
            for i in self.open:
                if self.intervals[i][1] is None:
                    self.intervals[i][1] = t
            self.trace.append((t, "fix"))
        elif k == "list":
            t0 = self.tick()
            coll = DR.list_decomps(op[1])
            observed = [(r.name, id(r)) for r in coll]
            t1 = self.tick()
            self.obs.append((t0, t1, "list", op[1], observed, self.m_view(op[1]), len(self.stack) - 1))
            self.trace.append((t0, "list"))
        elif k == "has":
            t0 = self.tick()
            h = bool(DR.has_decomp(op[1]))
            t1 = self.tick()
            self.obs.append((t0, t1, "has", op[1], h, len(self.m_view(op[1])) > 0, len(self.stack) - 1))
        elif k == "getfixed":
            t0 = self.tick()
            r = DR.get_fixed_decomp(op[1])
            t1 = self.tick()
            self.obs.append((t0, t1, "getfixed", op[1], None if r is None else (r.name, id(r)),
                             self.stack[-1][1].get(op[1]), len(self.stack) - 1))
        else:
            raise AssertionError(k)

    # ---- structured execution (threads / asyncio use the same recursion; asyncio has its own async copy below)
    def run_block(self, block):
        DR = self.env.DR
        for op in block:
            k = op[0]
            if k == "ctx":
                try:
                    with DR.local_decomps():
                        self.do_enter_model_and_log()
                        try:
                            self.run_block(op[1])
                        finally:
                            self.do_exit_model_and_log()
                except PvBoom:
                    pass
            elif k == "raise":
                raise PvBoom()
            elif k == "sync":
                self.env.barrier.wait(timeout=60)
            elif k == "yield":
                time.sleep(0)
            else:
                self.do_simple(op)

    async def arun_block(self, block):
        import asyncio

        DR = self.env.DR
        for op in block:
            k = op[0]
            if self.env.arng.random() < 0.6:
                await asyncio.sleep(0)
            if k == "ctx":
                try:
                    with DR.local_decomps():
                        self.do_enter_model_and_log()
                        try:
                            await self.arun_block(op[1])
                        finally:
                            self.do_exit_model_and_log()
                except PvBoom:
                    pass
            elif k == "raise":
                raise PvBoom()
            elif k in ("sync", "yield"):
                await asyncio.sleep(0)
            else:
                self.do_simple(op)

    # ---- flat step (fibers): executed inside this fiber's own contextvars.Context
    def step(self, op):
        DR = self.env.DR
        k = op[0]
        if k == "enter":
            cm = DR.local_decomps()
            cm.__enter__()
            self.cms.append(cm)
            self.do_enter_model_and_log()
        elif k == "exit":
            cm = self.cms.pop()
            if op[1]:
                e = PvBoom()
                cm.__exit__(PvBoom, e, None)
            else:
                cm.__exit__(None, None, None)
            self.do_exit_model_and_log()
        else:
            self.do_simple(op)


class Env:
    def __init__(self, DR, hid, clock):
        self.DR, self.hid, self.clock = DR, hid, clock
        self.rules = {}
        self.barrier = None
        self.arng = None


# ============================================================================ offline checker
def owner_of(rule_name):
    # pv_<hid>_<aid>_<tag><n>
    p = rule_name.split("_")
    return (p[1], p[2]) if len(p) >= 4 and p[0] == "pv" else None


def check_history(ctx, env, agents, kind, case, thread_agents=True):
    """Compare every observation with the agent's model; measure provable overlap.  Returns (#contended observations)."""
    # dirty context intervals of every agent: (agent id, first_add_tick, exit_tick)
    dirty = []
    for a in agents:
        for ent, first_add, ext in a.intervals:
            if first_add is not None:
                dirty.append((a.aid, first_add, ext if ext is not None else float("inf")))
    contended = 0
    overlapping_ctx = 0
    for a in agents:
        for ent, first_add, ext in a.intervals:
            if first_add is None:
                continue
            e = ext if ext is not None else float("inf")
            if any(b != a.aid and fa < e and first_add < x for b, fa, x in dirty):
                overlapping_ctx += 1
    for a in agents:
        for (t0, t1, k, name, observed, expected, depth) in a.obs:
            ctx.ev("ctx.view")
            if any(b != a.aid and fa < t0 and x > t1 for b, fa, x in dirty):
                contended += 1
            if k == "list":
                onames = [n for n, _ in observed]
                if onames == expected:
                    # identity: harness rules must be the very objects that were added
                    bad = [n for n, i in observed if n in env.rules and id(env.rules[n]) != i]
                    if bad:
                        ctx.violation("ctx.view", f"[{kind}] agent {a.aid}: list_decomps({name}) returned a different object for rule {bad[0]}",
                                      case=case, mech="rule-identity")
                    continue
                extra = [n for n in onames if n not in expected]
                missing = [n for n in expected if n not in onames]
                mech = "view-order"
                msg = "order differs"
                if extra:
                    own = owner_of(extra[0])
                    if own is None:
                        mech, msg = "unknown-rule-visible", f"unknown rule {extra[0]} visible"
                    elif own[1] != str(a.aid):
                        mech, msg = "leak-from-concurrent-context", f"rule {extra[0]} minted by agent {own[1]} is visible to agent {a.aid}"
                    elif depth == 0:
                        mech, msg = "leak-after-exit", f"own rule {extra[0]} still visible outside every local context"
                    else:
                        mech, msg = "leak-from-exited-context", f"own rule {extra[0]} from an exited (inner) context still visible at depth {depth}"
                elif missing:
                    mech, msg = "rule-missing", f"rule {missing[0]} added/fixed in this context (or inherited) is not visible"
                ctx.violation("ctx.view", f"[{kind}] agent {a.aid} depth {depth}: list_decomps({name}): {msg}",
                              case=case, mech=mech, observed=onames[-8:], expected=expected[-8:])
            elif k == "has":
                if observed != expected:
                    ctx.violation("ctx.view", f"[{kind}] agent {a.aid} depth {depth}: has_decomp({name}) = {observed}, model says {expected}",
                                  case=case, mech="has-mismatch")
            else:
                oname = None if observed is None else observed[0]
                if oname != expected:
                    own = owner_of(oname) if oname else None
                    mech = "fixed-leak-from-concurrent-context" if own and own[1] != str(a.aid) else \
                        ("fixed-missing" if oname is None else "fixed-leak-after-exit")
                    ctx.violation("ctx.view", f"[{kind}] agent {a.aid} depth {depth}: get_fixed_decomp({name}) = {oname}, model says {expected}",
                                  case=case, mech=mech)
    ctx.count(f"contended_observations.{kind}", contended)
    ctx.count(f"overlapping_contexts.{kind}", overlapping_ctx)
    return contended, overlapping_ctx


def global_view(DR, names):
    rules = {n: [(r.name, id(r)) for r in DR.list_decomps(n)] for n in names}
    fixed = {n: DR.get_fixed_decomp(n) for n in names}
    return rules, fixed


def check_global(ctx, DR, names, snap, kind, case):
    ctx.ev("ctx.global_restored")
    rules, fixed = global_view(DR, names)
    ok = True
    for n in names:
        if rules[n] != snap[0][n]:
            extra = [x for x, _ in rules[n] if x not in [y for y, _ in snap[0][n]]]
            ctx.violation("ctx.global_restored", f"[{kind}] global registry of {n} differs from its pre-run snapshot after the history"
                          + (f": rule {extra[0]} leaked into it" if extra else ""), case=case,
                          mech="leak-into-global" if extra else "global-changed",
                          observed=[x for x, _ in rules[n]][-6:], expected=[x for x, _ in snap[0][n]][-6:])
            ok = False
        if fixed[n] is not None:
            ctx.violation("ctx.global_restored", f"[{kind}] a fixed rule for {n} ({fixed[n].name}) leaked into the global registry",
                          case=case, mech="fixed-leak-into-global")
            ok = False
    if DR._decompositions_var.get() is not DR._decompositions_private:  # pylint: disable=protected-access
        ctx.violation("ctx.global_restored", f"[{kind}] the main thread's registry variable does not point at the global registry "
                                             "outside every context", case=case, mech="contextvar-not-reset")
        ok = False
    return ok


def repair_global(DR, names, snap):
    """After a violation: put the global registry back so that one defect does not cascade."""
    try:
        reg = DR._decompositions_private  # pylint: disable=protected-access
        for n in names:
            keep = [nm for nm, _ in snap[0][n]]
            coll = reg[DR.to_name(n)] if hasattr(DR, "to_name") else reg[n]
            for nm in list(coll._decomps):  # pylint: disable=protected-access
                if nm not in keep:
                    del coll._decomps[nm]  # pylint: disable=protected-access
        DR._fixed_decomps_private.clear()  # pylint: disable=protected-access
    except Exception:  # noqa: BLE001
        pass


# ============================================================================ yield injection
class YieldInjector:
    TOOL = 3

    def __init__(self, DR, seed, prob):
        self.ok = False
        self.count = 0
        self.injected = 0
        self.prob_q = int(prob * 1024)
        self.state = (seed * 2654435761 + 12345) & 0xFFFFFFFF
        self.codes = []
        mon = getattr(sys, "monitoring", None)
        if mon is None:
            return
        fname = DR.__file__

        def walk(code):
            if code.co_filename == fname and code not in self.codes:
                self.codes.append(code)
                for c in code.co_consts:
                    if hasattr(c, "co_code"):
                        walk(c)

        for obj in list(vars(DR).values()):
            f = getattr(obj, "__wrapped__", obj)
            if hasattr(f, "__code__"):
                walk(f.__code__)
            if isinstance(obj, type) and obj.__module__ == DR.__name__:
                for m in vars(obj).values():
                    m = getattr(m, "__func__", m)
                    m = getattr(m, "fget", m)
                    if hasattr(m, "__code__"):
                        walk(m.__code__)
        reg = getattr(DR.list_decomps, "registry", {})
        for f in reg.values():
            if hasattr(f, "__code__"):
                walk(f.__code__)
        try:
            if mon.get_tool(self.TOOL) is not None:
                return
            mon.use_tool_id(self.TOOL, "pv-c66")
            mon.register_callback(self.TOOL, mon.events.LINE, self._cb)
            for c in self.codes:
                mon.set_local_events(self.TOOL, c, mon.events.LINE)
            self.ok = True
        except Exception:  # noqa: BLE001
            self.ok = False

    def _cb(self, code, line):
        self.count += 1
        s = (self.state * 1103515245 + 12345) & 0x7FFFFFFF
        self.state = s
        if (s >> 8) % 1024 < self.prob_q:
            self.injected += 1
            time.sleep(0)

    def close(self):
        if not self.ok:
            return
        mon = sys.monitoring
        try:
            for c in self.codes:
                mon.set_local_events(self.TOOL, c, 0)
            mon.register_callback(self.TOOL, mon.events.LINE, None)
            mon.free_tool_id(self.TOOL)
        except Exception:  # noqa: BLE001
            pass
        self.ok = False


# ============================================================================ history kinds
def history_threads(ctx, DR, rng, hid, clock, names, snap, in_parent):
    T = int(rng.integers(2, 9 if not ctx.quick else 7))
    env = Env(DR, hid, clock)
    nsync = int(rng.integers(0, 5))
    env.barrier = threading.Barrier(T)
    base_rules = {n: [x for x, _ in snap[0][n]] for n in names}
    progs = []
    for t in range(T):
        p = gen_block(rng, names, 0, [int(rng.integers(15, 45))], top=True)
        add_syncs(rng, p, nsync)
        progs.append(p)
    agents = [Agent(env, t, base_rules, {}) for t in range(T)]
    case = {"kind": "threads-in-parent-context" if in_parent else "threads", "threads": T, "syncs": nsync,
            "programs": [jsonable_prog(p) for p in progs][:3]}

    def body(a, p):
        try:
            a.run_block(p)
        except threading.BrokenBarrierError:
            a.error = "barrier"
        except Exception as e:  # noqa: BLE001 - exception of the real code
            a.error = f"{type(e).__name__}: {e}"
            try:
                env.barrier.abort()
            except Exception:  # noqa: BLE001
                pass

    def launch():
        ths = [threading.Thread(target=body, args=(a, p), daemon=True) for a, p in zip(agents, progs)]
        for th in ths:
            th.start()
        for th in ths:
            th.join(120)
        return any(th.is_alive() for th in ths)

    parent = None
    if in_parent:
        # threads started inside a local context of the main thread must not inherit it, and must not leak into it
        parent = Agent(env, "main", base_rules, {})
        with DR.local_decomps():
            parent.do_enter_model_and_log()
            parent.do_simple(("add", names[0]))
            parent.do_simple(("fix", names[-1]))
            hung = launch()
            for n in names:
                parent.do_simple(("list", n))
                parent.do_simple(("getfixed", n))
            parent.do_exit_model_and_log()
    else:
        hung = launch()
    fp = fingerprint(repr(case["kind"]), repr([jsonable_prog(p) for p in progs]))
    errs = [a.error for a in agents if a.error]
    if hung or errs:
        real = [e for e in errs if e != "barrier"]
        if real:
            ctx.violation("ctx.view", f"[{case['kind']}] exception escaped the registry API in a thread: {real[0]}", case=case,
                          mech="exception:" + real[0].split(":")[0])
        else:
            ctx.inconclusive_case(f"thread history {hid}: hung={hung} errors={errs[:2]}")
        ctx.case(fp, nontrivial=False, cls=case["kind"])
        return
    allag = agents + ([parent] if parent else [])
    cont, over = check_history(ctx, env, allag, case["kind"], case)
    check_global(ctx, DR, names, snap, case["kind"], case) or repair_global(DR, names, snap)
    # interleaving fingerprint: global order of (agent, op) pairs by logical time
    seq = sorted((t, a.aid, k) for a in agents for t, k in a.trace)
    ctx.note_add("_il", fingerprint(repr([(a, k) for _, a, k in seq])), cap=100000)
    ctx.case(fp, nontrivial=cont > 0, cls=case["kind"],
             sample={"kind": case["kind"], "threads": T, "syncs": nsync, "contended_observations": cont,
                     "overlapping_dirty_contexts": over, "program0": jsonable_prog(progs[0])[:6]})
    return cont, over


def history_fibers(ctx, DR, rng, hid, clock, names, snap):
    import contextvars

    K = int(rng.integers(2, 7))
    env = Env(DR, hid, clock)
    base_rules = {n: [x for x, _ in snap[0][n]] for n in names}
    progs = [flat_program(rng, names, int(rng.integers(10, 40))) for _ in range(K)]
    agents = [Agent(env, k, base_rules, {}) for k in range(K)]
    cvs = [contextvars.copy_context() for _ in range(K)]
    pcs = [0] * K
    sched = []
    case = {"kind": "fibers", "fibers": K, "programs": [[list(o) for o in p] for p in progs][:3]}
    live = [k for k in range(K) if progs[k]]
    err = None
    while live:
        k = live[int(rng.integers(len(live)))]
        burst = int(rng.integers(1, 4))
        for _ in range(burst):
            if pcs[k] >= len(progs[k]):
                break
            op = progs[k][pcs[k]]
            pcs[k] += 1
            sched.append(k)
            try:
                cvs[k].run(agents[k].step, op)
            except Exception as e:  # noqa: BLE001
                err = f"{type(e).__name__}: {e}"
                live = []
                break
        if live and pcs[k] >= len(progs[k]):
            live.remove(k)
    case["schedule"] = sched[:80]
    fp = fingerprint("fibers", repr(progs), repr(sched))
    if err:
        ctx.violation("ctx.view", f"[fibers] exception escaped the registry API: {err}", case=case, mech="exception:" + err.split(":")[0])
        ctx.case(fp, nontrivial=False, cls="fibers")
        return
    cont, over = check_history(ctx, env, agents, "fibers", case)
    check_global(ctx, DR, names, snap, "fibers", case) or repair_global(DR, names, snap)
    ctx.case(fp, nontrivial=cont > 0, cls="fibers",
             sample={"kind": "fibers", "fibers": K, "contended_observations": cont, "program0": [list(o) for o in progs[0]][:8]})


def history_asyncio(ctx, DR, rng, hid, clock, names, snap, in_parent):
    import asyncio

    K = int(rng.integers(2, 7))
    env = Env(DR, hid, clock)
    env.arng = rng
    base_rules = {n: [x for x, _ in snap[0][n]] for n in names}
    progs = [gen_block(rng, names, 0, [int(rng.integers(10, 35))], top=True) for _ in range(K)]
    kind = "asyncio-in-parent-context" if in_parent else "asyncio"
    case = {"kind": kind, "tasks": K, "programs": [jsonable_prog(p) for p in progs][:3]}
    parent = Agent(env, "main", base_rules, {})
    agents = []

    async def main():
        # tasks copy the creator's context: inside a parent context they start from the parent's view (and, having no
        # context of their own yet, only read until they enter one)
        pr = {k: list(v) for k, v in parent.stack[-1][0].items()}
        pf = dict(parent.stack[-1][1])
        for k in range(K):
            agents.append(Agent(env, k, pr, pf))
        await asyncio.gather(*[a.arun_block(p) for a, p in zip(agents, progs)])

    err = None
    try:
        if in_parent:
            with DR.local_decomps():
                parent.do_enter_model_and_log()
                parent.do_simple(("add", names[0]))
                parent.do_simple(("fix", names[-1]))
                asyncio.run(main())
                for n in names:
                    parent.do_simple(("list", n))
                    parent.do_simple(("getfixed", n))
                parent.do_exit_model_and_log()
        else:
            asyncio.run(main())
    except Exception as e:  # noqa: BLE001
        err = f"{type(e).__name__}: {e}"
    fp = fingerprint(kind, repr([jsonable_prog(p) for p in progs]))
    if err:
        ctx.violation("ctx.view", f"[{kind}] exception escaped the registry API: {err}", case=case, mech="exception:" + err.split(":")[0])
        ctx.case(fp, nontrivial=False, cls=kind)
        repair_global(DR, names, snap)
        return
    cont, over = check_history(ctx, env, agents + [parent], kind, case)
    check_global(ctx, DR, names, snap, kind, case) or repair_global(DR, names, snap)
    ctx.case(fp, nontrivial=cont > 0, cls=kind,
             sample={"kind": kind, "tasks": K, "contended_observations": cont, "program0": jsonable_prog(progs[0])[:6]})


# ============================================================================ real library workload: DecompositionGraph in threads
def history_graph_threads(ctx, qp, DR, rng, hid, names, snap):
    """``DecompositionGraph.__init__`` (what ``qp.transforms.decompose(fixed_decomps=…, alt_decomps=…)`` builds) opens a local
    context, adds the caller's alternative rules and fixes the caller's fixed rules in it, and then reads the registry through
    ``list_decomps`` while constructing the graph.  Every thread supplies its own fixed CNOT rule and its own alternative CRX
    rule whose cost grows with the thread index (so a rule leaking from a lower-numbered thread would win the optimisation).
    The solution of every thread must use exactly that thread's rule objects; the global registry must be unchanged.
    (The full ``decompose`` transform is not run in threads: it records into AnnotatedQueue, whose global stack is not
    thread-safe against ``stop_recording`` in another thread — outside this property.)"""
    from pennylane.decomposition import DecompositionGraph

    T = int(rng.integers(2, 7))
    reps = int(rng.integers(2, 5))
    results, errors = {}, []
    barrier = threading.Barrier(T)

    def mk_rule(tag, n_rz):
        return DR.DecompositionRule(_impl, resources={qp.RZ: n_rz}, name=f"pv_{hid}_{tag}")

    def work(t):
        try:
            fixed = mk_rule(f"{t}_cnot", 50)  # expensive on purpose: only a *fixed* rule makes the solver take it
            alt = mk_rule(f"{t}_crx", t + 1)
            ops = [qp.CNOT([0, 1]), qp.CRX(0.3, [0, 1])]
            out = []
            barrier.wait(timeout=120)
            for _ in range(reps):
                # RZ is almost free, so the thread's own alternative (t+1 RZ gates) beats every stock CRX rule
                g = DecompositionGraph(ops, {"RZ": 0.001, "RX": 1.0, "RY": 1.0, "CZ": 1.0, "H": 1.0, "GlobalPhase": 1.0},
                                       fixed_decomps={qp.CNOT: fixed}, alt_decomps={qp.CRX: [alt]})
                sol = g.solve()
                out.append((sol.decomposition(ops[0]), sol.decomposition(ops[1])))
                time.sleep(0)
            results[t] = (fixed, alt, out)
        except Exception as e:  # noqa: BLE001
            errors.append(f"{type(e).__name__}: {e}")
            try:
                barrier.abort()
            except Exception:  # noqa: BLE001
                pass

    ths = [threading.Thread(target=work, args=(t,), daemon=True) for t in range(T)]
    for th in ths:
        th.start()
    for th in ths:
        th.join(120)
    case = {"kind": "graph-threads", "threads": T, "reps": reps}
    if errors or any(th.is_alive() for th in ths):
        real = [e for e in errors if not e.startswith("BrokenBarrierError")]
        if real:
            ctx.violation("ctx.graph_threads", f"DecompositionGraph raised in a thread: {real[0]}", case=case,
                          mech="graph-exception:" + real[0].split(":")[0])
        else:
            ctx.inconclusive_case(f"graph-threads history {hid}: {errors[:2]}")
        return
    for t, (fixed, alt, out) in results.items():
        for got_fixed, got_alt in out:
            ctx.ev("ctx.graph_threads")
            if got_fixed is not fixed:
                ctx.violation("ctx.graph_threads", f"thread {t}: the graph solved CNOT with rule {got_fixed.name}, its own fixed rule is "
                              f"{fixed.name}", case=case, mech="graph-used-foreign-fixed-rule")
            if got_alt is not alt:
                own = owner_of(got_alt.name)
                ctx.violation("ctx.graph_threads", f"thread {t}: the graph solved CRX with rule {got_alt.name} instead of the thread's own "
                              f"cheapest alternative {alt.name}", case=case,
                              mech="graph-used-foreign-alt-rule" if own else "graph-ignored-own-alt-rule")
    check_global(ctx, DR, names, snap, "graph-threads", case) or repair_global(DR, names, snap)
    ctx.case(fingerprint("graph-threads", T, reps, hid), nontrivial=False, cls="graph-threads")


# ============================================================================ driver
def run(ctx):
    import warnings

    warnings.simplefilter("ignore")
    import pennylane as qp
    from pennylane.decomposition import decomposition_rule as DR

    if not hasattr(DR, "to_name"):
        from pennylane.decomposition.utils import to_name

        DR.to_name = to_name  # convenience for repair only
    rng = ctx.rng
    clock = itertools.count()
    all_names = list(NAME_POOL) + ["CNOT"]
    for n in all_names:  # touch every name once from the main thread: the global defaultdict gets its keys before threads read it
        DR.list_decomps(n)
    snap = global_view(DR, all_names)
    old_switch = sys.getswitchinterval()
    sys.setswitchinterval(1e-6)
    inj = YieldInjector(DR, ctx.seed * 131 + ctx.shard, 0.08)
    ctx.note("yield_injection_active", bool(inj.ok))
    ctx.note("monitored_code_objects", len(inj.codes))
    H = ctx.n(480, 24000)
    try:
        for j in range(H):
            if j >= (H // 3 if ctx.quick else H // 12) and not ctx.more():
                break
            hid = f"{ctx.shard}x{j}"
            ctx.case_index = ctx.shard * H + j
            names = [NAME_POOL[int(i)] for i in rng.choice(len(NAME_POOL), size=int(rng.integers(3, 6)), replace=False)]
            r = j % 10
            if r in (0, 1, 2, 3):
                history_threads(ctx, DR, rng, hid, clock, names, snap, in_parent=False)
            elif r == 4:
                history_threads(ctx, DR, rng, hid, clock, names, snap, in_parent=True)
            elif r in (5, 6, 7):
                history_fibers(ctx, DR, rng, hid, clock, names, snap)
            elif r == 8:
                history_asyncio(ctx, DR, rng, hid, clock, names, snap, in_parent=bool(rng.integers(2)))
            else:
                if j % 20 == 9:
                    history_graph_threads(ctx, qp, DR, rng, hid, all_names, snap)
                else:
                    history_asyncio(ctx, DR, rng, hid, clock, names, snap, in_parent=False)
    finally:
        inj.close()
        sys.setswitchinterval(old_switch)
    ctx.note("yields_injected", inj.injected)
    ctx.note("line_events_seen", inj.count)
    il = ctx.notes.pop("_il", [])
    ctx.note("interleavings_observed", len(il))
    c = ctx.counters
    ctx.note("overlapping_contexts_observed_in_threads",
             c.get("overlapping_contexts.threads", 0) + c.get("overlapping_contexts.threads-in-parent-context", 0))
    ctx.note("contended_observations_in_threads",
             c.get("contended_observations.threads", 0) + c.get("contended_observations.threads-in-parent-context", 0))
