"""C23 — Compile pipelines compose transforms and route results correctly.

Deciding monitors
* ``route.symbolic``  — CompilePipeline(ts)(batch) on tagged circuits; leaf circuits "execute" to unique id tokens and every
  synthetic transform post-processes with a non-commutative string combinator, so the final value spells out exactly which
  result slice went where.  Expected value = a pure string model written from the transform definitions (no PennyLane call).
* ``route.numeric``   — pipelines mixing real transforms (split_non_commuting, broadcast_expand, cancel_inverses,
  merge_rotations, param_shift with its expand transform) with numeric synthetic fan-out transforms, executed on
  default.qubit, against a harness-side depth-first manual fold of the same bound transforms.
* ``transform.apply`` — the other composition paths of transform.py (transform applied to a batch; transform with an
  expand_transform applied to one tape) against the same string model.
* ``edit.list`` / ``edit.markers`` / ``edit.error`` — random edit histories on a population of pipelines mirrored on a Python
  list + marker model; after every step every live pipeline must equal its model (lists; marker levels where the class
  docstring defines them), documented errors must be raised and must leave the pipeline unchanged; at the end of each
  history the edited pipeline is applied to a batch and must route like the model list says (``edit.apply``).
"""
import copy
import warnings

import numpy as np

from pv.ctx import fingerprint

META = {
    "id": "C23",
    "level": "exploration",
    "technique": "differential: real CompilePipeline application vs a symbolic string model / manual depth-first fold (tagged results, "
                 "non-commutative post-processing); history + executable list-and-marker model for pipeline editing",
    "level_text": "Random pipelines of 0-6 synthetic transforms with per-circuit fan-out 0-4 (uneven, incl. dropping) are applied to batches of "
                  "0-5 tagged circuits; a mis-sliced, mis-ordered or un-reversed post-processing stack changes the resulting string. Real "
                  "transforms are mixed in with numeric execution. Edit histories (append/insert/pop/remove/+/+=/radd/*/slices/extend/"
                  "add_transform/markers/copy/constructor forms) are mirrored on a list model after every step, over a population of aliased-or-not pipelines.",
    "level_note": "Marker semantics are asserted where the class docstring defines them: a marker's level is the index of the transform it "
                  "follows (0 = before all), so an edit elsewhere must keep the marker behind the same transform; + re-bases, * keeps markers once, "
                  "slices re-base and keep the final marker only when the slice reaches the end, a removed transform hands its marker to its "
                  "predecessor. A marker sitting exactly in the insertion gap and pipeline*0 are left open (model re-synchronised, counted as "
                  "observations). Classical cotransforms / cotransform_cache need a QNode with trainable classical processing and are not driven here.",
    "design_ref": "7/C23",
    "shards": {"quick": 2, "thorough": 16},
    "budget_s": {"quick": 45, "thorough": 300},
    "min_evals": {"quick": 2000, "thorough": 40000},
    "deciding": ["route.symbolic", "route.numeric", "transform.apply", "edit.list", "edit.markers", "edit.apply"],
    "rule": "routing case = (pipeline of bound synthetic/real transforms, batch); distinct = fingerprint of both; non-trivial = at least two "
            "transforms, at least two input circuits and two different fan-outs occurring (uneven batch). Edit case = one history; non-trivial = "
            "at least 6 successful edits with at least one marker alive",
    "assumptions": ["Python list/slice semantics are the reference for pipeline editing", "default.qubit is deterministic for analytic execution"],
}

NFN = 6          # distinct synthetic Transform objects
FAN_CHOICES = [0, 1, 1, 1, 2, 2, 3, 4]


# ----------------------------------------------------------------------------- synthetic transforms + string model
class Synth:
    """The synthetic transform family (created after pennylane is imported)."""

    def __init__(self, qp):
        self.qp = qp
        self.plain = [self._make(f"S{i}") for i in range(NFN)]
        self.final = self._make("F", final_transform=True)
        self.exp_fn = self._raw("E")
        self.with_expand = self._make("X", expand_transform=self.exp_fn)

    def mk_tape(self, tag):
        qp = self.qp
        return qp.tape.QuantumScript([qp.RX(float(tag), 0)], [qp.expval(qp.Z(0))])

    @staticmethod
    def tag_of(tape):
        return int(tape.operations[0].data[0])

    def _raw(self, name):
        me = self

        def synth(tape, tid=0, fans=(1,)):
            tag = me.tag_of(tape)
            k = fans[tag % len(fans)]
            new = [me.mk_tape(tag * 8 + j + 1) for j in range(k)]

            def post(results):
                return f"{name}.{tid}<{tag}>(" + ",".join(str(r) for r in results) + ")"
            return new, post
        synth.__name__ = name
        synth.__qualname__ = name
        return synth

    def _make(self, name, **cfg):
        return self.qp.transform(self._raw(name), **cfg)

    def transform_by_name(self, name):
        if name == "F":
            return self.final
        if name == "X":
            return self.with_expand
        return self.plain[int(name[1:])]


def key_of(bt):
    """Model key of a real BoundTransform (reads data only)."""
    fn = bt.tape_transform
    return (getattr(fn, "__name__", repr(fn)), tuple(bt.args), tuple(sorted(bt.kwargs.items())))


def mkey(name, tid, fans):
    return (name, (), (("fans", tuple(fans)), ("tid", tid)))


def key_parts(k):
    d = dict(k[2])
    return k[0], d.get("tid", 0), d.get("fans", (1,))


def model_value(tag, items):
    if not items:
        return f"L{tag}"
    name, tid, fans = key_parts(items[0])
    k = fans[tag % len(fans)]
    return f"{name}.{tid}<{tag}>(" + ",".join(model_value(tag * 8 + j + 1, items[1:]) for j in range(k)) + ")"


def model_leaves(tag, items):
    if not items:
        return [tag]
    _, _, fans = key_parts(items[0])
    out = []
    for j in range(fans[tag % len(fans)]):
        out += model_leaves(tag * 8 + j + 1, items[1:])
    return out


def count_leaves(tags, items, cap=600):
    level = list(tags)
    for it in items:
        _, _, fans = key_parts(it)
        nxt = []
        for t in level:
            nxt += [t * 8 + j + 1 for j in range(fans[t % len(fans)])]
        level = nxt
        if len(level) > cap:
            return cap + 1
    return len(level)


def rand_fans(rng):
    n = int(rng.integers(1, 6))
    return tuple(int(FAN_CHOICES[int(i)]) for i in rng.integers(0, len(FAN_CHOICES), size=n))


def bound(sy, name, tid, fans):
    from pennylane.core.transforms.transform import BoundTransform

    return BoundTransform(sy.transform_by_name(name), kwargs={"tid": tid, "fans": tuple(fans)})


def expand_keys(k):
    """Model items contributed by adding one bound transform with key k (an X transform brings its expand transform E first)."""
    name, tid, fans = key_parts(k)
    if name == "X":
        return [mkey("E", tid, fans), k]
    return [k]


def check_apply(ctx, sy, pipeline, items, rng, monitor, witness):
    """Apply the real pipeline to a random tagged batch and compare with the string model of ``items``."""
    nb = int(rng.integers(0, 6))
    tags = [int(t) for t in rng.choice(np.arange(1, 8), size=nb, replace=False)] if nb else []
    if count_leaves(tags, items) > 600:
        tags = tags[:1]
        if count_leaves(tags, items) > 600:
            return None
    batch = [sy.mk_tape(t) for t in tags]
    form = int(rng.integers(3))
    arg = tuple(batch) if form == 0 else list(batch) if form == 1 else (batch[0] if len(batch) == 1 and items else tuple(batch))
    ctx.ev(monitor)
    exp_leaves = [x for t in tags for x in model_leaves(t, items)]
    exp_vals = tuple(model_value(t, items) for t in tags)
    w = {**witness, "batch_tags": tags, "items": [list(key_parts(k)) for k in items]}
    try:
        out, fn = pipeline(arg)
        out = list(out)
        got_leaves = [sy.tag_of(t) for t in out]
        res = fn(tuple(f"L{t}" for t in got_leaves))
    except Exception as e:  # noqa: BLE001
        ctx.violation(monitor, f"applying the pipeline / post-processing raised {type(e).__name__}: {e}", case=w, mech=f"{monitor}:raise:{type(e).__name__}")
        return False
    ok = True
    if got_leaves != exp_leaves:
        ok = False
        ctx.violation(monitor, "executed circuits differ (content or order) from applying the transforms one after another", case=w,
                      mech=f"{monitor}:leaves", observed=got_leaves[:60], expected=exp_leaves[:60])
    elif tuple(res) != exp_vals:
        ok = False
        ctx.violation(monitor, "post-processed results differ from applying the transforms one after another", case=w,
                      mech=f"{monitor}:values", observed=list(res)[:6], expected=list(exp_vals)[:6])
    fans_seen = {key_parts(k)[2][t % len(key_parts(k)[2])] for k in items for t in tags}
    return ok, (len(items) >= 2 and len(tags) >= 2 and len(fans_seen) >= 2), tags


# ----------------------------------------------------------------------------- (a) symbolic routing
def routing_case(ctx, qp, sy, rng, gi):
    n = int(rng.integers(0, 7))
    keys = []
    for j in range(n):
        r = rng.random()
        name = "X" if r < 0.12 else f"S{int(rng.integers(NFN))}"
        keys.append(mkey(name, j, rand_fans(rng)))
    if n and rng.random() < 0.2:
        keys[-1] = mkey("F", n - 1, key_parts(keys[-1])[2])
    bts = [bound(sy, *key_parts(k)) for k in keys]
    items = [x for k in keys for x in expand_keys(k)]
    how = int(rng.integers(4))
    P = qp.CompilePipeline
    if how == 0:
        p = P(*bts)
    elif how == 1:
        p = P()
        for b in bts:
            p += b
    elif how == 2:
        p = P()
        for b in bts:
            p.append(b)
    else:
        p = P()
        for b in bts:
            p = p + b
    real_items = [key_of(b) for b in p]
    if real_items != items:
        ctx.ev("edit.list")
        ctx.violation("edit.list", "freshly constructed pipeline differs from the list of its transforms", case={"how": how, "items": [list(key_parts(k)) for k in items]},
                      mech=f"construct:{how}", observed=[list(key_parts(k)) for k in real_items])
        return
    r = check_apply(ctx, sy, p, items, rng, "route.symbolic", {"construction": how})
    if r is None:
        return
    ok, nontriv, tags = r
    ctx.case(fingerprint("route", items, tags), nontrivial=nontriv, cls=f"route/len{len(items)}",
             sample={"pipeline": [list(key_parts(k)) for k in items], "batch_tags": tags, "example_value": model_value(tags[0], items)[:200] if tags else None})

    # other composition paths in transform.py
    if keys and rng.random() < 0.5:
        k = keys[int(rng.integers(len(keys)))]
        name, tid, fans = key_parts(k)
        T = sy.transform_by_name(name)
        tags2 = [int(t) for t in rng.choice(np.arange(1, 8), size=int(rng.integers(0, 5)), replace=False)]
        its = expand_keys(k)
        ctx.ev("transform.apply")
        w = {"transform": name, "tid": tid, "fans": fans, "batch_tags": tags2}
        try:
            if name == "X" and tags2:   # single tape + expand_transform: _apply_to_tape
                out, fn = T(sy.mk_tape(tags2[0]), tid=tid, fans=fans)
                got = fn(tuple(f"L{sy.tag_of(t)}" for t in out))
                exp = model_value(tags2[0], its)
                if got != exp:
                    ctx.violation("transform.apply", "transform with expand_transform applied to one tape routes differently from expand-then-transform",
                                  case=w, mech="apply_to_tape:expand", observed=got, expected=exp)
            elif name != "X":           # batch: _apply_to_sequence
                out, fn = T(tuple(sy.mk_tape(t) for t in tags2), tid=tid, fans=fans)
                got = fn(tuple(f"L{sy.tag_of(t)}" for t in out))
                exp = tuple(model_value(t, its) for t in tags2)
                if tuple(got) != exp or [sy.tag_of(t) for t in out] != [x for t in tags2 for x in model_leaves(t, its)]:
                    ctx.violation("transform.apply", "transform applied to a batch routes differently from per-tape application",
                                  case=w, mech="apply_to_sequence", observed=list(got), expected=list(exp))
        except Exception as e:  # noqa: BLE001
            ctx.violation("transform.apply", f"raised {type(e).__name__}: {e}", case=w, mech=f"transform.apply:raise:{type(e).__name__}")


# ----------------------------------------------------------------------------- (a') numeric routing with real transforms
def _combine(results, weights):
    first = results[0]
    if isinstance(first, (tuple, list)):
        return tuple(_combine([r[i] for r in results], weights) for i in range(len(first)))
    return sum(w * np.asarray(r) for w, r in zip(weights, results))


def make_numeric(qp):
    def shift_dup(tape, k=2, step=0.1):
        """k copies with the first RX/RY/RZ angle shifted by j*step; result = sum_j (j+1) * r_j."""
        idx = next((i for i, o in enumerate(tape.operations) if o.name in ("RX", "RY", "RZ")), None)
        if idx is None or k == 1:
            return [tape], lambda r: r[0]
        new = []
        for j in range(k):
            ops = list(tape.operations)
            o = ops[idx]
            ops[idx] = type(o)(o.data[0] + j * step, wires=o.wires)
            new.append(tape.copy(operations=ops))
        ws = [j + 1.0 for j in range(k)]
        return new, lambda r: _combine(list(r), ws)

    def neg(tape):
        def post(r):
            x = r[0]
            return tuple(-np.asarray(v) for v in x) if isinstance(x, (tuple, list)) else -np.asarray(x)
        return [tape], post
    return qp.transform(shift_dup), qp.transform(neg)


def manual_fold(tape, bts):
    """Depth-first application of bound transforms to ONE tape: (leaf tapes, function(leaf results) -> value)."""
    if not bts:
        return [tape], lambda res: res[0]
    bt = bts[0]
    kw = {k: v for k, v in bt.kwargs.items() if k not in ("argnums", "hybrid")}
    new, fn = bt.tape_transform(tape, *bt.args, **kw)
    subs = [manual_fold(t, bts[1:]) for t in new]
    leaves = [x for lv, _ in subs for x in lv]

    def post(res):
        vals, pos = [], 0
        for lv, f in subs:
            vals.append(f(res[pos:pos + len(lv)]))
            pos += len(lv)
        return fn(tuple(vals))
    return leaves, post


def flat(x):
    if isinstance(x, (tuple, list)):
        out = []
        for y in x:
            out += flat(y)
        return out
    if isinstance(x, dict):
        return [float(v) for _, v in sorted(x.items())]
    return [float(v) for v in np.asarray(x, dtype=float).reshape(-1)]


def shape_sig(x):
    if isinstance(x, (tuple, list)):
        return tuple(shape_sig(y) for y in x)
    return np.shape(x)


def numeric_case(ctx, qp, rng, dev, numeric_ts):
    shift_dup, neg = numeric_ts
    nb = int(rng.integers(1, 4))
    batch = []
    for _ in range(nb):
        bsz = None if rng.random() < 0.6 else int(rng.integers(2, 4))
        th = float(rng.uniform(-3, 3)) if bsz is None else rng.uniform(-3, 3, size=bsz)
        ops = [qp.RX(th, 0), qp.RY(float(rng.uniform(-3, 3)), 1), qp.CNOT([0, 1])]
        if rng.random() < 0.5:
            ops += [qp.S(0), qp.adjoint(qp.S(0))]
        if rng.random() < 0.5:
            ops += [qp.RZ(float(rng.uniform(-3, 3)), 1), qp.RZ(float(rng.uniform(-3, 3)), 1)]
        pool = [lambda: qp.expval(qp.X(0)), lambda: qp.expval(qp.Z(0) @ qp.Z(1)), lambda: qp.expval(qp.Y(1)),
                lambda: qp.expval(qp.Z(0)), lambda: qp.expval(qp.X(0) @ qp.Y(1)), lambda: qp.probs(wires=[1])]
        idx = rng.choice(len(pool), size=int(rng.integers(1, 5)), replace=False)
        ms = [pool[int(i)]() for i in idx]
        batch.append(qp.tape.QuantumScript(ops, ms))
    cands = ["broadcast_expand", "split_non_commuting", "cancel_inverses", "merge_rotations", "shift_dup", "neg", "split_wires"]
    n = int(rng.integers(1, 5))
    names = [cands[int(i)] for i in rng.integers(0, len(cands), size=n)]
    grad = rng.random() < 0.3
    P = qp.CompilePipeline()
    for nm in names:
        if nm == "broadcast_expand":
            P += qp.transforms.broadcast_expand
        elif nm == "split_non_commuting":
            P += qp.transforms.split_non_commuting
        elif nm == "split_wires":
            P += qp.transforms.split_non_commuting(grouping_strategy="wires")
        elif nm == "cancel_inverses":
            P += qp.transforms.cancel_inverses
        elif nm == "merge_rotations":
            P += qp.transforms.merge_rotations
        elif nm == "shift_dup":
            P += shift_dup(k=int(rng.integers(1, 4)), step=float(np.round(rng.uniform(0.05, 0.4), 3)))
        else:
            P += neg
    if grad:
        if any(np.ndim(t.operations[0].data[0]) for t in batch):
            P = qp.CompilePipeline(qp.transforms.broadcast_expand) + P
            names = ["broadcast_expand"] + names
        batch = [t.copy(measurements=[m for m in t.measurements if m.obs is not None] or [qp.expval(qp.Z(0))]) for t in batch]
        P += qp.gradients.param_shift
        names.append("param_shift")
    bts = list(P)
    w = {"transforms": names, "pipeline": repr(P)[:300], "batch": [[repr(m) for m in t.measurements] + [f"batch={t.batch_size}"] for t in batch]}
    ctx.ev("route.numeric")
    try:
        folds = [manual_fold(t, bts) for t in batch]
        exp = tuple(f(dev.execute(tuple(lv)) if lv else ()) for lv, f in folds)
    except Exception as e:  # noqa: BLE001 - the same transforms applied by hand are rejected: outside the domain
        ctx.reject(f"manual-fold:{type(e).__name__}")
        return
    try:
        out, fn = P(tuple(batch))
        got = fn(dev.execute(tuple(out)) if len(out) else ())
    except Exception as e:  # noqa: BLE001
        ctx.violation("route.numeric", f"pipeline raised {type(e).__name__}: {e} although the manual fold of the same transforms works", case=w,
                      mech=f"numeric:raise:{type(e).__name__}")
        return
    nleaves = sum(len(lv) for lv, _ in folds)
    ctx.case(fingerprint("numeric", names, [repr(t.measurements) for t in batch], [np.asarray(t.operations[0].data[0]) for t in batch]),
             nontrivial=len(bts) >= 2 and nleaves > len(batch), cls="numeric/" + ("grad" if grad else "plain"),
             sample={"transforms": names, "batch": len(batch), "executed": nleaves})
    if len(out) != nleaves:
        ctx.violation("route.numeric", f"pipeline produced {len(out)} circuits, manual fold {nleaves}", case=w, mech="numeric:count")
        return
    try:
        a, b = np.array(flat(got)), np.array(flat(exp))
        same = shape_sig(got) == shape_sig(exp) and a.shape == b.shape and np.allclose(a, b, rtol=0, atol=1e-9 * max(1.0, float(np.abs(b).max()) if b.size else 1.0))
    except Exception as e:  # noqa: BLE001
        ctx.inconclusive_case(f"numeric compare: {type(e).__name__}: {e}")
        return
    if not same:
        ctx.violation("route.numeric", "post-processed numeric results differ from the manual fold", case=w, mech="numeric:values",
                      observed=flat(got)[:12], expected=flat(exp)[:12])


# ----------------------------------------------------------------------------- (b) edit histories
class Model:
    def __init__(self, items=None, markers=None):
        self.items = list(items or [])
        self.markers = dict(markers or {})

    def copy(self):
        return Model(self.items, self.markers)

    @property
    def has_final(self):
        return any(k[0] == "F" for k in self.items)

    def remove_indices(self, idxs):
        idxs = set(idxs)
        keep = [i for i in range(len(self.items)) if i not in idxs]
        # a marker keeps following the same surviving transform: its level drops by the number of removed transforms below it
        self.markers = {m: v - sum(1 for i in idxs if i < v) for m, v in self.markers.items()}
        self.items = [self.items[i] for i in keep]


def markers_of(p):
    return {m: p.get_marker_level(m) for m in p.markers}


PROTECTED = ["top", "user", "gradient", "device", "all", "all-mlir"]


def history_case(ctx, qp, sy, rng, gi):
    from pennylane.exceptions import TransformError

    P = qp.CompilePipeline
    pop = [(P(), Model())]           # population of (real pipeline, model)
    nsteps = int(rng.integers(6, 22))
    log = []
    tidc = [0]
    nmark = [0]
    nsucc = 0
    had_marker = False

    def new_key(allow_final=True, allow_x=True):
        r = rng.random()
        name = "F" if (allow_final and r < 0.08) else "X" if (allow_x and r < 0.2) else f"S{int(rng.integers(NFN))}"
        tidc[0] += 1
        # few distinct (tid, fans) so that remove()/== find several equal containers
        return mkey(name, int(rng.integers(3)), [(1,), (2, 1), (0, 1, 2)][int(rng.integers(3))])

    def fail(mon, msg, mech, **kw):
        ctx.violation(mon, msg, case={"history": log[-25:], **{k: v for k, v in kw.items() if k not in ("observed", "expected")}}, mech=mech,
                      observed=kw.get("observed"), expected=kw.get("expected"))

    def show_items(items):
        return [f"{key_parts(k)[0]}.{key_parts(k)[1]}{list(key_parts(k)[2])}" for k in items]

    def compare_all(op, assert_markers_for=None, sync_markers_for=()):
        """Every live pipeline must equal its model.  A difference is reported and the model is then re-synchronised with the
        real pipeline so that the rest of the history still exercises the code."""
        for j, (p, m) in enumerate(pop):
            ctx.ev("edit.list")
            real = [key_of(b) for b in p]
            tag = op if j == assert_markers_for else f"{op}:aliased-other-pipeline"
            ltag, mtag = f"list:{tag}", f"markers:{tag}"
            if j == assert_markers_for and op.startswith("insert"):
                if "with-expand" in op:
                    ltag = "insert:expand-misplaced"
                mtag = "insert:markers:negative-index" if "negative-index" in op else "insert:markers:expand-shift" if "with-expand" in op else mtag
            if j == assert_markers_for and op == "radd" and not markers_of(p) and m.markers:
                mtag = "radd:markers-dropped"
            if real != m.items or len(p) != len(m.items) or bool(p) != bool(m.items):
                fail("edit.list", f"after {log[-1]} pipeline #{j} is {show_items(real)} but the list model says {show_items(m.items)}",
                     ltag, observed=show_items(real), expected=show_items(m.items))
                m.items = list(real)
                m.markers = dict(markers_of(p))
                continue
            rm = markers_of(p)
            if j in sync_markers_for:
                if rm != m.markers:
                    ctx.count(f"open-marker-semantics:{op}")
                    ctx.note_add("open_marker_observations", {"op": op, "real": rm, "natural": m.markers})
                m.markers = dict(rm)
                continue
            ctx.ev("edit.markers")
            if rm != m.markers:
                fail("edit.markers", f"after {log[-1]} pipeline #{j} ({show_items(real)}) has markers {rm}, the docstring rule gives {m.markers}",
                     mtag, observed=rm, expected=m.markers)
                m.markers = dict(rm)
            elif any(not (0 <= v <= len(m.items)) for v in rm.values()):
                ctx.count("marker-level-out-of-range")
        return True

    def expect_error(fn, exc, what, mech):
        """fn must raise exc (documented); anything else is a violation. Returns True if raised as documented."""
        ctx.ev("edit.error")
        try:
            fn()
        except exc:
            ctx.reject(what)
            return True
        except Exception as e:  # noqa: BLE001
            fail("edit.error", f"{log[-1]}: expected {exc.__name__ if isinstance(exc, type) else exc}, got {type(e).__name__}: {e}", f"error:{mech}:wrong-type")
            return True
        fail("edit.error", f"{log[-1]}: documented error not raised", f"error:{mech}:not-raised")
        return False

    for step in range(nsteps):
        j = int(rng.integers(len(pop)))
        p, m = pop[j]
        n = len(m.items)
        op = ["append", "append", "iadd", "add", "radd", "insert", "insert", "pop", "pop", "remove", "mul", "slice", "slice", "getitem",
              "add_marker", "add_marker", "remove_marker", "copy", "extend", "add_transform", "add_pipeline", "construct", "contains"][int(rng.integers(23))]
        sync, assert_for = (), j
        try:
            if op in ("append", "iadd", "add", "add_transform"):
                k = new_key()
                name, tid, fans = key_parts(k)
                bt = bound(sy, name, tid, fans)
                log.append(f"#{j}.{op}({name}.{tid})")
                if m.has_final and name == "F":
                    fn = {"append": lambda: p.append(bt), "iadd": lambda: p.__iadd__(bt), "add": lambda: p + bt,
                          "add_transform": lambda: p.add_transform(sy.transform_by_name(name), tid=tid, fans=fans)}[op]
                    expect_error(fn, TransformError, "second-terminal", f"{op}:second-terminal")
                else:
                    if op == "append":
                        p.append(bt)
                        m.items += expand_keys(k)
                    elif op == "add_transform":
                        p.add_transform(sy.transform_by_name(name), tid=tid, fans=fans)
                        m.items += expand_keys(k)
                    elif op == "iadd":
                        p += bt
                        pop[j] = (p, m)
                        m.items += expand_keys(k)
                    else:
                        q = p + bt
                        pop.append((q, Model(m.items + expand_keys(k), m.markers)))
                        assert_for = len(pop) - 1
                    nsucc += 1
            elif op == "radd":
                k = new_key()
                name, tid, fans = key_parts(k)
                bt = bound(sy, name, tid, fans)
                log.append(f"{name}.{tid} + #{j}")
                if m.has_final and name == "F":
                    expect_error(lambda: bt + p, TransformError, "second-terminal", "radd:second-terminal")
                elif name == "F" and n:
                    log[-1] += " (skipped: terminal in front)"
                else:
                    q = bt + p
                    add = expand_keys(k)
                    pop.append((q, Model(add + m.items, {mk: v + len(add) for mk, v in m.markers.items()})))
                    assert_for = len(pop) - 1
                    nsucc += 1
            elif op == "add_pipeline":
                j2 = int(rng.integers(len(pop)))
                p2, m2 = pop[j2]
                log.append(f"#{j} + #{j2}")
                if m.has_final and m2.has_final:
                    expect_error(lambda: p + p2, TransformError, "second-terminal", "add-pipeline:second-terminal")
                elif set(m.markers) & set(m2.markers):
                    log[-1] += " (skipped: shared marker labels)"
                elif m.has_final:
                    log[-1] += " (skipped: terminal not last)"
                else:
                    q = p + p2
                    pop.append((q, Model(m.items + m2.items, {**m.markers, **{mk: v + n for mk, v in m2.markers.items()}})))
                    assert_for = len(pop) - 1
                    nsucc += 1
            elif op == "extend":
                ks = [new_key(allow_final=False) for _ in range(int(rng.integers(0, 3)))]
                bts = [bound(sy, *key_parts(k)) for k in ks]
                log.append(f"#{j}.extend({[key_parts(k)[0] for k in ks]})")
                if m.has_final:
                    log[-1] += " (skipped: terminal not last)"
                else:
                    p.extend(bts if rng.random() < 0.6 else P(*bts))
                    for k in ks:
                        m.items += expand_keys(k)
                    nsucc += 1
            elif op == "insert":
                k = new_key()
                name, tid, fans = key_parts(k)
                bt = bound(sy, name, tid, fans)
                idx = int(rng.integers(-n - 2, n + 3))
                eff = max(0, n + idx) if idx < 0 else min(idx, n)          # Python list.insert position
                log.append(f"#{j}.insert({idx}, {name}.{tid}) [len {n}]")
                if name == "F" and n:
                    before = (list(m.items), dict(m.markers))
                    if expect_error(lambda: p.insert(idx, bt), TransformError, "terminal-not-at-end", "insert:terminal"):
                        # a rejected edit must leave the pipeline as it was
                        ctx.ev("edit.error")
                        if [key_of(b) for b in p] != before[0] or markers_of(p) != before[1]:
                            fail("edit.error", f"rejected {log[-1]} still changed the pipeline: items {show_items([key_of(b) for b in p])}, markers {markers_of(p)} "
                                 f"(before: {before[1]})", "insert:rejected-but-mutated", observed=markers_of(p), expected=before[1])
                            m.items, m.markers = [key_of(b) for b in p], dict(markers_of(p))
                elif m.has_final and eff > m.items.index(next(x for x in m.items if x[0] == "F")):
                    log[-1] += " (skipped: would land behind the terminal transform)"
                else:
                    p.insert(idx, bt)
                    add = expand_keys(k)
                    at_gap = [mk for mk, v in m.markers.items() if v == eff]
                    m.markers = {mk: (v + len(add) if v > eff else v) for mk, v in m.markers.items()}
                    m.items[eff:eff] = add
                    nsucc += 1
                    if at_gap:
                        # markers exactly in the gap: docs leave open whether they end up before or after the new transform(s)
                        real = markers_of(p)
                        for mk in at_gap:
                            if real.get(mk) is not None and eff <= real[mk] <= eff + len(add):
                                m.markers[mk] = real[mk]
                            ctx.count("marker-in-insertion-gap")
                    op = "insert" + (":negative-index" if idx < 0 else "") + (":with-expand" if len(add) == 2 else "")
            elif op == "pop":
                idx = int(rng.integers(-n - 1, n + 1)) if rng.random() < 0.7 or not n else -1
                log.append(f"#{j}.pop({idx}) [len {n}]")
                if not (-n <= idx < n):
                    expect_error(lambda: p.pop(idx), IndexError, "pop-out-of-range", "pop:out-of-range")
                else:
                    eff = idx if idx >= 0 else n + idx
                    got = p.pop(idx)
                    ctx.ev("edit.list")
                    if key_of(got) != m.items[eff]:
                        fail("edit.list", f"{log[-1]} returned {key_of(got)} instead of {m.items[eff]}", "list:pop:return")
                        return
                    rem = [eff]
                    if m.items[eff][0] == "X" and eff > 0 and m.items[eff - 1] == mkey("E", *key_parts(m.items[eff])[1:]):
                        rem.append(eff - 1)
                    m.remove_indices(rem)
                    nsucc += 1
                    op = "pop" + (":with-expand" if len(rem) == 2 else "")
            elif op == "remove":
                if n and rng.random() < 0.8:
                    k = m.items[int(rng.integers(n))]
                else:
                    k = new_key()
                name, tid, fans = key_parts(k)
                if name == "E":
                    name = "X"
                    k = mkey("X", tid, fans)
                by_transform = rng.random() < 0.5
                log.append(f"#{j}.remove({'transform ' + name if by_transform else f'{name}.{tid}{list(fans)}'})")
                p.remove(sy.transform_by_name(name) if by_transform else bound(sy, name, tid, fans))
                rem = []
                for i, it in enumerate(m.items):
                    if (by_transform and it[0] == name) or (not by_transform and it == k):
                        rem.append(i)
                        if it[0] == "X" and i > 0 and m.items[i - 1] == mkey("E", *key_parts(it)[1:]):
                            rem.append(i - 1)
                m.remove_indices(rem)
                nsucc += 1
            elif op == "mul":
                nn = int(rng.integers(-1, 4))
                log.append(f"#{j} * {nn}")
                if nn < 0:
                    expect_error(lambda: p * nn, ValueError, "negative-multiplier", "mul:negative")
                elif m.has_final:
                    expect_error(lambda: p * nn, TransformError, "mul-terminal", "mul:terminal")
                elif len(pop) < 8 and n * nn <= 12:
                    q = p * nn if rng.random() < 0.5 else nn * p
                    if nn == 0 and m.markers:
                        # markers of an emptied pipeline are left open by the docs: observe, do not keep the pipeline
                        ctx.ev("edit.list")
                        if list(q):
                            fail("edit.list", f"{log[-1]} is not empty", "list:mul0")
                        if any(v > 0 for v in markers_of(q).values()):
                            ctx.count("open-marker-semantics:mul0-keeps-out-of-range-markers")
                    else:
                        pop.append((q, Model(m.items * nn, m.markers)))
                        assert_for = len(pop) - 1
                    nsucc += 1
            elif op == "slice":
                a = None if rng.random() < 0.3 else int(rng.integers(-n - 1, n + 2))
                b = None if rng.random() < 0.3 else int(rng.integers(-n - 1, n + 2))
                st = [None, 1, 1, 2, -1, 3][int(rng.integers(6))]
                sl = slice(a, b, st)
                log.append(f"#{j}[{a}:{b}:{st}] [len {n}]")
                with warnings.catch_warnings():
                    warnings.simplefilter("ignore")
                    q = p[sl]
                start, stop, stp = sl.indices(n)
                if stp == 1:
                    nm = {mk: v - start for mk, v in m.markers.items() if start <= v < stop or (stop == n and v == n and v >= start)}
                else:
                    nm = {}
                if len(pop) < 8:
                    pop.append((q, Model(m.items[sl], nm)))
                    assert_for = len(pop) - 1
                    nsucc += 1
                else:
                    ctx.ev("edit.list")
                    if [key_of(x) for x in q] != m.items[sl] or markers_of(q) != nm:
                        fail("edit.list" if [key_of(x) for x in q] != m.items[sl] else "edit.markers", f"{log[-1]} gives {show_items([key_of(x) for x in q])} / {markers_of(q)}, "
                             f"model {show_items(m.items[sl])} / {nm}", "slice")
                        return
            elif op == "getitem":
                idx = int(rng.integers(-n - 1, n + 1))
                log.append(f"#{j}[{idx}]")
                if not (-n <= idx < n):
                    expect_error(lambda: p[idx], IndexError, "index-out-of-range", "getitem:out-of-range")
                else:
                    ctx.ev("edit.list")
                    if key_of(p[idx]) != m.items[idx]:
                        fail("edit.list", f"{log[-1]} is {key_of(p[idx])}, model {m.items[idx]}", "list:getitem")
                        return
            elif op == "add_marker":
                r = rng.random()
                if r < 0.1 and m.markers:
                    lab = list(m.markers)[0]
                    log.append(f"#{j}.add_marker({lab!r}) duplicate")
                    expect_error(lambda: p.add_marker(lab), ValueError, "duplicate-marker", "add_marker:duplicate")
                elif r < 0.18:
                    lab = PROTECTED[int(rng.integers(len(PROTECTED)))]
                    log.append(f"#{j}.add_marker({lab!r}) protected")
                    expect_error(lambda: p.add_marker(lab, 0), ValueError, "protected-marker", "add_marker:protected")
                elif r < 0.28:
                    lv = [-1, n + 1, n + 5][int(rng.integers(3))]
                    log.append(f"#{j}.add_marker('bad', {lv}) out of range [len {n}]")
                    expect_error(lambda: p.add_marker("bad", lv), ValueError, "marker-level-out-of-range", "add_marker:range")
                else:
                    nmark[0] += 1
                    lab = f"m{nmark[0]}"
                    lv = None if rng.random() < 0.35 else int(rng.integers(0, n + 1))
                    log.append(f"#{j}.add_marker({lab!r}, {lv}) [len {n}]")
                    p.add_marker(lab, lv) if lv is not None else p.add_marker(lab)
                    m.markers[lab] = n if lv is None else lv
                    had_marker = True
                    nsucc += 1
            elif op == "remove_marker":
                if m.markers and rng.random() < 0.8:
                    lab = list(m.markers)[int(rng.integers(len(m.markers)))]
                    log.append(f"#{j}.remove_marker({lab!r})")
                    p.remove_marker(lab)
                    del m.markers[lab]
                    nsucc += 1
                else:
                    log.append(f"#{j}.remove_marker('nope')")
                    expect_error(lambda: p.remove_marker("nope"), ValueError, "unknown-marker", "remove_marker:unknown")
            elif op == "copy":
                log.append(f"copy(#{j})")
                if len(pop) < 8:
                    pop.append((copy.copy(p), m.copy()))
                    assert_for = len(pop) - 1
                    nsucc += 1
            elif op == "construct":
                ks = [new_key(allow_final=False) for _ in range(int(rng.integers(0, 4)))]
                bts = [bound(sy, *key_parts(k)) for k in ks]
                form = int(rng.integers(3))
                log.append(f"CompilePipeline({'list' if form == 0 else 'varargs' if form == 1 else 'pipeline+varargs'} {[key_parts(k)[0] for k in ks]})")
                if len(pop) < 8:
                    if form == 0:
                        # a single list of bound transforms is stored as given (already expanded) - documented in the constructor
                        q = P(bts)
                        mm = Model([k for k in ks])
                    elif form == 1:
                        q = P(*bts)
                        mm = Model([x for k in ks for x in expand_keys(k)])
                    elif not m.has_final:
                        q = P(p, *bts)
                        mm = Model(m.items + [x for k in ks for x in expand_keys(k)], m.markers)
                    else:
                        q = mm = None
                    if q is not None:
                        pop.append((q, mm))
                        assert_for = len(pop) - 1
                        nsucc += 1
            elif op == "contains":
                k = m.items[int(rng.integers(n))] if n and rng.random() < 0.6 else new_key()
                name, tid, fans = key_parts(k)
                log.append(f"{name}.{tid} in #{j}")
                ctx.ev("edit.list")
                if name != "E":
                    got_b = bound(sy, name, tid, fans) in p
                    got_t = sy.transform_by_name(name) in p
                    if got_b != (k in m.items) or got_t != any(it[0] == name for it in m.items):
                        fail("edit.list", f"{log[-1]}: bound in pipeline = {got_b}, transform in pipeline = {got_t}; model {k in m.items}/{any(it[0] == name for it in m.items)}", "list:contains")
                        return
                ctx.ev("edit.list")
                if p.has_final_transform != m.has_final:
                    fail("edit.list", f"has_final_transform = {p.has_final_transform}, model {m.has_final}", "list:has_final")
                    return
        except Exception as e:  # noqa: BLE001 - an edit admitted by the docs raised
            ctx.ev("edit.error")
            fail("edit.error", f"{log[-1] if log else op} raised {type(e).__name__}: {e}", f"edit-raise:{op}:{type(e).__name__}")
            return
        if not compare_all(op, assert_markers_for=assert_for, sync_markers_for=sync):
            return

    # the edited pipelines must route like their model lists
    for p, m in pop[:4]:
        fpos = [i for i, k in enumerate(m.items) if k[0] == "F"]
        if fpos and fpos[0] != len(m.items) - 1:
            continue
        if len(m.items) > 10:
            continue
        check_apply(ctx, sy, p, m.items, rng, "edit.apply", {"history": log[-25:]})
    ctx.case(fingerprint("hist", log), nontrivial=nsucc >= 6 and had_marker, cls="history", sample={"history": log[:14], "final": [str(x) for x in pop[0][1].items][:6], "markers": pop[0][1].markers})


def run(ctx):
    import pennylane as qp

    warnings.filterwarnings("ignore")
    # keep a complete list of violation mechanisms in evidence (the bus stores only the first witnesses)
    _orig_violation = ctx.violation

    def _violation(monitor, message, case=None, mech=None, observed=None, expected=None):
        ctx.note_add("violation_mechs", f"{monitor}|{mech}", cap=150)
        ctx.count(f"violations.{mech}")
        return _orig_violation(monitor, message, case=case, mech=mech, observed=observed, expected=expected)
    ctx.violation = _violation
    sy = Synth(qp)
    NR = ctx.n(1600, 8000)     # symbolic routing cases
    NH = ctx.n(700, 4000)     # edit histories
    NN = ctx.n(120, 640)        # numeric routing cases
    plan = [("route", NR), ("hist", NH), ("numeric", NN)]
    if ctx.only_case is not None:
        kind = ["route", "hist", "numeric"][ctx.only_case % 3]
        plan = [(kind, 1)]
    dev = None
    numeric_ts = None
    # interleave so that a time-limited run still covers everything: chunks of 200 route / 160 hist / 16 numeric
    done = {"route": 0, "hist": 0, "numeric": 0}
    chunk = {"route": 200, "hist": 100, "numeric": 12}
    active = True
    first = True
    while active:
        active = False
        for kind, total in plan:
            c = min(chunk[kind], total - done[kind])
            if c <= 0:
                continue
            active = True
            if not first and not ctx.more():
                return
            first = False
            for _ in range(c):
                i = done[kind]
                done[kind] += 1
                gi = ctx.only_case if ctx.only_case is not None else 3 * (ctx.shard + i * ctx.nshards) + ["route", "hist", "numeric"].index(kind)
                ctx.case_index = gi
                rng = ctx.case_rng(gi)
                if kind == "route":
                    routing_case(ctx, qp, sy, rng, gi)
                elif kind == "hist":
                    history_case(ctx, qp, sy, rng, gi)
                else:
                    if dev is None:
                        dev = qp.device("default.qubit")
                        numeric_ts = make_numeric(qp)
                    with ctx.guard("route.numeric"):
                        numeric_case(ctx, qp, rng, dev, numeric_ts)
