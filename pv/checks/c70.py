"""C70 — default.clifford simulates stabilizer circuits exactly.

Deciding monitors (post-conditions at ``qp.execute([tape], default.clifford)``; one measurement per tape so that every
disagreement is attributed to one handler):

* ``analytic.value``   expval / var (Pauli words, sums, Hermitian, Projector) / probs (wire subsets, all wires, rotated by a Pauli word) /
                       density_matrix / purity / vn_entropy / mutual_info / state (tableau=False, up to global phase) of random Clifford
                       circuits equal the reference state-vector simulation (pv/ref/sv.py + pv/ref/bridge.py), tolerance 2e-6 (the device
                       returns stim's single-precision state vectors) resp. 1e-9 for tableau-derived numbers.
* ``tableau.valid``    ``tableau=True`` state output: (2n, 2n+1) binary array; stabilizer rows (with sign) stabilize the reference state,
                       destabilizer/stabilizer rows satisfy the symplectic commutation relations.
* ``sample.exact``     deterministic sub-family (basis-state circuits): every shot equals the expected bitstring in the requested wire order.
* ``sample.stat``      finite-shot sample / counts / probs / expval follow the exact distribution (chi-square / z-test, alpha 1e-9,
                       two-stage with fresh seed and 8x shots), also behind Pauli noise channels (exact mixture computed on density matrices)
                       and for classical_shadow / shadow_expval.
* ``policy.nonclifford`` non-Clifford or unsupported gates are rejected with DeviceError, or, if accepted, simulated correctly.
"""
import itertools
import math

import numpy as np

from pv.ctx import fingerprint
from pv.ref.c60_limit import violation as _violation

META = {
    "id": "C70",
    "level": "exploration",
    "technique": "runtime post-conditions on default.clifford executions vs. an independent dense state-vector reference; tableau validity by "
                 "stabilizer action on the reference state; statistical two-stage tests for samples",
    "level_text": "Random Clifford circuits over the device's whole gate table (incl. adjoints, state preparation, global phases, barriers), odd wire "
                  "labels, device wires None / exact / superset, tableau True/False, 1-6 (thorough 8) wires; every analytic measurement type is compared "
                  "with dense simulation, samples statistically; held on the circuits observed.",
    "level_note": "state vectors are compared up to a global phase (stim's state_vector fixes its own phase convention) and with tolerance 2e-6 "
                  "(complex64). Sums of Pauli words with finite shots are tested term-wise conservative (each term's estimate within its own "
                  "alpha/len bound). check_clifford=False and max_workers are not driven.",
    "shards": {"quick": 3, "thorough": 16},
    "budget_s": {"quick": 150, "thorough": 600},
    "min_evals": {"quick": 1500, "thorough": 30000},
    "deciding": ["analytic.value", "tableau.valid", "sample.exact", "sample.stat", "policy.nonclifford"],
    "rule": "case = (circuit, device wires, tableau flag, measurement); distinct = distinct (circuit structure, measurement repr, device config); "
            "non-trivial = circuit contains at least one entangling or basis-changing gate (H/S/SX/two-qubit gate)",
    "assumptions": ["reference gate table pv/ref/gates.py is correct (validated by C02)"],
}

TOL32 = 2e-6
TOL = 1e-9
I2 = np.eye(2, dtype=complex)
PAULI = {"I": I2, "X": np.array([[0, 1], [1, 0]], dtype=complex), "Y": np.array([[0, -1j], [1j, 0]], dtype=complex),
         "Z": np.array([[1, 0], [0, -1]], dtype=complex)}


# ----------------------------------------------------------------------------------------------- circuit generation
def gen_circuit(qp, rng, labels, depth, allow_prep=True, basis_only=False, with_sxdg=False, with_sx=False):
    """Returns (ops list, description list, nontrivial flag)."""
    n = len(labels)
    ops, nontriv = [], False
    if allow_prep and rng.random() < 0.3:
        k = int(rng.integers(1, n + 1))
        ws = [labels[int(i)] for i in rng.choice(n, size=k, replace=False)]
        if rng.random() < 0.6 or basis_only:
            bits = rng.integers(0, 2, size=k)
            ops.append(qp.BasisState(np.array(bits) if rng.random() < 0.5 else [int(b) for b in bits], wires=ws))
        else:
            ops.append(qp.StatePrep(stab_vector(rng, k), wires=ws))
            nontriv = True
    one = ["I", "X", "Y", "Z"] if basis_only else ["I", "X", "Y", "Z", "H", "H", "S", "S", "Sdg", "Hdg", "S2"]
    if with_sxdg:
        one = one + ["SXdg"]
    if with_sx:
        one = one + ["SX"]
    two = ["CNOT", "SWAP"] if basis_only else ["CNOT", "CNOT", "CZ", "CY", "SWAP", "ISWAP", "ISWAPdg", "CYdg", "ctrlZ"]
    for _ in range(depth):
        r = rng.random()
        if r < 0.07 and not basis_only:
            ops.append(qp.GlobalPhase(float(rng.uniform(-3, 3))) if rng.random() < 0.7 else qp.GlobalPhase(float(rng.uniform(-3, 3)), wires=labels[int(rng.integers(n))]))
            continue
        if r < 0.1:
            ops.append(qp.Barrier(wires=[labels[int(i)] for i in rng.choice(n, size=int(rng.integers(1, n + 1)), replace=False)]))
            continue
        if r < 0.12:
            ops.append(qp.Snapshot())
            continue
        if n >= 2 and r < 0.5:
            a, b = [labels[int(i)] for i in rng.choice(n, size=2, replace=False)]
            g = two[int(rng.integers(len(two)))]
            op = {"CNOT": lambda: qp.CNOT([a, b]), "CZ": lambda: qp.CZ([a, b]), "CY": lambda: qp.CY([a, b]), "SWAP": lambda: qp.SWAP([a, b]),
                  "ISWAP": lambda: qp.ISWAP([a, b]), "ISWAPdg": lambda: qp.adjoint(qp.ISWAP([a, b])), "CYdg": lambda: qp.adjoint(qp.CY([a, b])),
                  "ctrlZ": lambda: qp.ctrl(qp.Z(b), control=a)}[g]()
            nontriv = nontriv or g not in ("SWAP",)
        else:
            a = labels[int(rng.integers(n))]
            g = one[int(rng.integers(len(one)))]
            op = {"I": lambda: qp.Identity(a), "X": lambda: qp.X(a), "Y": lambda: qp.Y(a), "Z": lambda: qp.Z(a), "H": lambda: qp.Hadamard(a),
                  "S": lambda: qp.S(a), "Sdg": lambda: qp.adjoint(qp.S(a)), "SX": lambda: qp.SX(a), "Hdg": lambda: qp.adjoint(qp.Hadamard(a)),
                  "S2": lambda: qp.pow(qp.S(a), 2), "SXdg": lambda: qp.adjoint(qp.SX(a))}[g]()
            nontriv = nontriv or g in ("H", "S", "Sdg", "SX", "Hdg", "SXdg")
        ops.append(op)
    return ops, nontriv


def stab_vector(rng, k):
    from pv.ref import gates as G
    from pv.ref import sv

    S = np.diag([1, 1j]).astype(complex)
    gates = []
    for _ in range(int(rng.integers(1, 3 * k + 2))):
        r = rng.random()
        if r < 0.4:
            gates.append((G.H, [int(rng.integers(k))]))
        elif r < 0.6:
            gates.append((S, [int(rng.integers(k))]))
        elif r < 0.7:
            gates.append((G.X, [int(rng.integers(k))]))
        elif k >= 2:
            a, b = [int(x) for x in rng.choice(k, size=2, replace=False)]
            gates.append((G.controlled(G.X, 1), [a, b]))
    return sv.run(gates, list(range(k)))


def ref_state(qp, ops, order):
    """Reference state on ``order`` (first = most significant) from operator data."""
    from pv.ref import bridge, sv

    n = len(order)
    T = sv.zero_state(n)
    nind = 0
    for op in ops:
        nm = op.name
        if nm in ("Barrier", "Snapshot", "GlobalPhase", "Identity"):
            continue
        idx = [order.index(w) for w in op.wires]
        if nm == "BasisState":
            bits = [int(b) for b in np.asarray(op.data[0]).reshape(-1)]
            for b, i in zip(bits, idx):
                if b:
                    T = sv.apply_tensor(T, PAULI["X"], [i])
            continue
        if nm == "StatePrep":
            # only used as first operation: state of the prepared wires x |0> on the rest
            vec = np.asarray(op.data[0], dtype=complex).reshape([2] * len(idx))
            full = np.zeros([2] * n, dtype=complex)
            sl = [0] * n
            it = itertools.product(range(2), repeat=len(idx))
            for b in it:
                sl2 = list(sl)
                for bi, i in zip(b, idx):
                    sl2[i] = bi
                full[tuple(sl2)] = vec[b]
            T = full
            continue
        M, ind = bridge.op_matrix(op)
        nind += bool(ind)
        T = sv.apply_tensor(T, M, idx)
    return T.reshape(-1)


def pauli_full(word, order):
    """word: {wire: letter} -> dense matrix on order."""
    M = np.eye(1, dtype=complex)
    for w in order:
        M = np.kron(M, PAULI[word.get(w, "I")])
    return M


def gen_sentence(rng, wires, max_terms=4, max_len=3):
    terms = []
    for _ in range(int(rng.integers(1, max_terms + 1))):
        k = int(rng.integers(1, min(max_len, len(wires)) + 1))
        ws = [wires[int(i)] for i in rng.choice(len(wires), size=k, replace=False)]
        terms.append((float(np.round(rng.normal(), 3)) or 0.5, {w: "XYZ"[int(rng.integers(3))] for w in ws}))
    return terms


def word_op(qp, rng, word):
    cls = {"X": qp.X, "Y": qp.Y, "Z": qp.Z}
    fs = [cls[l](w) for w, l in word.items()]
    if len(fs) == 1:
        return fs[0]
    if rng.random() < 0.5:
        op = fs[0]
        for f in fs[1:]:
            op = op @ f
        return op
    return qp.prod(*fs)


def sentence_op(qp, rng, terms):
    ops = [word_op(qp, rng, w) for _, w in terms]
    cs = [c for c, _ in terms]
    if len(terms) == 1 and cs[0] == 1.0:
        return ops[0]
    r = rng.random()
    if r < 0.35:
        return qp.Hamiltonian(cs, ops)
    if r < 0.7:
        return qp.sum(*[qp.s_prod(c, o) for c, o in zip(cs, ops)]) if len(ops) > 1 else qp.s_prod(cs[0], ops[0])
    return qp.dot(cs, ops)


# ----------------------------------------------------------------------------------------------- helpers
class Case:
    def __init__(self, ctx, info):
        self.ctx, self.info = ctx, info

    def viol(self, mon, msg, mech, obs=None, exp=None, extra=None):
        c = dict(self.info)
        if extra:
            c.update(extra)
        _violation(self.ctx, mon, msg, case=c, mech=mech, observed=obs, expected=exp)


def describe(ops):
    out = []
    for o in ops:
        out.append(f"{o.name}{list(o.wires)}")
    return out


REJECT = ("DeviceError", "DecompositionError", "DecompositionUndefinedError")


def execute(qp, dev, ops, m, shots=None):
    tape = qp.tape.QuantumScript(ops, [m], shots=shots)
    return qp.execute([tape], dev, diff_method=None)[0]


def device_config(qp, rng, labels, tableau=None, seed=None):
    mode = ["none", "exact", "exact_perm", "superset"][int(rng.integers(4))]
    if mode == "none":
        dw = None
    elif mode == "exact":
        dw = list(labels)
    elif mode == "exact_perm":
        dw = [labels[int(i)] for i in rng.permutation(len(labels))]
    else:
        extra = [x for x in ["zz", 97, "unused"] if x not in labels][: int(rng.integers(1, 3))]
        dw = list(labels) + extra
        dw = [dw[int(i)] for i in rng.permutation(len(dw))]
    tab = bool(rng.random() < 0.5) if tableau is None else tableau
    dev = qp.device("default.clifford", wires=dw, tableau=tab, seed=seed if seed is not None else int(rng.integers(1, 2**30)))
    return dev, dw, tab, mode


def stateprep_on_permuted_labels(ops, order):
    """StatePrep in a circuit whose integer wire labels are a permutation of 0..N-1 that is not visited in sorted order."""
    tw = []
    for o in ops:
        for w in o.wires:
            if w not in tw:
                tw.append(w)
    return any(o.name == "StatePrep" for o in ops) and all(isinstance(w, (int, np.integer)) for w in tw) \
        and sorted(tw) == list(range(len(tw))) and tw != sorted(tw)


def device_layout(qp, dev, ops, m):
    """(layout, tape_wires): the order in which the device lays out its stim qubits for this tape (used ONLY to name the mechanism of a
    mismatch, never as oracle): the preprocessed tape's wires, or the sorted labels if those are a permutation of 0..N-1."""
    try:
        (t2,), _ = dev.preprocess()[0]([qp.tape.QuantumScript(ops, [m])])
        tw = list(t2.wires)
    except Exception:  # noqa: BLE001
        return None, None
    lay = list(tw)
    if all(isinstance(w, (int, np.integer)) for w in lay) and sorted(lay) == list(range(len(lay))):
        lay = sorted(lay)
    return lay, tw


# ----------------------------------------------------------------------------------------------- analytic family
def analytic_case(ctx, qp, rng, gi):
    from pv.gen import num
    from pv.ref import sv

    nmax = 5 if ctx.quick else 7
    n = int(rng.integers(1, nmax + 1))
    labels = num.wire_labels(rng, n)
    sxdg, sx = rng.random() < 0.05, rng.random() < 0.05
    ops, nontriv = gen_circuit(qp, rng, labels, int(rng.integers(1, 5 * n + 3)), with_sxdg=sxdg, with_sx=sx)
    used = []
    for o in ops:
        for w in o.wires:
            if w not in used:
                used.append(w)
    if not used:
        ops.append(qp.Hadamard(labels[0]))
        used = [labels[0]]
    dev, dw, tab, mode = device_config(qp, rng, used)
    order = list(dw) if dw is not None else list(used)
    N = len(order)
    psi = ref_state(qp, ops, order)
    rho = np.outer(psi, psi.conj())
    info = {"family": "analytic", "ops": describe(ops), "device_wires": dw, "tableau": tab, "wire_mode": mode}
    cs = Case(ctx, info)
    has_sxdg = any(o.name in ("Adjoint(SX)", "SX") for o in ops)
    base_fp = (tuple(info["ops"]), repr(dw), tab)
    prep_perm = stateprep_on_permuted_labels(ops, order)
    # with a wire-less device stim allocates qubits only up to the highest one touched by a gate: wires that only occur in barriers / global
    # phases / BasisState zeros are then missing from states and tableaus
    touched = set()
    for o in ops:
        if o.name in ("Barrier", "Snapshot", "GlobalPhase"):
            continue
        if o.name == "BasisState":
            touched |= {w for w, b in zip(o.wires, np.asarray(o.data[0]).reshape(-1)) if b}
        else:
            touched |= set(o.wires)
    empty_stim = dw is None and any(w not in touched for w in used)

    def layout_state(m):
        lay, tw = device_layout(qp, dev, ops, m)
        if lay is None or sorted(map(str, lay)) != sorted(map(str, order)):
            return None, None, None
        return ref_state(qp, ops, lay), lay, tw

    def state_mech(r, exp):
        pl, lay, _ = layout_state(qp.state())
        if pl is not None and lay != order and r.shape == pl.shape and sv.phase_dist(r, pl) <= TOL32 * math.sqrt(len(pl)):
            return "state:wire-order:tape-layout"
        return None

    def probs_mech(ws):
        def f(r, exp):
            if tab:
                return "probs:tableau-true:unnormalised" if r.shape == exp.shape and abs(float(np.sum(r)) - 1) > 1e-6 else None
            return None
        return f

    def run(m, desc, refval, kind, tol, extra_mech=None):
        """Execute one measurement and compare with refval (callable on result for special kinds)."""
        ctx.case(fingerprint(base_fp, desc), nontrivial=nontriv, cls=f"analytic/{kind}", sample={**info, "measurement": desc} if rng.random() < 0.01 else None)
        try:
            r = execute(qp, dev, ops, m)
        except Exception as e:  # noqa: BLE001
            ctx.ev("analytic.value")
            tn = type(e).__name__
            if has_sxdg and "Gate not found: 'SX" in str(e):
                mech = "gate:SX:stim-name"
            elif kind in ("probs", "probs-op", "expval-projector") and not tab and isinstance(e, ValueError) and "reshape" in str(e):
                mech = "probs:tableau-false:state-layout"
            elif empty_stim:
                mech = "untouched-wires:no-qubits-allocated"
            else:
                mech = f"raises:{kind}:{tn}"
            cs.viol("analytic.value", f"{desc} raised {tn}: {str(e)[:200]}", mech, extra={"measurement": desc})
            return None
        ctx.ev("analytic.value")
        r = np.asarray(r)
        exp = np.asarray(refval)
        if kind == "state":
            ok = r.shape == exp.shape and sv.phase_dist(r, exp) <= tol * math.sqrt(len(exp))
        else:
            ok = r.shape == exp.shape and float(np.max(np.abs(r - exp))) <= tol * max(1.0, float(np.max(np.abs(exp)))) if exp.size else r.shape == exp.shape
        if not ok:
            mech = extra_mech(r, exp) if extra_mech else None
            if mech is None and prep_perm:
                mech = "stateprep:label-permutation"
            if mech is None and empty_stim:
                mech = "untouched-wires:no-qubits-allocated"
            if mech is None and not tab and kind in ("probs", "probs-op", "expval-projector"):
                # tableau=False branch of _measure_probability: a fresh simulator's state vector is read with the tape's wire order
                mech = "probs:tableau-false:state-layout"
            cs.viol("analytic.value", f"{desc}: default.clifford returned {np.round(r, 6).tolist() if r.size <= 16 else r.shape} but exact simulation gives "
                                      f"{np.round(exp, 6).tolist() if exp.size <= 16 else exp.shape} (device wires {dw}, tableau={tab})",
                    mech or f"value:{kind}", r, exp, extra={"measurement": desc})
        return r

    picks = rng.permutation(9)[: (5 if ctx.quick else 7)]
    for p in picks:
        if p == 0:  # expval / var of Pauli sentences
            terms = gen_sentence(rng, used)
            O = sentence_op(qp, rng, terms)
            M = sum(c * pauli_full(w, order) for c, w in terms)
            e = float(np.vdot(psi, M @ psi).real)
            run(qp.expval(O), f"expval({terms})", e, "expval", TOL)
            v = float(np.vdot(psi, M @ M @ psi).real) - e**2
            run(qp.var(O), f"var({terms})", v, "var", 1e-8)
        elif p == 1:  # Hermitian / Projector observables
            k = int(rng.integers(1, min(2, len(used)) + 1))
            ws = [used[int(i)] for i in rng.choice(len(used), size=k, replace=False)]
            A = rng.normal(size=(2**k, 2**k)) + 1j * rng.normal(size=(2**k, 2**k))
            Hm = np.round((A + A.conj().T) / 2, 3)
            e = float(sv.expval(psi, Hm, ws, order).real)
            run(qp.expval(qp.Hermitian(Hm, wires=ws)), f"expval(Hermitian on {ws})", e, "expval-hermitian", 1e-8)
            bits = [int(b) for b in rng.integers(0, 2, size=k)]
            pr = sv.probs(psi, order, ws)[int("".join(map(str, bits)), 2)]
            run(qp.expval(qp.Projector(bits, wires=ws)), f"expval(Projector({bits}) on {ws})", float(pr), "expval-projector", TOL if tab else TOL32,
                extra_mech=lambda r, exp: "expval-projector:tableau-false:returns-probs" if (not tab and r.shape != exp.shape) else None)
        elif p == 2:  # probs on wire subsets (any order) / all wires
            if rng.random() < 0.35 and dw is not None:
                run(qp.probs(), "probs()", sv.probs(psi, order), "probs", TOL if tab else TOL32, extra_mech=probs_mech(None))
            else:
                k = int(rng.integers(1, len(used) + 1))
                ws = [used[int(i)] for i in rng.choice(len(used), size=k, replace=False)]
                run(qp.probs(wires=ws), f"probs(wires={ws})", sv.probs(psi, order, ws), "probs", TOL if tab else TOL32, extra_mech=probs_mech(ws))
        elif p == 3:  # probs rotated by a Pauli word
            k = int(rng.integers(1, min(3, len(used)) + 1))
            ws = [used[int(i)] for i in rng.choice(len(used), size=k, replace=False)]
            word = {w: "XYZ"[int(rng.integers(3))] for w in ws}
            pr = []
            for b in itertools.product(range(2), repeat=k):
                P = np.eye(1, dtype=complex)
                for w in order:
                    P = np.kron(P, (I2 + (1 - 2 * b[ws.index(w)]) * PAULI[word[w]]) / 2 if w in word else I2)
                pr.append(float(np.vdot(psi, P @ psi).real))
            run(qp.probs(op=word_op(qp, rng, word)), f"probs(op={word})", np.array(pr), "probs-op", TOL if tab else TOL32,
                extra_mech=probs_mech(list(word)))
        elif p == 4:  # density matrix
            k = int(rng.integers(1, min(3, len(used)) + 1))
            ws = [used[int(i)] for i in rng.choice(len(used), size=k, replace=False)]
            ref = sv.reduced_dm(rho, order, ws)
            noconj = sv.reduced_dm(np.outer(psi, psi), order, ws)  # psi psi^T (defined up to the square of the global phase)
            run(qp.density_matrix(wires=ws), f"density_matrix(wires={ws})", ref, "density_matrix", TOL32,
                extra_mech=lambda r, exp: "density_matrix:no-conjugate" if r.shape == noconj.shape and sv.phase_dist(r, noconj) < 1e-5 * noconj.shape[0] else None)
        elif p == 5:  # purity / vn_entropy
            k = int(rng.integers(1, len(used) + 1))
            ws = [used[int(i)] for i in rng.choice(len(used), size=k, replace=False)]
            rd = sv.reduced_dm(rho, order, ws)
            run(qp.purity(wires=ws), f"purity(wires={ws})", float(np.trace(rd @ rd).real), "purity", 1e-8)
            base = [None, 2, 10][int(rng.integers(3))]
            run(qp.vn_entropy(wires=ws, log_base=base), f"vn_entropy(wires={ws}, log_base={base})", sv.vn_entropy(rd, base), "vn_entropy", 1e-8)
        elif p == 6 and len(used) >= 2:  # mutual information
            k0 = int(rng.integers(1, len(used)))
            perm = [used[int(i)] for i in rng.permutation(len(used))]
            w0 = perm[:k0]
            w1 = perm[k0: k0 + int(rng.integers(1, len(used) - k0 + 1))]
            base = [None, 2][int(rng.integers(2))]
            sa, sb = sv.vn_entropy(sv.reduced_dm(rho, order, w0), base), sv.vn_entropy(sv.reduced_dm(rho, order, w1), base)
            sab = sv.vn_entropy(sv.reduced_dm(rho, order, w0 + w1), base)
            run(qp.mutual_info(wires0=w0, wires1=w1, log_base=base), f"mutual_info({w0}, {w1}, log_base={base})", sa + sb - sab, "mutual_info", 1e-8,
                extra_mech=lambda r, exp: "mutual_info:missing-joint-entropy" if r.shape == () and abs(float(r) - (sa + sb)) < 1e-8 and sab > 1e-6 else None)
        elif p == 7 and dw is not None:  # state (the order of an all-wire result is only fixed when the device has wires)
            if not tab:
                run(qp.state(), "state()", psi, "state", TOL32, extra_mech=state_mech)
            else:
                tableau_check(ctx, qp, cs, dev, ops, psi, order, nontriv, base_fp, rng, layout_state,
                              fallback_mech="stateprep:label-permutation" if prep_perm else ("untouched-wires:no-qubits-allocated" if empty_stim else None))
        elif p == 8 and tab is False and rng.random() < 0.5:
            # same circuit on a tableau=True device must give the same probabilities (two code paths of _measure_probability)
            pass


def tableau_check(ctx, qp, cs, dev, ops, psi, order, nontriv, base_fp, rng, layout_state=None, fallback_mech=None):
    N = len(order)
    ctx.case(fingerprint(base_fp, "tableau"), nontrivial=nontriv, cls="analytic/tableau")
    try:
        t = np.asarray(execute(qp, dev, ops, qp.state()))
    except Exception as e:  # noqa: BLE001
        ctx.ev("tableau.valid")
        mech = "gate:SX:stim-name" if "Gate not found: 'SX" in str(e) else (fallback_mech or f"raises:tableau:{type(e).__name__}")
        cs.viol("tableau.valid", f"state() with tableau=True raised {type(e).__name__}: {str(e)[:200]}", mech)
        return
    ctx.ev("tableau.valid")
    if t.shape != (2 * N, 2 * N + 1) or not np.all(np.isin(t, [0, 1])):
        cs.viol("tableau.valid", f"tableau shape {t.shape} / entries not binary for {N} wires", fallback_mech or "tableau:shape", t)
        return
    x, z, r = t[:, :N], t[:, N:2 * N], t[:, 2 * N]

    def pauli_of(row):
        M = np.eye(1, dtype=complex)
        for q in range(N):
            xb, zb = x[row, q], z[row, q]
            M = np.kron(M, PAULI["Y" if (xb and zb) else ("X" if xb else ("Z" if zb else "I"))])
        return (-1) ** r[row] * M

    for j in range(N):
        S = pauli_of(N + j)
        if np.linalg.norm(S @ psi - psi) > 1e-7 * math.sqrt(len(psi)):
            psi_app, lay, _ = layout_state(qp.state()) if layout_state else (None, None, None)
            appearance = psi_app is not None and lay != order and all(np.linalg.norm(pauli_of(N + i) @ psi_app - psi_app) <= 1e-7 * math.sqrt(len(psi)) for i in range(N))
            cs.viol("tableau.valid", f"stabilizer row {j} of the returned tableau does not stabilize the exact state on the device wire order {order}"
                                     + (f" (it does in the tape's own wire layout {lay})" if appearance else ""),
                    "state:wire-order:tape-layout" if appearance else (fallback_mech or "tableau:stabilizer"), t)
            return
    # symplectic relations: destabilizer_i anticommutes with stabilizer_i only
    def sp(a, b):
        return int((x[a] @ z[b] + z[a] @ x[b]) % 2)
    for a in range(2 * N):
        for b in range(a + 1, 2 * N):
            want = 1 if (b == a + N) else 0
            if sp(a, b) != want:
                cs.viol("tableau.valid", f"tableau rows {a},{b} violate the destabilizer/stabilizer commutation structure", "tableau:symplectic", t)
                return


# ----------------------------------------------------------------------------------------------- sampling family
def sampling_case(ctx, qp, rng, gi):
    from pv.gen import num
    from pv.ref import c60_stat as st
    from pv.ref import sv

    n = int(rng.integers(1, 5 if ctx.quick else 6))
    labels = num.wire_labels(rng, n)
    basis_only = rng.random() < 0.3
    ops, nontriv = gen_circuit(qp, rng, labels, int(rng.integers(1, 4 * n + 3)), basis_only=basis_only)
    used = []
    for o in ops:
        for w in o.wires:
            if w not in used:
                used.append(w)
    if not used:
        ops.append(qp.X(labels[0]))
        used = [labels[0]]
    # optional Pauli noise
    noise = None
    rho_noise = None
    if not basis_only and rng.random() < 0.35:
        w = used[int(rng.integers(len(used)))]
        p = float(np.round(rng.uniform(0.05, 0.6), 3))
        kind = ["BitFlip", "PhaseFlip", "DepolarizingChannel", "PauliError"][int(rng.integers(4))]
        if kind == "PauliError":
            k = int(rng.integers(1, min(2, len(used)) + 1))
            ws = [used[int(i)] for i in rng.choice(len(used), size=k, replace=False)]
            word = "".join("XYZ"[int(rng.integers(3))] for _ in ws)
            nop = qp.PauliError(word, p, wires=ws)
            noise = ("PauliError", word, p, ws)
        else:
            nop = getattr(qp, kind)(p, wires=w)
            noise = (kind, None, p, [w])
        pos = int(rng.integers(1, len(ops) + 1))
        pre, post = ops[:pos], ops[pos:]
        ops = pre + [nop] + post
    seeds = [int(x) for x in rng.integers(1, 2**30, size=4)]
    dev, dw, tab, mode = device_config(qp, rng, used, seed=seeds[0])
    order = list(dw) if dw is not None else list(used)
    # exact output distribution
    if noise is None:
        psi = ref_state(qp, ops, order)
        rho = np.outer(psi, psi.conj())
    else:
        from pv.ref import bridge
        kind, word, p, ws = noise
        psi0 = ref_state(qp, pre, order)
        rho = np.outer(psi0, psi0.conj())
        if kind == "BitFlip":
            Ks = [(p, pauli_full({ws[0]: "X"}, order))]
        elif kind == "PhaseFlip":
            Ks = [(p, pauli_full({ws[0]: "Z"}, order))]
        elif kind == "DepolarizingChannel":
            Ks = [(p / 3, pauli_full({ws[0]: l}, order)) for l in "XYZ"]
        else:
            Ks = [(p, pauli_full(dict(zip(ws, word)), order))]
        rho = (1 - sum(q for q, _ in Ks)) * rho + sum(q * K @ rho @ K.conj().T for q, K in Ks)
        U, _ = bridge.tape_unitary([o for o in post if o.name not in ("Barrier", "Snapshot", "GlobalPhase", "Identity")], order) if post else (np.eye(2 ** len(order)), 1)
        rho = U @ rho @ U.conj().T
    pfull = np.clip(np.diag(rho).real, 0, None)
    shots = int(rng.choice([1500, 3000])) if ctx.quick else int(rng.choice([2000, 5000, 10000]))
    info = {"family": "sampling", "ops": describe(ops), "device_wires": dw, "shots": shots, "noise": noise, "basis_only": basis_only}
    cs = Case(ctx, info)
    base_fp = (tuple(info["ops"]), repr(dw), shots)
    deterministic = bool(np.max(pfull) > 1 - 1e-9)
    prep_perm = stateprep_on_permuted_labels(ops, order)

    def probs_on(ws):
        return sv.probs(np.sqrt(pfull), order, ws)  # marginal of a diagonal distribution

    def fresh(stage):
        return dev if stage == 0 else qp.device("default.clifford", wires=dw, tableau=tab, seed=seeds[1 + stage])

    k = int(rng.integers(1, len(used) + 1))
    ws = [used[int(i)] for i in rng.choice(len(used), size=k, replace=False)]
    variants = [("sample", lambda: qp.sample(wires=ws), ws), ("counts", lambda: qp.counts(wires=ws), ws), ("probs", lambda: qp.probs(wires=ws), ws)]
    if dw is not None:
        variants.append(("sample_all", lambda: qp.sample(), order))
    for name, mk, mw in [variants[int(i)] for i in rng.permutation(len(variants))[:3]]:
        desc = f"{name}({mw})"
        ctx.case(fingerprint(base_fp, desc), nontrivial=nontriv or bool(noise), cls=f"sampling/{name}", sample={**info, "measurement": desc} if rng.random() < 0.02 else None)
        pexp = probs_on(mw)

        def to_counts(r, N, kk=len(mw)):
            if name in ("sample", "sample_all"):
                a = np.asarray(r).reshape(-1, kk)
                idx = a.astype(int) @ (1 << np.arange(kk)[::-1])
                return np.bincount(idx, minlength=2**kk).astype(float)
            if name == "counts":
                c = np.zeros(2**kk)
                for key, v in r.items():
                    c[int(str(key), 2)] += v
                return c
            return np.rint(np.asarray(r, dtype=float) * N)

        try:
            r0 = execute(qp, dev, ops, mk(), shots=shots)
        except Exception as e:  # noqa: BLE001
            ctx.ev("sample.stat")
            cs.viol("sample.stat", f"{desc} with shots raised {type(e).__name__}: {str(e)[:200]}", f"raises:{name}:{type(e).__name__}", extra={"measurement": desc})
            continue
        # ---- form
        if name in ("sample", "sample_all"):
            a = np.asarray(r0)
            ctx.ev("sample.exact")
            if a.reshape(-1, len(mw)).shape[0] != shots or not np.all(np.isin(a, [0, 1])):
                cs.viol("sample.exact", f"{desc}: sample array shape {a.shape} / values not bits (shots {shots})", f"form:{name}", extra={"measurement": desc})
                continue
            if deterministic:
                want = [int(b) for b in format(int(np.argmax(pexp)), f"0{len(mw)}b")]
                if not np.all(a.reshape(-1, len(mw)) == np.array(want)[None, :]):
                    cs.viol("sample.exact", f"{desc}: basis-state circuit must always give {want}, got e.g. {a.reshape(-1, len(mw))[0].tolist()} (device wires {dw})",
                            "stateprep:label-permutation" if prep_perm else f"deterministic:{name}", extra={"measurement": desc})
                    continue
        if name == "probs":
            v = np.asarray(r0, dtype=float)
            ctx.ev("sample.exact")
            if v.shape != pexp.shape or abs(v.sum() - 1) > 1e-9 or np.max(np.abs(v * shots - np.rint(v * shots))) > 1e-6:
                cs.viol("sample.exact", f"{desc}: finite-shot probs are not relative frequencies of {shots} shots", "form:probs", v, extra={"measurement": desc})
                continue

        def stage(s):
            r = r0 if s == 0 else execute(qp, fresh(1), ops, mk(), shots=8 * shots)
            return st.gof_pvalue(to_counts(r, shots if s == 0 else 8 * shots), pexp)

        ctx.ev("sample.stat")
        rej, ps = st.two_stage(stage)
        if rej:
            cs.viol("sample.stat", f"{desc}: observed frequencies reject the exact distribution {np.round(pexp, 4).tolist()[:16]} twice (p = {ps}; device wires {dw}, noise {noise})",
                    "stateprep:label-permutation" if prep_perm else f"stat:{name}" + (":noise:" + noise[0] if noise else ""), extra={"measurement": desc})
    # ---- expectation values of Pauli words / sums and eigenvalue samples
    if noise is None:
        psi = ref_state(qp, ops, order)
        terms = gen_sentence(rng, used, max_terms=3)
        single = rng.random() < 0.5
        if single:
            terms = [(1.0, terms[0][1])]
        O = sentence_op(qp, rng, terms)
        mus = [float(np.vdot(psi, pauli_full(w, order) @ psi).real) for _, w in terms]
        exact = sum(c * m for (c, _), m in zip(terms, mus))
        desc = f"expval({terms}) shots"
        ctx.case(fingerprint(base_fp, desc), nontrivial=nontriv, cls="sampling/expval")
        alpha = st.ALPHA / len(terms)
        from scipy import stats as sps
        zq = float(sps.norm.isf(alpha / 2))

        def bound(N):
            return sum(abs(c) * zq * math.sqrt(max(1 - m * m, 0.0) / N) for (c, _), m in zip(terms, mus)) + 1e-9

        try:
            e0 = float(execute(qp, dev, ops, qp.expval(O), shots=shots))
            ctx.ev("sample.stat")
            if abs(e0 - exact) > bound(shots):
                e1 = float(execute(qp, fresh(1), ops, qp.expval(O), shots=8 * shots))
                if abs(e1 - exact) > bound(8 * shots):
                    cs.viol("sample.stat", f"{desc}: estimates {e0:.5g}, {e1:.5g} (8x shots) vs exact {exact:.5g} beyond the alpha=1e-9 bound {bound(shots):.3g}",
                            "stateprep:label-permutation" if prep_perm else "stat:expval", [e0, e1], exact, extra={"measurement": desc})
        except Exception as e:  # noqa: BLE001
            ctx.ev("sample.stat")
            cs.viol("sample.stat", f"{desc} raised {type(e).__name__}: {str(e)[:200]}", f"raises:expval-shots:{type(e).__name__}", extra={"measurement": desc})
        # eigenvalue samples of one Pauli word
        w0 = terms[0][1]
        mu = mus[0]
        try:
            s0 = np.asarray(execute(qp, dev, ops, qp.sample(word_op(qp, rng, w0)), shots=shots), dtype=float)
            ctx.ev("sample.exact")
            if s0.shape != (shots,) or not np.all(np.isin(s0, [-1.0, 1.0])):
                cs.viol("sample.exact", f"sample({w0}): eigenvalue samples shape {s0.shape} / values not +-1", "form:sample-obs")
            else:
                ctx.ev("sample.stat")
                if abs(s0.mean() - mu) > zq * math.sqrt(max(1 - mu * mu, 0) / shots) + 1e-9:
                    s1 = np.asarray(execute(qp, fresh(2), ops, qp.sample(word_op(qp, rng, w0)), shots=8 * shots), dtype=float)
                    if abs(s1.mean() - mu) > zq * math.sqrt(max(1 - mu * mu, 0) / (8 * shots)) + 1e-9:
                        cs.viol("sample.stat", f"sample({w0}): mean of eigenvalue samples {s0.mean():.4g}/{s1.mean():.4g} vs exact {mu:.4g}",
                                "stateprep:label-permutation" if prep_perm else "stat:sample-obs")
        except Exception as e:  # noqa: BLE001
            ctx.ev("sample.stat")
            cs.viol("sample.stat", f"sample({w0}) raised {type(e).__name__}: {str(e)[:200]}", f"raises:sample-obs:{type(e).__name__}")
    else:
        # channels need shots: analytic execution must be rejected with DeviceError
        try:
            execute(qp, dev, ops, qp.probs(wires=ws))
        except Exception as e:  # noqa: BLE001
            if type(e).__name__ in REJECT:
                ctx.reject("DeviceError:channel-without-shots")
            else:
                ctx.ev("policy.nonclifford")
                cs.viol("policy.nonclifford", f"channel without shots raised {type(e).__name__} instead of DeviceError: {str(e)[:150]}", "policy:channel-analytic")
        else:
            ctx.ev("policy.nonclifford")
            cs.viol("policy.nonclifford", "noise channel executed analytically without shots (documented: DeviceError)", "policy:channel-analytic")


# ----------------------------------------------------------------------------------------------- shadows on default.clifford
def shadow_case(ctx, qp, rng, gi):
    from pv.ref import c60_stat as st

    n = int(rng.integers(1, 4))
    labels = list(range(n))
    ops, nontriv = gen_circuit(qp, rng, labels, int(rng.integers(1, 4 * n + 2)), allow_prep=False)
    ops = [qp.Identity(w) for w in labels] + [o for o in ops if o.name not in ("Snapshot", "Barrier")]
    order = labels
    ghz = n >= 2 and rng.random() < 0.5
    if ghz:  # entangled state with a two-qubit stabilizer: correlations between the qubits of one snapshot matter
        ops = [qp.Identity(w) for w in labels] + [qp.Hadamard(0)] + [qp.CNOT([i, i + 1]) for i in range(n - 1)]
        nontriv = True
    psi = ref_state(qp, ops, order)
    k = int(rng.integers(1, n + 1))
    ws = sorted(int(x) for x in rng.choice(n, size=k, replace=False))
    word = {w: "XYZ"[int(rng.integers(3))] for w in ws}
    if ghz:
        ws = sorted(int(x) for x in rng.choice(n, size=2, replace=False))
        word = {w: "Z" for w in ws}
    mu = float(np.vdot(psi, pauli_full(word, order) @ psi).real)
    shots = 1500 if ctx.quick else 4000
    info = {"family": "shadow", "ops": describe(ops), "word": {str(k_): v for k_, v in word.items()}, "shots": shots}
    cs = Case(ctx, info)
    ctx.case(fingerprint("shadow", tuple(info["ops"]), repr(word)), nontrivial=nontriv, cls="sampling/shadow_expval", sample=info if rng.random() < 0.1 else None)
    seeds = [int(x) for x in rng.integers(1, 2**30, size=4)]
    var1 = 3.0 ** len(ws) - mu * mu

    def stage(s):
        dev = qp.device("default.clifford", wires=labels, seed=seeds[2 * s])
        v = float(np.asarray(execute(qp, dev, ops, qp.shadow_expval(word_op(qp, rng, word), seed=seeds[2 * s + 1]), shots=shots * (8 if s else 1))))
        stage.vals.append(v)
        return st.z_pvalue(v, mu, var1, shots * (8 if s else 1))

    stage.vals = []
    ctx.ev("sample.stat")
    try:
        rej, ps = st.two_stage(stage)
    except Exception as e:  # noqa: BLE001
        cs.viol("sample.stat", f"shadow_expval on default.clifford raised {type(e).__name__}: {str(e)[:200]}", f"raises:shadow_expval:{type(e).__name__}")
        return
    if rej:
        # mechanism: each qubit of a snapshot is sampled from a fresh simulator -> correlations between qubits are lost
        prod_form = len(ws) >= 2
        cs.viol("sample.stat", f"shadow_expval({word}) on default.clifford: estimates {stage.vals} vs exact {mu:.4g} (p = {ps})",
                "shadow:independent-qubit-sampling" if prod_form else "stat:shadow_expval", stage.vals, mu)


# ----------------------------------------------------------------------------------------------- non-Clifford policy
def policy_case(ctx, qp, rng, gi):
    from pv.ref import sv

    a, b, c = 0, 1, 2
    cand = [("T", lambda: qp.T(a)), ("RX(0.3)", lambda: qp.RX(0.3, a)), ("RZ(pi/2)", lambda: qp.RZ(math.pi / 2, a)), ("RX(pi)", lambda: qp.RX(math.pi, a)),
            ("RY(pi/2)", lambda: qp.RY(math.pi / 2, a)), ("PhaseShift(pi/2)", lambda: qp.PhaseShift(math.pi / 2, a)), ("ECR", lambda: qp.ECR([a, b])),
            ("Toffoli", lambda: qp.Toffoli([a, b, c])), ("CH", lambda: qp.CH([a, b])), ("Rot", lambda: qp.Rot(math.pi / 2, math.pi, 0.0, a)),
            ("SISWAP", lambda: qp.SISWAP([a, b])), ("IsingXX(pi/2)", lambda: qp.IsingXX(math.pi / 2, [a, b])), ("PauliRot(pi/2)", lambda: qp.PauliRot(math.pi / 2, "XY", [a, b])),
            ("pow(S,3)", lambda: qp.pow(qp.S(a), 3)), ("pow(S,2)", lambda: qp.pow(qp.S(a), 2)), ("adjoint(adjoint(S))", lambda: qp.adjoint(qp.adjoint(qp.S(a)))),
            ("ctrl(Y)", lambda: qp.ctrl(qp.Y(b), control=a)), ("adjoint(CZ)", lambda: qp.adjoint(qp.CZ([a, b]))), ("CRX(pi)", lambda: qp.CRX(math.pi, [a, b])),
            ("QubitUnitary(H)", lambda: qp.QubitUnitary(np.array([[1, 1], [1, -1]]) / math.sqrt(2), a)), ("CSWAP", lambda: qp.CSWAP([a, b, c])),
            ("MultiControlledX", lambda: qp.MultiControlledX(wires=[a, b, c])), ("CCZ", lambda: qp.CCZ([a, b, c]))]
    name, mk = cand[gi % len(cand)]
    pre, _ = gen_circuit(qp, rng, [0, 1, 2], int(rng.integers(2, 8)), allow_prep=False)
    ops = [qp.Hadamard(0), qp.Hadamard(1), qp.S(2)] + pre + [mk()]
    order = [0, 1, 2]
    info = {"family": "policy", "gate": name, "ops": describe(ops)}
    ctx.case(fingerprint("policy", name, tuple(info["ops"])), nontrivial=True, cls=f"policy/{name}")
    dev = qp.device("default.clifford", wires=order, tableau=False, seed=1)
    ctx.ev("policy.nonclifford")
    try:
        r = np.asarray(execute(qp, dev, ops, qp.state()))
    except Exception as e:  # noqa: BLE001
        if type(e).__name__ in REJECT:
            ctx.reject(f"{type(e).__name__}:{name}")
        else:
            _violation(ctx, "policy.nonclifford", f"{name}: raised {type(e).__name__} (not a documented DeviceError): {str(e)[:200]}", case=info, mech=f"policy:raises:{name}")
        return
    psi = ref_state(qp, ops, order)
    if r.shape != psi.shape or sv.phase_dist(r, psi) > TOL32 * 4:
        _violation(ctx, "policy.nonclifford", f"{name} was accepted by default.clifford but the state differs from exact simulation (silently mis-simulated)",
                      case=info, mech=f"policy:wrong:{name}", observed=r, expected=psi)


# ----------------------------------------------------------------------------------------------- driver
def run(ctx):
    import warnings

    import pennylane as qp

    warnings.filterwarnings("ignore")
    plan = [("analytic", ctx.n(240, 12000), analytic_case), ("sampling", ctx.n(90, 4000), sampling_case), ("shadow", ctx.n(12, 300), shadow_case),
            ("policy", ctx.n(46, 460), policy_case)]
    base = 0
    for kind, count, fn in plan:
        for i in range(count):
            if not ctx.more():
                return
            gi = base + i * ctx.nshards + ctx.shard
            if ctx.only_case is not None and gi != ctx.only_case:
                continue
            ctx.case_index = gi
            with ctx.guard(kind, "harness error"):
                fn(ctx, qp, ctx.case_rng(gi), gi)
        base += 10_000_000
