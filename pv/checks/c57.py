"""C57 — State-preparation templates prepare the requested state.

Deciding monitor ``prep.state``: ``qp.state()`` on ``default.qubit`` after the template (applied to |0…0>) must equal the requested
state embedded on the template's wires in the documented bit order, with every auxiliary / work / dynamically allocated wire back
in |0>; equality within 1e-7 (sqrt(eps)-limited angle synthesis) unless the docstring says "up to a global phase" (AmplitudeEmbedding) or gives a precision bound
(QROMStatePreparation).  Paths, each decided separately: ``native`` (template in the circuit), ``rule:<name>`` (every applicable
registered decomposition rule), ``decomposition`` (``op.decomposition()``).

Reference states are built with numpy from the documented definitions: the given vector (StatePrep, Mottonen, Multiplexer, QROM
state preparation), padded/normalised vectors (AmplitudeEmbedding), bit strings (BasisState/BasisEmbedding), products of single
qubit rotations (AngleEmbedding), H/RZ/ZZ layers (IQPEmbedding), the cosine window formula, Σ c_i|b_i> (Superposition, SumOfSlatersPrep,
PartialUnaryStatePreparation) and the numpy contraction of the MPS tensors (MPSPrep).
"""
import numpy as np

from pv.ctx import fingerprint

META = {
    "id": "C57",
    "level": "exploration",
    "technique": "post-condition on qp.state() after each state-preparation template / each of its decomposition rules vs. a numpy "
                 "reference state built from the documented definition (reference-model monitor)",
    "level_text": "Random real/complex/sparse/block-zero/basis/negative-phase target states on 1-5 qubits (and batches), odd wire labels and "
                  "orders, padding/normalisation variants, random MPS with bond dimensions 1-4, random bit strings and feature vectors are "
                  "prepared by the real templates on default.qubit, natively and through every registered rule; held on the inputs observed.",
    "level_note": "Trusts default.qubit's elementary-gate simulation (C26) and numpy. ArbitraryStatePreparation and QAOAEmbedding have no "
                  "documented closed form of the prepared state and are listed as uncovered. QROMStatePreparation is compared within "
                  "(n+1)*2*pi/2^m for m precision wires. IQPEmbedding's entangler is taken as MultiRZ(x_i x_j) as in the documented "
                  "compute_decomposition example (the prose formula differs by a factor 2).",
    "shards": {"quick": 3, "thorough": 16},
    "budget_s": {"quick": 100, "thorough": 480},
    "min_evals": {"quick": 600, "thorough": 15000},
    "min_nontrivial": {"quick": 100, "thorough": 1500},
    "deciding": ["prep.state"],
    "rule": "case = (template, target state / features, hyper-parameters, wire labels); one evaluation = one (case, path); distinct = "
            "distinct (template, rounded target, hyper-parameters); non-trivial = target is not a computational basis state or acts on >= 2 wires",
    "assumptions": ["reference states transcribe the docstrings"],
}

TOL = 5e-7   # (1.1e-7 observed on the unchanged tree for block-zero inputs in the thorough tier; a wrong angle formula gives >= 1e-3)  # angle synthesis (arccos/arctan of amplitudes) limits the prepared state to ~sqrt(eps) = 1.5e-8 for block-zero inputs


# ------------------------------------------------------------------------------------------ generators
def rand_state(r, n, kind=None):
    d = 2**n
    kind = kind or ["complex", "real", "sparse", "blockzero", "basis", "negreal", "phases", "tiny"][int(r.integers(0, 8))]
    if kind == "complex":
        v = r.normal(size=d) + 1j * r.normal(size=d)
    elif kind == "real":
        v = np.abs(r.normal(size=d)) + 0j
    elif kind == "negreal":
        v = r.normal(size=d) + 0j
    elif kind == "sparse":
        v = np.zeros(d, dtype=complex)
        k = int(r.integers(1, max(2, d // 2) + 1))
        idx = r.permutation(d)[:k]
        v[idx] = r.normal(size=k) + 1j * r.normal(size=k)
    elif kind == "blockzero":
        v = r.normal(size=d) + 1j * r.normal(size=d)
        if n >= 2:
            blk = 2 ** int(r.integers(1, n))
            start = blk * int(r.integers(0, d // blk))
            v[start:start + blk] = 0
        if np.linalg.norm(v) == 0:
            v[0] = 1
    elif kind == "basis":
        v = np.zeros(d, dtype=complex)
        v[int(r.integers(0, d))] = np.exp(1j * r.uniform(0, 2 * np.pi)) if r.random() < 0.5 else 1.0
    elif kind == "phases":
        v = np.exp(1j * r.uniform(-np.pi, np.pi, size=d)) / np.sqrt(d)
        if r.random() < 0.5:
            v = v * r.choice([1, -1, 1j, -1j], size=d)
    else:
        v = r.normal(size=d) + 1j * r.normal(size=d)
        v[r.permutation(d)[: max(1, d // 2)]] *= 1e-7
    return v / np.linalg.norm(v), kind


def labels(r, n, avoid=()):
    style = r.random()
    if style < 0.35:
        pool = list(range(30))
    elif style < 0.7:
        pool = [int(x) for x in r.permutation(30)]
    else:
        pool = [f"q{int(x)}" if x % 2 else int(x) for x in r.permutation(30)]
    pool = [p for p in pool if p not in avoid]
    return pool[:n]


def embed_state(psi, wires, all_wires):
    """state on all_wires (first wire most significant) = psi on `wires` ⊗ |0> on the rest."""
    n, N = len(wires), len(all_wires)
    T = np.zeros([2] * N, dtype=complex)
    pos = [all_wires.index(w) for w in wires]
    P = np.asarray(psi, dtype=complex).reshape([2] * n)
    idx = [0] * N
    sl = [0] * N
    for a in pos:
        sl[a] = slice(None)
    # place P with its axes (ordered as `wires`) onto the axes `pos`
    sub = T[tuple(sl)]  # axes = sorted(pos) order
    order = np.argsort(pos)
    sub[...] = np.transpose(P, order)
    return T.reshape(-1)


def kron_all(mats):
    out = np.ones((1,), dtype=complex)
    for m in mats:
        out = np.kron(out, m)
    return out


def run(ctx):
    import warnings

    import pennylane as qp
    from pennylane.decomposition.utils import _get_decomp_args

    try:
        from pennylane.exceptions import AllocationError
    except Exception:  # noqa: BLE001
        class AllocationError(Exception):
            pass

    warnings.filterwarnings("ignore")
    from pv.ref.c53_limit import limit_repeats
    limit_repeats(ctx)

    def rule_name(rule):
        for attr in ("name", "__name__"):
            v = getattr(rule, attr, None)
            if isinstance(v, str):
                return v
        return getattr(getattr(rule, "_impl", None), "__name__", repr(rule)[:40])

    def check_case(name, make, wires, aux, target, info, phase_free=False, tol=TOL, nontrivial=True, fp=None, batch=False, classifier=None):
        """target: state on `wires` (or (B, 2^n) batch); aux wires must end in |0>."""
        info = {"template": name, **info, "wires": [str(w) for w in wires], "aux": [str(w) for w in aux]}
        ctx.case(fp or fingerprint(name, np.round(np.asarray(target), 9), sorted((k, repr(v)) for k, v in info.items() if k not in ("wires", "aux"))),
                 nontrivial=nontrivial, cls=name, sample={k: v for k, v in info.items()})
        try:
            op = make()
        except Exception as e:  # noqa: BLE001
            ctx.violation("prep.state", f"{name}: constructor raised {type(e).__name__}: {str(e)[:300]}", case=info, mech=f"ctor:{name}:{type(e).__name__}")
            return
        base = list(wires) + list(aux)

        def execute(ops_fn, npool):
            dev_wires = base + [f"_pool{i}" for i in range(npool)]
            dev = qp.device("default.qubit", wires=dev_wires)
            tape = qp.tape.QuantumScript(list(ops_fn()), [qp.state()])
            return np.asarray(qp.execute([tape], dev)[0]), dev_wires

        def judge(st, dev_wires, path):
            ctx.ev("prep.state")
            tg = np.asarray(target, dtype=complex)
            if batch:
                want = np.stack([embed_state(t, list(wires), dev_wires) for t in tg])
            else:
                want = embed_state(tg, list(wires), dev_wires)
            if st.shape != want.shape:
                ctx.violation("prep.state", f"{name} [{path}]: state has shape {st.shape}, expected {want.shape}", case={**info, "path": path},
                              mech=f"shape:{name}:{path.split('#')[0]}")
                return
            rows_s = st.reshape(-1, want.shape[-1])
            rows_w = want.reshape(-1, want.shape[-1])
            worst, why = 0.0, None
            for s_, w_ in zip(rows_s, rows_w):
                err = float(np.linalg.norm(s_ - w_))
                if phase_free or err > tol:
                    ov = np.vdot(w_, s_)
                    ph = ov / abs(ov) if abs(ov) > 1e-12 else 1.0
                    err_ph = float(np.linalg.norm(s_ - ph * w_))
                else:
                    err_ph = err
                e = err_ph if phase_free else err
                if e > worst:
                    worst = e
                    if e > tol:
                        # leak to auxiliary wires?
                        full = np.abs(s_.reshape([2] * len(dev_wires))) ** 2
                        axes = tuple(range(len(wires)))
                        paux = full.sum(axis=axes).reshape(-1) if len(dev_wires) > len(wires) else np.ones(1)
                        if paux[0] < 1 - 1e-7:
                            why = "dirty-aux"
                        elif err_ph <= tol:
                            why = "global-phase"
                        else:
                            why = "state"
            if worst > tol:
                mech = classifier(path, why) if classifier else None
                ctx.violation("prep.state", f"{name} [{path}]: prepared state differs from the requested one by {worst:.3e} ({why}; tolerance {tol:.1e})",
                              case={**info, "path": path}, observed=st, expected=want, mech=mech or f"{why}:{name}:{path.split('#')[0]}")

        def attempt(path, ops_fn):
            res = None
            for npool in (0, 1, 2, 4, 7):
                if len(base) + npool > 16:
                    ctx.count("skipped_too_wide")
                    return
                try:
                    res = execute(ops_fn, npool)
                    break
                except AllocationError:
                    continue
                except Exception as e:  # noqa: BLE001
                    if type(e).__name__ == "DecompositionError" and "work wires" in str(e):
                        continue
                    mech = classifier(path, f"raise:{type(e).__name__}") if classifier else None
                    ctx.violation("prep.state", f"{name} [{path}]: raised {type(e).__name__}: {str(e)[:300]}", case={**info, "path": path},
                                  mech=mech or f"raise:{name}:{path.split('#')[0]}:{type(e).__name__}")
                    return
            if res is None:
                ctx.inconclusive_case(f"{name} [{path}]: dynamic wire allocation could not be satisfied")
                return
            ctx.cover(f"{name}:{path.split('#')[0]}")
            judge(res[0], res[1], path)

        attempt("native", lambda: [op])
        try:
            rules = list(qp.list_decomps(op))
            params, args, kwargs = _get_decomp_args(op)
        except Exception:  # noqa: BLE001
            rules = []
        for rule in rules:
            try:
                if not rule.is_applicable(**params):
                    continue
            except Exception:  # noqa: BLE001
                pass

            def queue_rule(rule=rule):
                with qp.queuing.AnnotatedQueue() as q:
                    rule(*args, **kwargs)
                return qp.tape.QuantumScript.from_queue(q).operations

            attempt(f"rule:{rule_name(rule)}", queue_rule)
        if getattr(op, "has_decomposition", False):
            attempt("decomposition", lambda: op.decomposition())

    RX = lambda t: np.array([[np.cos(t / 2), -1j * np.sin(t / 2)], [-1j * np.sin(t / 2), np.cos(t / 2)]])  # noqa: E731
    RY = lambda t: np.array([[np.cos(t / 2), -np.sin(t / 2)], [np.sin(t / 2), np.cos(t / 2)]], dtype=complex)  # noqa: E731
    RZ = lambda t: np.array([[np.exp(-1j * t / 2), 0], [0, np.exp(1j * t / 2)]])  # noqa: E731
    Hm = np.array([[1, 1], [1, -1]], dtype=complex) / np.sqrt(2)

    # ------------------------------------------------------------------ case makers
    def c_stateprep(r):
        n = int(r.integers(1, 6))
        w = labels(r, n)
        psi, kind = rand_state(r, n)
        variant = int(r.integers(0, 4))
        if variant == 0:
            check_case("StatePrep", lambda: qp.StatePrep(psi, wires=w), w, [], psi, {"kind": kind, "n": n}, nontrivial=kind != "basis" or n >= 2)
        elif variant == 1:
            sc = float(r.uniform(0.1, 7))
            check_case("StatePrep", lambda: qp.StatePrep(sc * psi, wires=w, normalize=True), w, [], psi, {"kind": kind, "n": n, "normalize": True, "scale": sc})
        elif variant == 2 and n >= 2:
            k = int(r.integers(1, 2**n))
            part = psi[:k].copy()
            if np.linalg.norm(part) < 1e-6:
                part[0] = 1.0
            pad = 0.0
            full = np.concatenate([part, np.full(2**n - k, pad)])
            full = full / np.linalg.norm(full)
            check_case("StatePrep", lambda: qp.StatePrep(part, wires=w, pad_with=pad, normalize=True), w, [], full, {"kind": kind, "n": n, "pad_with": pad, "k": k})
        else:
            B = int(r.integers(2, 4))
            batch = np.stack([rand_state(r, n)[0] for _ in range(B)])
            check_case("StatePrep", lambda: qp.StatePrep(batch, wires=w), w, [], batch, {"kind": "batch", "n": n, "B": B}, batch=True)

    def c_amplitude(r):
        n = int(r.integers(1, 6))
        w = labels(r, n)
        psi, kind = rand_state(r, n)
        variant = int(r.integers(0, 4))
        if variant == 0:
            check_case("AmplitudeEmbedding", lambda: qp.AmplitudeEmbedding(psi, wires=w), w, [], psi, {"kind": kind, "n": n}, phase_free=True)
        elif variant == 1:
            sc = float(r.uniform(0.1, 30))
            feats = sc * psi if r.random() < 0.5 else list(sc * psi)
            check_case("AmplitudeEmbedding", lambda: qp.AmplitudeEmbedding(feats, wires=w, normalize=True), w, [], psi,
                       {"kind": kind, "n": n, "normalize": True, "scale": sc}, phase_free=True)
        elif variant == 2:
            k = int(r.integers(1, 2**n + 1))
            part = (r.normal(size=k) + (1j * r.normal(size=k) if r.random() < 0.5 else 0)) * float(r.uniform(0.2, 5))
            pad = complex(np.round(r.normal(), 3), np.round(r.normal(), 3)) if r.random() < 0.4 else float(r.choice([0.0, 0.5, -1.0, 2.0]))
            full = np.concatenate([part, np.full(2**n - k, pad)]).astype(complex)
            if np.linalg.norm(full) < 1e-9:
                return
            full = full / np.linalg.norm(full)
            check_case("AmplitudeEmbedding", lambda: qp.AmplitudeEmbedding(part, wires=w, pad_with=pad, normalize=True), w, [], full,
                       {"n": n, "k": k, "pad_with": repr(pad), "normalize": True}, phase_free=True)
        else:
            B = int(r.integers(2, 4))
            batch = np.stack([rand_state(r, n)[0] for _ in range(B)])
            check_case("AmplitudeEmbedding", lambda: qp.AmplitudeEmbedding(batch * 3.0, wires=w, normalize=True), w, [], batch,
                       {"kind": "batch", "n": n, "B": B}, phase_free=True, batch=True)

    def c_mottonen(r):
        n = int(r.integers(1, 5 if ctx.quick else 6))
        w = labels(r, n)
        psi, kind = rand_state(r, n)
        check_case("MottonenStatePreparation", lambda: qp.MottonenStatePreparation(psi, wires=w), w, [], psi, {"kind": kind, "n": n},
                   nontrivial=kind != "basis" or n >= 2)

    def c_multiplexer(r):
        n = int(r.integers(1, 5))
        w = labels(r, n)
        psi, kind = rand_state(r, n)
        half = 2 ** (n - 1)
        zero_first = float(np.linalg.norm(psi[half:])) < 1e-12   # first multiplexed rotation has angle 0 and no control wires

        def cls_mux(path, why):
            if why and why.startswith("raise:") and zero_first:
                return "MultiplexerStatePreparation:zero-angle-uncontrolled-SelectPauliRot-raises"
            return None

        check_case("MultiplexerStatePreparation", lambda: qp.MultiplexerStatePreparation(psi, wires=w), w, [], psi, {"kind": kind, "n": n},
                   classifier=cls_mux)

    def c_basis(r):
        n = int(r.integers(1, 7))
        w = labels(r, n)
        bits = [int(b) for b in r.integers(0, 2, size=n)]
        psi = np.zeros(2**n, dtype=complex)
        psi[int("".join(map(str, bits)), 2)] = 1
        cls = r.random()
        form = int(r.integers(0, 4))
        arg = [bits, np.array(bits), tuple(bits), np.array(bits, dtype=bool)][form]
        if cls < 0.5:
            check_case("BasisState", lambda: qp.BasisState(arg, wires=w), w, [], psi, {"bits": bits, "form": form}, nontrivial=n >= 2)
        else:
            check_case("BasisEmbedding", lambda: qp.BasisEmbedding(arg, wires=w), w, [], psi, {"bits": bits, "arg": repr(arg)[:40]}, nontrivial=n >= 2)

    def c_angle(r):
        n = int(r.integers(1, 6))
        N = int(r.integers(1, n + 1))
        w = labels(r, n)
        rot = "XYZ"[int(r.integers(0, 3))]
        feats = r.uniform(-2 * np.pi, 2 * np.pi, size=N)
        if r.random() < 0.2:
            feats[int(r.integers(0, N))] = float(r.choice([0.0, np.pi, -np.pi, 2 * np.pi]))
        R = {"X": RX, "Y": RY, "Z": RZ}[rot]
        psi = kron_all([(R(feats[i]) if i < N else np.eye(2))[:, 0] for i in range(n)])
        if r.random() < 0.25:
            B = int(r.integers(2, 4))
            fb = r.uniform(-np.pi, np.pi, size=(B, N))
            tb = np.stack([kron_all([(R(fb[b, i]) if i < N else np.eye(2))[:, 0] for i in range(n)]) for b in range(B)])
            check_case("AngleEmbedding", lambda: qp.AngleEmbedding(fb, wires=w, rotation=rot), w, [], tb, {"rotation": rot, "n": n, "N": N, "B": B}, batch=True)
        else:
            check_case("AngleEmbedding", lambda: qp.AngleEmbedding(feats, wires=w, rotation=rot), w, [], psi,
                       {"rotation": rot, "n": n, "features": feats.tolist()})

    def c_iqp(r):
        n = int(r.integers(1, 5))
        w = labels(r, n)
        feats = r.uniform(-np.pi, np.pi, size=n)
        reps = int(r.integers(1, 4))
        pattern = None
        pairs = [(i, j) for i in range(n) for j in range(i + 1, n)]
        if n >= 2 and r.random() < 0.5:
            k = int(r.integers(1, len(pairs) + 2))
            pattern = [list(pairs[int(t)]) if r.random() < 0.7 else list(pairs[int(t)])[::-1] for t in r.integers(0, len(pairs), size=k)]
        use = pairs if pattern is None else [tuple(p) for p in pattern]
        dim = 2**n
        z = np.array([[1 - 2 * ((b >> (n - 1 - q)) & 1) for q in range(n)] for b in range(dim)])
        diag = np.ones(dim, dtype=complex)
        for q in range(n):
            diag = diag * np.exp(-1j * feats[q] / 2 * z[:, q])
        for (i, j) in use:
            diag = diag * np.exp(-1j * feats[i] * feats[j] / 2 * z[:, i] * z[:, j])
        Hn = np.ones((1, 1), dtype=complex)
        for _ in range(n):
            Hn = np.kron(Hn, Hm)
        psi = np.zeros(dim, dtype=complex)
        psi[0] = 1
        for _ in range(reps):
            psi = diag * (Hn @ psi)
        pat_arg = None if pattern is None else [[w[a], w[b]] for a, b in pattern] if False else pattern
        kw = {} if pattern is None else {"pattern": [[w[a], w[b]] for a, b in pattern]}
        check_case("IQPEmbedding", lambda: qp.IQPEmbedding(feats, wires=w, n_repeats=reps, **kw), w, [], psi,
                   {"n": n, "features": feats.tolist(), "n_repeats": reps, "pattern": pattern})

    def c_cosine(r):
        n = int(r.integers(1, 7))
        w = labels(r, n)
        k = np.arange(2**n)
        psi = np.sqrt(2.0 ** (1 - n)) * np.cos(np.pi * k / 2**n - np.pi / 2)
        check_case("CosineWindow", lambda: qp.CosineWindow(wires=w), w, [], psi.astype(complex), {"n": n}, fp=fingerprint("cos", n, [str(x) for x in w]))

    def c_superposition(r):
        n = int(r.integers(1, 6))
        w = labels(r, n)
        aux = labels(r, 1, avoid=w)
        m = int(r.integers(1, min(2**n, 7) + 1))
        idx = sorted(int(x) for x in r.permutation(2**n)[:m]) if r.random() < 0.5 else [int(x) for x in r.permutation(2**n)[:m]]
        cf = r.normal(size=m) + (1j * r.normal(size=m) if r.random() < 0.6 else 0)
        if r.random() < 0.2:
            cf = np.abs(cf)
        cf = cf / np.linalg.norm(cf)
        bases = [[(i >> (n - 1 - q)) & 1 for q in range(n)] for i in idx]
        psi = np.zeros(2**n, dtype=complex)
        psi[idx] = cf
        check_case("Superposition", lambda: qp.Superposition(cf, bases, wires=w, work_wire=aux[0]), w, aux, psi, {"n": n, "indices": idx})

    def c_sparse(r):
        n = int(r.integers(2, 6))
        w = labels(r, n)
        m = int(r.integers(1, min(2**n, 6) + 1))
        idx = tuple(int(x) for x in r.permutation(2**n)[:m])
        cf = r.normal(size=m) + (1j * r.normal(size=m) if r.random() < 0.6 else 0)
        cf = cf / np.linalg.norm(cf)
        psi = np.zeros(2**n, dtype=complex)
        psi[list(idx)] = cf
        if r.random() < 0.5:
            need = max(int(np.ceil(np.log2(max(m, 1)))) - 1, 1)
            extra = int(r.integers(0, 3)) if r.random() < 0.3 else 0
            aux = labels(r, need + extra, avoid=w)
            check_case("PartialUnaryStatePreparation", lambda: qp.PartialUnaryStatePreparation(cf, wires=w, indices=idx, work_wires=aux), w, aux, psi,
                       {"n": n, "indices": list(idx), "nwork": len(aux)},
                       classifier=(lambda path, why: "PartialUnaryStatePreparation:single-term-phase-dropped" if (m == 1 and why == "global-phase") else None))
        else:
            try:
                sizes = qp.SumOfSlatersPrep.required_register_sizes(idx, n)
            except Exception as e:  # noqa: BLE001
                ctx.violation("prep.state", f"SumOfSlatersPrep.required_register_sizes raised {type(e).__name__}: {e}", case={"indices": list(idx), "n": n},
                              mech=f"raise:SumOfSlatersPrep:sizes:{type(e).__name__}")
                return
            regs, used = {}, list(w)
            for key, sz in sizes.items():
                if key == "wires":
                    continue
                regs[key] = labels(r, int(sz), avoid=used)
                used += regs[key]
            aux = [x for v in regs.values() for x in v]
            check_case("SumOfSlatersPrep", lambda: qp.SumOfSlatersPrep(cf, wires=w, indices=idx, **regs), w, aux, psi,
                       {"n": n, "indices": list(idx), "register_sizes": {k: int(v) for k, v in sizes.items()}},
                       classifier=(lambda path, why: "SumOfSlatersPrep:single-term-phase-dropped" if (m == 1 and why == "global-phase") else None))

    def c_qrom_prep(r):
        n = int(r.integers(1, 4))
        m = int(r.integers(7, 10)) if ctx.quick else int(r.integers(7, 11))
        w = labels(r, n)
        prec = labels(r, m, avoid=w)
        nwork = int(r.integers(0, 3))
        work = labels(r, nwork, avoid=w + prec)
        psi, kind = rand_state(r, n, ["complex", "real", "sparse", "negreal", "phases"][int(r.integers(0, 5))])
        tol = (n + 1) * 2 * np.pi / 2**m
        check_case("QROMStatePreparation", lambda: qp.QROMStatePreparation(psi, wires=w, precision_wires=prec, work_wires=work or None), w, prec + work, psi,
                   {"kind": kind, "n": n, "precision": m, "nwork": nwork}, tol=tol)

    def c_mps(r):
        n = int(r.integers(2, 6))
        w = labels(r, n)
        bonds = [int(r.choice([1, 2, 2, 4])) for _ in range(n - 1)]
        # bond dimension cannot exceed what the left/right parts can carry (keeps the MPS injective enough) – not required, just realistic
        cplx = r.random() < 0.6
        ten = []
        for i in range(n):
            shape = (2, bonds[0]) if i == 0 else ((bonds[-1], 2) if i == n - 1 else (bonds[i - 1], 2, bonds[i]))
            t = r.normal(size=shape) + (1j * r.normal(size=shape) if cplx else 0)
            ten.append(t)
        # contraction
        cur = ten[0]  # (2, b)
        for i in range(1, n - 1):
            cur = np.tensordot(cur, ten[i], axes=([-1], [0]))  # (..., 2, b)
        cur = np.tensordot(cur, ten[-1], axes=([-1], [0]))
        psi = cur.reshape(-1)
        nrm = np.linalg.norm(psi)
        if nrm < 1e-9:
            return
        psi = psi / nrm
        k = int(np.log2(max(bonds)))
        aux = labels(r, max(k, 1) + (1 if r.random() < 0.3 else 0), avoid=w)
        variant = "random"
        if n >= 3 and r.random() < 0.3:
            # intermediate tensors right-canonical (own numpy sweep), last tensor NOT: right_canonicalize=True must still fix the last one
            T = [np.array(t) for t in ten]
            T[0] = T[0].reshape(1, *T[0].shape)
            T[-1] = T[-1].reshape(*T[-1].shape, 1)
            for i in range(n - 1, 0, -1):
                cl, d_, cr = T[i].shape
                U, S, Vh = np.linalg.svd(T[i].reshape(cl, d_ * cr), full_matrices=False)
                T[i] = Vh.reshape(-1, d_, cr)
                T[i - 1] = np.tensordot(T[i - 1], U * S, axes=([2], [0]))
            bl = T[-1].shape[0]
            G = r.normal(size=(bl, bl)) + np.eye(bl) * 2.0
            T[-1] = np.tensordot(G, T[-1], axes=([1], [0]))       # last tensor no longer right-canonical
            if all(T[i].shape[0] in (1, 2, 4) and T[i].shape[2] in (1, 2, 4) for i in range(n)):
                ten = [T[0][0]] + T[1:-1] + [T[-1][:, :, 0]]
                cur = ten[0]
                for i in range(1, n - 1):
                    cur = np.tensordot(cur, ten[i], axes=([-1], [0]))
                cur = np.tensordot(cur, ten[-1], axes=([-1], [0]))
                psi = cur.reshape(-1) / np.linalg.norm(cur)
                variant = "intermediate-canonical-last-not"

        def cls_mps(path, why):
            if why in ("state", "dirty-aux", "global-phase"):
                if n == 2:
                    return "MPSPrep:right_canonicalize-skipped:two-sites"
                if variant == "intermediate-canonical-last-not":
                    return "MPSPrep:right_canonicalize-skipped:last-tensor-unchecked"
            return None

        check_case("MPSPrep", lambda: qp.MPSPrep([np.array(t) for t in ten], wires=w, work_wires=aux, right_canonicalize=True), w, aux, psi,
                   {"n": n, "bonds": [int(t.shape[-1]) for t in ten[:-1]], "complex": bool(cplx), "variant": variant}, phase_free=False, classifier=cls_mps)

    makers = [("StatePrep", c_stateprep, 3), ("AmplitudeEmbedding", c_amplitude, 3), ("MottonenStatePreparation", c_mottonen, 4),
              ("MultiplexerStatePreparation", c_multiplexer, 3), ("Basis", c_basis, 2), ("AngleEmbedding", c_angle, 2), ("IQPEmbedding", c_iqp, 2),
              ("CosineWindow", c_cosine, 1), ("Superposition", c_superposition, 3), ("Sparse", c_sparse, 3), ("QROMStatePreparation", c_qrom_prep, 1),
              ("MPSPrep", c_mps, 3)]
    sched = [m for m in makers for _ in range(m[2])]
    total = ctx.n(420, 12000)
    ctx.uncovered("ArbitraryStatePreparation", "no documented closed form of the prepared state (only consistency of decompositions, see C10)")
    ctx.uncovered("QAOAEmbedding", "trainable feature map without a documented closed-form state")
    for i in range(total):
        if not ctx.more():
            break
        gi = i * ctx.nshards + ctx.shard
        ctx.case_index = gi
        r = ctx.case_rng(gi)
        name, fn, _ = sched[gi % len(sched)]
        try:
            fn(r)
        except Exception as e:  # noqa: BLE001
            ctx.inconclusive_case(f"harness error in {name}: {type(e).__name__}: {str(e)[:200]}")
