"""C52 — Observable grouping partitions correctly.

Post-conditions on the real ``group_observables`` (with and without coefficients), ``compute_partition_indices``,
``PauliGroupingStrategy`` (partition_observables / idx_partitions_from_graph with custom indices),
``optimize_measurements``, ``diagonalize_pauli_word`` + ``qwc_rotation`` and ``diagonalize_qwc_pauli_words`` /
``diagonalize_qwc_groupings`` for every grouping type x colouring method:

* partition exactness  — flattened output is the input multiset of Pauli words (words are read from the *structure* of
  the operators — names, wires, operands — not from pauli_rep); index partitions are a partition of range(m);
* coefficients         — unique tag coefficients: the multiset of (word, coefficient) pairs is preserved and the coefficient
  groups are aligned with the observable groups;
* relation             — every pair inside a group satisfies qwc / commuting / anticommuting by the symplectic rule written in
  pv/ref/c51_pauli.py (cross-checked by dense commutators now and then);
* diagonalisation      — with U the unitary of the returned gate list (RX/RY matrices from the documented formulas, composed by
  the reference simulator) U·P·U† equals the matrix of the returned observable for every member, coefficient included,
  and that matrix is diagonal.
"""
import numpy as np

from pv.ctx import fingerprint

META = {
    "id": "C52",
    "level": "exploration",
    "technique": "runtime post-conditions on group_observables / compute_partition_indices / PauliGroupingStrategy / optimize_measurements / "
                 "diagonalize_* : multiset and index-partition checks with unique coefficient tags, pairwise relation by an independent "
                 "symplectic rule (dense commutators as cross-check), U·P·U† against dense matrices with U from the reference simulator",
    "level_text": "Random lists of 1–40 Pauli words (duplicates, identity factors, Identity(wire), the wire-less Identity, single Paulis, prod and "
                  "@ forms, mixed wire labels) on <= 6 wires, all 3 grouping types x 4 colouring methods in rotation; held on the lists observed.",
    "level_note": "Scalar multiples of words are only given to the diagonalisation functions (their docs admit them); group_observables' documented "
                  "domain is Pauli words. Optimality (number of groups) is not part of the statement and is not checked.",
    "shards": {"quick": 2, "thorough": 8},
    "budget_s": {"quick": 50, "thorough": 220},
    "min_evals": {"quick": 20000, "thorough": 500000},
    "deciding": ["group.partition", "group.coeffs", "group.relation", "indices.partition", "diag.qwc"],
    "rule": "case = (list of words, grouping type, method); distinct = distinct (words, type, method); non-trivial = at least 3 words, at "
            "least two different words sharing a wire, and the result has a group with >= 2 members",
    "assumptions": ["RX/RY reference matrices in pv/ref/gates.py transcribe the documented formulas"],
}

GT = ["qwc", "commuting", "anticommuting"]
METHODS = ["lf", "rlf", "dsatur", "gis"]


def run(ctx):
    import warnings
    from collections import Counter

    import pennylane as qp
    from pennylane.pauli import PauliGroupingStrategy, compute_partition_indices, group_observables

    from pv.gen import num
    from pv.ref import bridge, sv
    from pv.ref import c51_pauli as R

    ctx.budget_s += ctx.elapsed()  # the soft budget counts work, not the (load-dependent) import of pennylane
    _viol = ctx.violation

    def _counted_violation(*a, **k):  # every violation is also counted per mechanism (the witness list itself is capped)
        ctx.count("mech:" + str(k.get("mech")))
        return _viol(*a, **k)

    ctx.violation = _counted_violation
    warnings.filterwarnings("ignore")
    rng = ctx.rng
    OPS = {"X": qp.X, "Y": qp.Y, "Z": qp.Z}
    NAME = {"PauliX": "X", "PauliY": "Y", "PauliZ": "Z"}

    # ------------------------------------------------------------------ structural reading of an operator (independent of pauli_rep)
    def canon(op):
        """(coefficient, word dict) read from names / wires / operands / scalar."""
        n = op.name
        if n in NAME:
            return 1.0, {op.wires[0]: NAME[n]}
        if n == "Identity":
            return 1.0, {}
        if n == "Prod":
            c, w = 1.0, {}
            for o in op.operands:
                ci, wi = canon(o)
                for k, v in wi.items():
                    if k in w:
                        raise ValueError(f"factor overlap on wire {k} in {op}")
                    w[k] = v
                c *= ci
            return c, w
        if n == "SProd":
            ci, wi = canon(op.base)
            return complex(np.asarray(op.scalar)) * ci, wi
        raise ValueError(f"not a Pauli word: {op!r}")

    def key(word):
        return tuple(sorted(((str(type(k).__name__), str(k)), v) for k, v in word.items()))

    REL = {"qwc": R.qwc, "commuting": R.commute, "anticommuting": lambda a, b: not R.commute(a, b)}

    # ------------------------------------------------------------------ generator
    def mk_op(word, pool):
        """operator for a word in a random form; may add explicit Identity factors"""
        facs = [OPS[c](w) for w, c in word.items()]
        free = [w for w in pool if w not in word]
        if free and rng.random() < 0.25:
            facs.append(qp.Identity(free[int(rng.integers(len(free)))]))
        if not facs:
            return qp.Identity(pool[int(rng.integers(len(pool)))])
        facs = [facs[int(k)] for k in rng.permutation(len(facs))]
        if len(facs) == 1:
            return facs[0]
        if rng.random() < 0.5:
            return qp.prod(*facs)
        o = facs[0]
        for f in facs[1:]:
            o = o @ f
        return o

    def gen_words(pool, m, style):
        words = []
        if style == "qwc-rich":  # a few hidden bases -> large qwc groups
            bases = [{w: "XYZ"[int(rng.integers(3))] for w in pool} for _ in range(int(rng.integers(1, 4)))]
            for _ in range(m):
                b = bases[int(rng.integers(len(bases)))]
                words.append({w: c for w, c in b.items() if rng.random() < 0.5})
        elif style == "anti-rich":  # many mutually anticommuting words
            w0 = pool[0]
            for _ in range(m):
                wd = {w0: "XYZ"[int(rng.integers(3))]}
                for w in pool[1:]:
                    if rng.random() < 0.3:
                        wd[w] = "XYZ"[int(rng.integers(3))]
                words.append(wd)
        else:
            for _ in range(m):
                words.append({w: "XYZ"[int(rng.integers(3))] for w in pool if rng.random() < 0.5})
        # duplicates
        for _ in range(int(rng.integers(0, 1 + m // 3))):
            words[int(rng.integers(m))] = dict(words[int(rng.integers(m))])
        return words

    def describe(ops_):
        return [repr(o)[:60] for o in ops_[:14]]

    def U_of(gates, W):
        return sv.unitary([(bridge.op_matrix(g)[0], list(g.wires)) for g in gates], W)

    state = {"has_wireless": False}

    def check_relation(mon, gt, members, case, tag=""):
        """members: list of (word dict, is_wireless_identity)"""
        for a in range(len(members)):
            for b in range(a + 1, len(members)):
                ctx.ev(mon)
                (wa, ia), (wb, ib) = members[a], members[b]
                if not REL[gt](wa, wb):
                    # group_observables appends wire-less observables to group 0; through the rlf index matching (identity words are
                    # 'identical' whatever their wires) the same slip can surface on another identity of the list
                    wireless = gt == "anticommuting" and (ia or ib or (state["has_wireless"] and (not wa or not wb)))
                    ctx.violation(mon, f"{tag}two members of one '{gt}' group do not satisfy the relation: {dict(wa)} vs {dict(wb)}", case=case,
                                  mech=f"relation:{gt}:wireless-identity" if wireless else f"relation:{gt}")
                    return False
        return True

    ncases = ctx.n(4000, 120000)
    for i in range(ncases):
        if not ctx.more():
            break
        ctx.case_index = i
        gt = GT[(i + ctx.shard) % 3]
        method = METHODS[(i // 3 + ctx.shard) % 4]
        npool = int(rng.integers(1, 7))
        pool = num.wire_labels(rng, npool)
        r = rng.random()
        m = int(rng.integers(1, 6)) if r < 0.35 else (int(rng.integers(6, 15)) if r < 0.85 else int(rng.integers(15, 41)))
        style = ["plain", "qwc-rich", "anti-rich"][int(rng.integers(3))]
        words = gen_words(pool, m, style)
        obs = [mk_op(w, pool) for w in words]
        wireless = [False] * m
        if rng.random() < 0.08:  # the wire-less identity
            j = int(rng.integers(m))
            words[j], obs[j], wireless[j] = {}, qp.Identity(), True
        state["has_wireless"] = any(wireless)
        # sanity of the structural reader on our own inputs
        try:
            assert all(key(canon(o)[1]) == key(R.strip(w)) for o, w in zip(obs, words))
        except Exception as e:  # noqa: BLE001
            ctx.inconclusive_case(f"structural reader failed on generated input: {e}")
            continue
        keys = [key(w) for w in words]
        tags = [float(j) + 0.5 for j in range(m)]
        case = {"grouping_type": gt, "method": method, "observables": describe(obs), "m": m, "wires": [str(w) for w in pool]}
        distinct_overlap = any(keys[a] != keys[b] and set(words[a]) & set(words[b]) for a in range(m) for b in range(a + 1, m))
        nontrivial_result = False

        # ---- 1. group_observables without coefficients
        try:
            groups = group_observables(list(obs), grouping_type=gt, method=method)
        except Exception as e:  # noqa: BLE001
            ctx.ev("group.partition")
            ctx.violation("group.partition", f"group_observables raised {type(e).__name__}: {e}", case=case, mech=f"group:raise:{type(e).__name__}")
            groups = None
        if groups is not None:
            ctx.ev("group.partition")
            try:
                got = [[canon(o) for o in g] for g in groups]
            except Exception as e:  # noqa: BLE001
                ctx.violation("group.partition", f"a returned group member is not a Pauli word: {e}", case=case, mech="partition:not-a-word")
                got = None
            if got is not None:
                flat = Counter(key(w) for g in got for c, w in g)
                if flat != Counter(keys) or any(abs(c - 1) > 1e-12 for g in got for c, w in g) or any(len(g) == 0 for g in got):
                    ctx.violation("group.partition", "flattened groups are not the input multiset of Pauli words", case={**case, "groups": [describe(g) for g in groups]},
                                  mech="partition:multiset", observed=sorted(map(str, flat.items())), expected=sorted(map(str, Counter(keys).items())))
                else:
                    nontrivial_result = any(len(g) >= 2 for g in got)
                    for g, g_ops in zip(got, groups):
                        mem = [(w, len(o.wires) == 0) for (c, w), o in zip(g, g_ops)]
                        if not check_relation("group.relation", gt, mem, {**case, "group": describe(g_ops)}):
                            break
                    # dense cross-check of the symplectic oracle on one random pair
                    if i % 10 == 0 and m >= 2:
                        a, b = int(rng.integers(m)), int(rng.integers(m))
                        Ma, Mb = R.word_matrix(words[a], pool), R.word_matrix(words[b], pool)
                        ctx.ev("oracle.selfcheck")
                        dense_c = np.linalg.norm(Ma @ Mb - Mb @ Ma) < 1e-12
                        if dense_c != R.commute(words[a], words[b]):
                            ctx.inconclusive_case("symplectic oracle disagrees with dense matrices")

        # ---- 2. with unique coefficient tags (list or array container)
        as_array = bool(rng.integers(2))
        coeffs = np.array(tags) if as_array else list(tags)
        try:
            groups2, cgroups = group_observables(list(obs), coeffs, grouping_type=gt, method=method)
        except Exception as e:  # noqa: BLE001
            ctx.ev("group.coeffs")
            ctx.violation("group.coeffs", f"group_observables(coefficients) raised {type(e).__name__}: {e}", case=case, mech=f"group-coeffs:raise:{type(e).__name__}")
            groups2 = None
        if groups2 is not None:
            ctx.ev("group.coeffs")
            ccase = {**case, "groups": [describe(g) for g in groups2], "coeff_groups": [[float(x) for x in np.ravel(np.asarray(c))] for c in cgroups]}
            shapes_ok = len(groups2) == len(cgroups) and all(len(g) == len(np.ravel(np.asarray(c))) for g, c in zip(groups2, cgroups))
            if not shapes_ok:
                ctx.violation("group.coeffs", "coefficient groups are not aligned with the observable groups", case=ccase, mech="coeffs:shape")
            else:
                try:
                    pairs = Counter((key(canon(o)[1]), round(float(np.real(c)), 9)) for g, cg in zip(groups2, cgroups) for o, c in zip(g, np.ravel(np.asarray(cg))))
                except Exception as e:  # noqa: BLE001
                    pairs = None
                    ctx.violation("group.coeffs", f"unreadable group member: {e}", case=ccase, mech="partition:not-a-word")
                want = Counter((k, round(t, 9)) for k, t in zip(keys, tags))
                if pairs is not None and pairs != want:
                    ctx.violation("group.coeffs", "coefficients do not travel with their observables ((word, coefficient) multiset changed)", case=ccase,
                                  mech="coeffs:detached")

        # ---- 3. compute_partition_indices
        try:
            idxp = compute_partition_indices(list(obs), grouping_type=gt, method=method)
        except Exception as e:  # noqa: BLE001
            ctx.ev("indices.partition")
            ctx.violation("indices.partition", f"compute_partition_indices raised {type(e).__name__}: {e}", case=case, mech=f"indices:raise:{type(e).__name__}")
            idxp = None
        if idxp is not None:
            ctx.ev("indices.partition")
            flat = [int(x) for g in idxp for x in g]
            icase = {**case, "indices": [list(map(int, g)) for g in idxp]}
            if sorted(flat) != list(range(m)) or any(len(g) == 0 for g in idxp):
                ctx.violation("indices.partition", "index groups are not a partition of range(len(observables))", case=icase, mech="indices:not-a-partition")
            else:
                for g in idxp:
                    if not check_relation("group.relation", gt, [(words[int(j)], wireless[int(j)]) for j in g], icase, tag="compute_partition_indices: "):
                        break

        # ---- 4. PauliGroupingStrategy API (custom indices; partition_observables)
        if i % 3 == 0 and not any(wireless):
            try:
                strat = PauliGroupingStrategy(list(obs), grouping_type=gt, graph_colourer=method)
                part = strat.partition_observables()
                ctx.ev("strategy.partition")
                flat = Counter(key(canon(o)[1]) for g in part for o in g)
                if flat != Counter(keys):
                    ctx.violation("strategy.partition", "PauliGroupingStrategy.partition_observables is not a partition of the input", case=case, mech="partition:multiset")
                else:
                    for g in part:
                        if not check_relation("group.relation", gt, [(canon(o)[1], False) for o in g], case, tag="PauliGroupingStrategy: "):
                            break
                if method != "rlf":
                    custom = [int(x) for x in rng.permutation(m) * 3 + 100]
                    ip = strat.idx_partitions_from_graph(observables_indices=custom)
                    ctx.ev("strategy.partition")
                    flat = [int(x) for g in ip for x in g]
                    if sorted(flat) != sorted(custom):
                        ctx.violation("strategy.partition", "custom-index partition is not a partition of the given indices", case={**case, "custom": custom},
                                      mech="indices:custom-not-a-partition")
                    else:
                        pos = {c: k for k, c in enumerate(custom)}
                        for g in ip:
                            if not check_relation("group.relation", gt, [(words[pos[int(x)]], False) for x in g], case, tag="custom indices: "):
                                break
            except Exception as e:  # noqa: BLE001
                ctx.ev("strategy.partition")
                ctx.violation("strategy.partition", f"PauliGroupingStrategy raised {type(e).__name__}: {e}", case=case, mech=f"strategy:raise:{type(e).__name__}")

        ctx.case(fingerprint(keys, gt, method), m >= 3 and distinct_overlap and nontrivial_result, cls=f"{gt}/{method}", sample=case)

        # ---- 5. diagonalisation of qwc groups (from the real grouping when gt == qwc, else a generated qwc family)
        if gt == "qwc" and groups is not None:
            qgroups = [list(g) for g in groups if all(len(o.wires) for o in g)][:3]
        else:
            base = {w: "XYZ"[int(rng.integers(3))] for w in pool}
            fam = [{w: c for w, c in base.items() if rng.random() < 0.6} for _ in range(int(rng.integers(1, 6)))]
            qgroups = [[mk_op(w, pool) for w in fam]]
        for g in qgroups:
            # members may carry coefficients (documented for the diagonalisation functions)
            g_in, refs = [], []
            for o in g:
                c0, w0 = canon(o)
                if rng.random() < 0.3:
                    s = float(np.round(rng.uniform(-2, 2), 3)) or 0.5
                    o, c0 = qp.s_prod(s, o), s
                g_in.append(o)
                refs.append((c0, w0))
            gcase = {**case, "qwc_group": describe(g_in)}
            try:
                gates, diag = qp.pauli.diagonalize_qwc_pauli_words(list(g_in))
            except Exception as e:  # noqa: BLE001
                ctx.ev("diag.qwc")
                ctx.violation("diag.qwc", f"diagonalize_qwc_pauli_words raised {type(e).__name__}: {e} on a qwc group", case=gcase, mech=f"diag:raise:{type(e).__name__}")
                continue
            W = list(pool)
            try:
                Um = U_of(gates, W)
            except Exception as e:  # noqa: BLE001
                ctx.inconclusive_case(f"cannot build the unitary of the diagonalising gates: {e}")
                continue
            if len(diag) != len(g_in):
                ctx.ev("diag.qwc")
                ctx.violation("diag.qwc", "number of diagonal observables differs from the group size", case=gcase, mech="diag:count")
                continue
            for (c0, w0), dob in zip(refs, diag):
                ctx.ev("diag.qwc")
                P = complex(c0) * R.word_matrix(w0, W)
                try:
                    D = np.asarray(qp.matrix(dob, wire_order=W)).astype(complex)
                except Exception as e:  # noqa: BLE001
                    ctx.violation("diag.qwc", f"returned diagonal observable has no matrix: {e}", case=gcase, mech="diag:no-matrix")
                    break
                if np.linalg.norm(D - np.diag(np.diag(D))) > 1e-12:
                    ctx.violation("diag.qwc", f"returned observable {dob!r:.80} is not diagonal in the Z basis", case=gcase, mech="diag:not-diagonal")
                    break
                err = float(np.linalg.norm(Um @ P @ Um.conj().T - D))
                if not err < 1e-9 * max(1.0, abs(c0)) * len(D):
                    ctx.violation("diag.qwc", f"U·P·U† differs from the returned diagonal observable {dob!r:.80} by {err:.3e} (P = {c0} * {dict(w0)})", case=gcase,
                                  mech="diag:identity-coefficient-dropped" if (not w0 and abs(c0 - 1) > 1e-12) else "diag:wrong-image", observed=err, expected=0.0)
                    break

        # ---- 6. single word: diagonalize_pauli_word + qwc_rotation
        if i % 2 == 0:
            w0 = words[int(rng.integers(m))]
            if w0:
                singles = [OPS[c](w) for w, c in w0.items()]
                o = mk_op(w0, pool)
                s = 1.0
                if rng.random() < 0.3:
                    s = float(np.round(rng.uniform(-2, 2), 3)) or 0.5
                    o = qp.s_prod(s, o)
                ctx.ev("diag.word")
                try:
                    dob = qp.pauli.diagonalize_pauli_word(o)
                    gates = qp.pauli.qwc_rotation(singles)
                    W = list(pool)
                    Um = U_of(gates, W)
                    D = np.asarray(qp.matrix(dob, wire_order=W)).astype(complex)
                    P = s * R.word_matrix(w0, W)
                    if np.linalg.norm(D - np.diag(np.diag(D))) > 1e-12 or not np.linalg.norm(Um @ P @ Um.conj().T - D) < 1e-9 * len(D) * max(1, abs(s)):
                        ctx.violation("diag.word", f"qwc_rotation·P·qwc_rotation† differs from diagonalize_pauli_word(P) = {dob!r:.80}", case={**case, "word": repr(o)[:100]},
                                      mech="diag:word")
                except Exception as e:  # noqa: BLE001
                    ctx.violation("diag.word", f"diagonalize_pauli_word/qwc_rotation raised {type(e).__name__}: {e}", case={**case, "word": repr(o)[:100]},
                                  mech=f"diag-word:raise:{type(e).__name__}")

        # ---- 7. optimize_measurements (qwc only is implemented) — every output (D, c) is the image of the input word tagged c
        if gt == "qwc" and i % 2 == 1 and not any(wireless):
            ctx.ev("optimize.measurements")
            try:
                rots, dgroups, cg = qp.pauli.optimize_measurements(list(obs), list(tags), "qwc", method)
                W = list(pool)
                seen = []
                okk = len(rots) == len(dgroups) == len(cg)
                for rg, dg, cgi in zip(rots, dgroups, cg):
                    Um = U_of(rg, W)
                    if len(dg) != len(cgi):
                        okk = False
                        break
                    for dob, cc in zip(dg, cgi):
                        j = int(round(float(cc) - 0.5))
                        seen.append(j)
                        D = np.asarray(qp.matrix(dob, wire_order=W)).astype(complex)
                        if np.linalg.norm(D - np.diag(np.diag(D))) > 1e-12 or not np.linalg.norm(Um @ R.word_matrix(words[j], W) @ Um.conj().T - D) < 1e-9 * len(D):
                            okk = False
                if not okk or sorted(seen) != list(range(m)):
                    ctx.violation("optimize.measurements", "optimize_measurements: outputs are not the rotated images of the coefficient-tagged inputs", case=case,
                                  mech="optimize:wrong-image-or-partition")
            except Exception as e:  # noqa: BLE001
                ctx.violation("optimize.measurements", f"optimize_measurements raised {type(e).__name__}: {e}", case=case, mech=f"optimize:raise:{type(e).__name__}")

        # ---- 8. documented rejection: non-qwc lists must raise ValueError
        if i % 7 == 0 and npool >= 1:
            w = pool[0]
            bad = [qp.X(w), mk_op({w: "Z"}, pool)]
            ctx.ev("diag.rejects_non_qwc")
            try:
                qp.pauli.diagonalize_qwc_pauli_words(bad)
                ctx.violation("diag.rejects_non_qwc", "diagonalize_qwc_pauli_words accepted a non-qwc list", case={"list": describe(bad)}, mech="diag:accepts-non-qwc")
            except ValueError:
                ctx.reject("ValueError:not-qwc")
