"""C27 — Simulator devices agree with each other.

Differential monitor at ``qp.execute([tape], device)``: one generated circuit is executed on default.qubit and on every
device whose supported set contains it — default.mixed, reference.qubit, default.tensor (method mps with
max_bond_dim >= 2^(n/2), and method tn), default.clifford (Clifford circuits), lightning.qubit (when importable) — and

* ``agree.pair``  – each device's results equal default.qubit's (same shapes, values within tolerance),
* ``agree.ref``   – each device's results (default.qubit included) equal the independent R-SV reference, so that a
  common-mode error cannot hide,
* ``null.shape``  – null.qubit returns results with exactly the shapes / nesting of default.qubit's, for analytic
  execution, integer shots and shot vectors.
"""
import warnings

import numpy as np

from pv.ctx import CaseTimeout, fingerprint

META = {
    "id": "C27",
    "level": "exploration",
    "technique": "differential runtime monitor: the same generated tape on every simulator device, results compared pairwise with default.qubit and with an independent dense state-vector reference; recursive shape comparison for null.qubit",
    "level_text": "Random circuits restricted per device by the operations / measurements it supports (general, tensor-network-friendly and Clifford "
                  "profiles; random wire labels, permuted / superset device wires, broadcasting, state preparations) are executed on the real devices; "
                  "every result is compared with default.qubit's and with R-SV. Held on the circuits observed.",
    "level_note": "Tolerances: 1e-9 (1e-7 for entropies; 1e-8 for default.tensor whose MPS uses SVDs, with max_bond_dim = 2^ceil(n/2) so that no "
                  "truncation occurs). States are compared exactly (including global phase). lightning.qubit (an external plug-in not named in the statement) is compared when importable under non-deciding monitors; its exceptions are only counted. "
                  "Finite-shot agreement is C29's subject; only null.qubit's shapes are checked with shots.",
    "shards": {"quick": 3, "thorough": 9},
    "budget_s": {"quick": 110, "thorough": 180},
    "min_evals": {"quick": 800, "thorough": 5000},
    "deciding": ["agree.pair", "agree.ref", "null.shape"],
    "rule": "case = (circuit spec, profile, device); distinct = content fingerprint x device; non-trivial = reference final state is a superposition "
            "(>= 2 amplitudes) or the circuit is broadcast",
    "assumptions": ["reference gate table transcribes the documented formulas"],
}

ALLOWED = ("DeviceError", "DecompositionError", "DecompositionUndefinedError", "WireError")
GEN_ALLOW = ("special", "rot", "d1", "d2", "d3", "d4", "cnot", "mcx", "qu", "diag", "cqu", "multirz", "pcphase", "gphase", "sym", "paulirot", "grover", "intcmp")
TENSOR_ALLOW = ("special", "rot", "d1", "d2", "d3", "cnot", "qu", "diag", "multirz", "paulirot", "gphase", "sym")


def clifford_case(rng, gen):
    nw = int(rng.integers(1, 7))
    wires = gen.labels(rng, nw)
    ops = []
    if rng.random() < 0.3:
        k = int(rng.integers(1, nw + 1))
        ws = [wires[int(i)] for i in rng.choice(nw, size=k, replace=False)]
        ops.append({"t": "basis", "bits": [int(x) for x in rng.integers(0, 2, size=k)], "wires": ws})
    for _ in range(int(rng.integers(1, 16))):
        pool = [g for g in gen.CLIFFORD if g != "ECR"]  # ECR is not in default.clifford's documented gate set
        name = pool[int(rng.integers(len(pool)))]
        k = 2 if name in ("CNOT", "CZ", "CY", "SWAP", "ISWAP", "ECR") else 1
        if k > nw:
            continue
        ws = [wires[int(i)] for i in rng.choice(nw, size=k, replace=False)]
        s = {"t": "named", "name": name, "params": [], "wires": ws, "hyper": {}}
        if name in ("S", "SX", "ISWAP") and rng.random() < 0.3:
            s = {"t": "adj", "base": s}
        ops.append(s)
    # default.clifford in its default (tableau) configuration: qp.state() returns the tableau, so no state / density-matrix measurements here
    meas = gen.rand_meas(rng, wires, kinds=("expval", "var", "probs", "expval", "purity", "vn"), obs_kinds=("pauli", "sprod", "sum", "lc", "proj", "id"))
    mode = ["same", "perm", "superset"][int(rng.integers(3))]
    dev_wires = list(wires) if mode == "same" else [wires[int(i)] for i in rng.permutation(nw)]
    if mode == "superset":
        dev_wires = dev_wires + ["e0"]
    return {"wires": wires, "dev_wires": dev_wires, "ops": ops or [{"t": "named", "name": "Hadamard", "params": [], "wires": [wires[0]], "hyper": {}}], "meas": meas, "batch": None}


def shapes(x):
    """Recursive shape / nesting signature of a result."""
    if isinstance(x, (tuple, list)):
        return ("T", tuple(shapes(v) for v in x))
    if isinstance(x, dict):
        return ("D",)
    try:
        return ("A", tuple(np.shape(x)))
    except Exception:  # noqa: BLE001
        return ("?", type(x).__name__)


def heavy_for_reference(spec):
    """reference.qubit decomposes everything to {X,Y,Z,H,CNOT,CZ,RX,RY,RZ,GlobalPhase}: generic unitaries on >= 3 wires, wide multi-controlled
    gates etc. become thousands of dense matrix products — kept out of its workload (cost only, not a verdict)."""
    heavy = []

    def walk(s):
        k = len(s.get("wires", []))
        if s["t"] in ("qu", "cqu", "diag") and k >= 3:
            heavy.append(s["t"])
        if s.get("name") in ("MultiControlledX", "IntegerComparator") and k >= 4:
            heavy.append(s["name"])
        if s.get("name") in ("DoubleExcitation", "DoubleExcitationPlus", "DoubleExcitationMinus", "OrbitalRotation", "QubitCarry"):
            heavy.append(s["name"])
        if s["t"] == "grover" and k >= 4:
            heavy.append("grover")
        if s["t"] == "ctrl" and len(s["control"]) >= 2:
            heavy.append("ctrl")
        if "base" in s:
            walk(s["base"])
        for f in s.get("factors", []):
            walk(f)
    for s in spec["ops"]:
        walk(s)
    return bool(heavy)


def heavy_for_tensor(spec):
    """default.tensor applies k-qubit gates through quimb's swap+split machinery: gates on >= 4 wires can take minutes (cost only)."""
    found = []

    def walk(s, extra=0):
        k = len(s.get("wires", [])) + extra
        if s["t"] in ("named", "qu", "cqu", "diag", "grover") and k >= 4:
            found.append(s["t"])
        if s["t"] == "ctrl":
            walk(s["base"], extra + len(s["control"]))
        elif "base" in s:
            walk(s["base"], extra)
        for f in s.get("factors", []):
            walk(f, extra)
    for s in spec["ops"]:
        walk(s)
    return bool(found)


def devices_for(profile, spec, have_lightning):
    n = len(spec["wires"])
    kinds = {m["m"] for m in spec["meas"]}
    okinds = {m["obs"]["o"] for m in spec["meas"] if "obs" in m}
    out = []
    if profile in ("general", "clifford") and n <= 5:
        out.append("default.mixed")
    if profile == "general" and n <= 4 and len(spec["ops"]) <= 7 and not heavy_for_reference(spec):
        out.append("reference.qubit")
    if kinds <= {"state", "expval", "var"} and n <= 6 and "probs_op" not in kinds and not heavy_for_tensor(spec):
        out += ["default.tensor/mps", "default.tensor/tn"]
    if profile == "clifford":
        out.append("default.clifford")
    if have_lightning and kinds <= {"state", "expval", "var", "probs"} and not (okinds & {"proj", "projvec", "hadamard"} and "var" in kinds):
        out.append("lightning.qubit")
    return out


def make_device(qp, name, spec):
    n = len(spec["dev_wires"])
    if name == "default.tensor/mps":
        return qp.device("default.tensor", wires=spec["dev_wires"], method="mps", max_bond_dim=2 ** int(np.ceil(n / 2)) if n > 1 else 2)
    if name == "default.tensor/tn":
        return qp.device("default.tensor", wires=spec["dev_wires"], method="tn")
    if name == "default.clifford":
        return qp.device("default.clifford", wires=spec["dev_wires"])
    return qp.device(name, wires=spec["dev_wires"])


def wide_paulirot(spec):
    """Tagging helper: a PauliRot / MultiRZ on >= 3 wires whose wires are not in increasing device position."""
    pos = {w: i for i, w in enumerate(spec["dev_wires"])}
    found = []

    def walk(s):
        if s.get("name") in ("PauliRot", "MultiRZ") and len(s["wires"]) >= 3:
            found.append(True)
        if "base" in s:
            walk(s["base"])
        for f in s.get("factors", []):
            walk(f)
    for s in spec["ops"]:
        walk(s)
    return bool(found)


def gen_spec(rng, gen):
    r = rng.random()
    profile = "general" if r < 0.45 else ("tensor" if r < 0.7 else "clifford")
    if profile == "general":
        spec = gen.rand_case(rng, nw=int(rng.integers(1, 6)), n_ops=int(rng.integers(1, 9)), batch_p=0.15, prep_p=0.3, allow=GEN_ALLOW,
                             meas_kinds=("state", "dm", "expval", "var", "probs", "purity", "vn", "mi", "expval", "probs"),
                             obs_kinds=("pauli", "sprod", "sum", "lc", "herm", "proj", "id", "hadamard", "sparse"),
                             dev_wires_mode=["same", "perm", "superset"][int(rng.integers(3))])
    elif profile == "tensor":
        std = rng.random() < 0.5
        spec = gen.rand_case(rng, nw=int(rng.integers(2, 8)), n_ops=int(rng.integers(2, 12)), batch_p=0.1, prep_p=0.2, allow=TENSOR_ALLOW,
                             meas_kinds=("state", "expval", "var", "expval"), obs_kinds=("pauli", "sprod", "sum", "lc", "herm", "proj", "id", "hadamard"),
                             label_mode="range" if std else None, dev_wires_mode="same" if std else ["same", "perm", "superset"][int(rng.integers(3))])
    else:
        spec = clifford_case(rng, gen)
    spec["ops"] = [s for s in spec["ops"] if s["t"] not in ("snap", "barrier")] or [{"t": "named", "name": "Hadamard", "params": [], "wires": [spec["wires"][0]], "hyper": {}}]
    if len(spec["dev_wires"]) > 8:
        spec["dev_wires"] = list(spec["wires"])
    return spec, profile


def run(ctx):
    import pennylane as qp

    from pv.checks import c26 as C26
    from pv.gen import c26_gen as gen
    from pv.ref import c26_ref as R

    warnings.filterwarnings("ignore")
    try:
        qp.device("lightning.qubit", wires=1)
        have_lightning = True
    except Exception:  # noqa: BLE001
        have_lightning = False
        ctx.uncovered("device:lightning.qubit", "not importable")
    N = ctx.n(600, 4500)
    for i in range(N):
        if not ctx.more():
            break
        gi = i * ctx.nshards + ctx.shard
        if ctx.only_case is not None and gi != ctx.only_case:
            continue
        ctx.case_index = gi
        rng = ctx.case_rng(gi)
        try:
            spec, profile = gen_spec(rng, gen)
        except Exception as e:  # noqa: BLE001
            ctx.inconclusive_case(f"generator failed: {type(e).__name__}: {e}")
            continue
        order = spec["dev_wires"]
        desc = gen.describe(spec)
        info = {"spec": desc, "profile": profile, "case_index": gi}
        try:
            ref, frac, nontriv = C26.reference(qp, spec, order)
        except Exception as e:  # noqa: BLE001
            ctx.inconclusive_case(f"reference failed: {type(e).__name__}: {e}")
            continue
        ctx.note_add("independent_fraction_seen", round(frac, 2), cap=8)
        fp = fingerprint(repr(desc), [np.asarray(p).tobytes() for s in spec["ops"] for p in s.get("params", [])])
        memo = {}

        def retag(mech, spec=spec, memo=memo):
            """Mechanism classifiers of defects seen on the unchanged tree (tagging only)."""
            if "m" not in memo:
                memo["m"] = None
                if C26.stale_batch_ops(qp, spec):
                    memo["m"] = "batch-size-none:symbolic-op"
                elif C26.bad_prods(qp, spec):
                    memo["m"] = "prod-matrix:overlapping-wires"
            if memo["m"]:
                return memo["m"]
            if spec["batch"] == 1 and mech.startswith("raises:default.mixed:") and mech.split(":")[2] in ("KeyError", "ValueError", "IndexError"):
                return "batch1:default.mixed"  # a broadcast batch of size 1 is not expanded by the mixed-state kernels (index bookkeeping fails; same as C28/C33)
            if "batch1-squeezed" in mech or (spec["batch"] == 1 and mech.startswith("null-shape")):
                return "batch1-squeezed:expval"  # default.qubit / default.mixed drop a size-1 broadcast dimension (reported by C26)
            kinds = {m["m"] for m in spec["meas"]}
            if "reference.qubit" in mech and spec["batch"] and mech.endswith(":shape"):
                return "reference.qubit:broadcast-shape"
            if "default.tensor" in mech:
                n = len(spec["dev_wires"])
                opw = C26.tape_wire_order({**spec, "meas": []}) or []
                standard = spec["dev_wires"] == list(range(n)) and sorted(opw, key=str) == list(range(len(opw)))
                first = spec["ops"][0]["t"] if spec["ops"] else None
                if first == "basis" and len(spec["ops"][0]["wires"]) < n:
                    return "default.tensor:basisstate-subset"
                if not standard and ("state" in kinds or first in ("prep", "basis")):
                    return "default.tensor:device-wire-order"
                if "/mps" in mech and wide_paulirot(spec):
                    return "default.tensor:paulirot-mpo-unsorted-sites"
            if "reference.qubit" in mech and kinds & {"vn", "mi"}:
                return "entropy-ignores-wire-order:reference.qubit"
            if "reference.qubit" in mech and any(k in repr(spec["meas"]) for k in ("'herm'", "'projvec'", "'sparse'")):
                return "reference.qubit:undiagonalized-observable"
            if "default.clifford" in mech and "SX" in gen.spec_kinds(spec) and "ValueError" in mech:
                # only the 'Gate not found' rejection is the SX mechanism; other failures of circuits that happen to contain SX
                # are classified by their own symptoms below
                return "default.clifford:stim-gate-name:SX"
            if "default.clifford" in mech and mech.endswith(":probs"):
                return "default.clifford:probs-wire-order"
            if "default.clifford" in mech and "AttributeError" in mech and "var" in kinds:
                return "default.clifford:var-missing-kwargs"
            if "default.tensor" in mech and ":result:" in mech:
                # a value mismatch of default.tensor alone that none of the root-caused mechanisms above explains
                return "default.tensor:result-mismatch:unrooted"
            return mech

        def execute(name):
            ops = gen.build_ops(qp, spec["ops"])
            ms = gen.build_meas(qp, spec["meas"])
            dev = make_device(qp, name, spec)
            return qp.execute([qp.tape.QuantumScript(ops, ms)], dev, diff_method=None)[0]

        results = {}
        for name in ["default.qubit"] + devices_for(profile, spec, have_lightning) + ["null.qubit"]:
            ctx.case(fingerprint(fp, name), nontrivial=nontriv, cls=f"{name}:{profile}", sample={**info, "device": name} if name != "default.qubit" else None)
            try:
                with ctx.time_limit(90 if name.startswith("default.tensor") else 600, f"{name} execution"):
                    results[name] = execute(name)
            except CaseTimeout as e:
                ctx.inconclusive_case(f"watchdog: {e} exceeded its wall-clock limit")
                continue
            except Exception as e:  # noqa: BLE001
                en = type(e).__name__
                if en in ALLOWED or (name != "default.qubit" and en in ("NotImplementedError",) and ("not supported" in str(e).lower() or "doesn't support" in str(e).lower())):
                    ctx.reject(f"{name}:{en}")
                    ctx.note_add("rejection_messages", f"case {gi} {name}: {en}: {str(e)[:120]}")
                    continue
                if name == "lightning.qubit":
                    ctx.count("lightning.exceptions")
                    ctx.note_add("lightning_exceptions", f"{en}: {str(e)[:100]}", cap=10)
                    continue
                ctx.ev("agree.pair")
                ctx.violation("agree.pair", f"{name} raised {en}: {str(e)[:300]} on a circuit within its supported set ({profile})", case={**info, "device": name},
                              mech=retag(f"raises:{name}:{en}:{'batch' if spec['batch'] else 'nobatch'}"))
                continue
        base = results.get("default.qubit")
        for name, res in results.items():
            if name == "null.qubit":
                ctx.ev("null.shape")
                if base is not None and shapes(res) != shapes(base):
                    ctx.violation("null.shape", f"null.qubit result structure {shapes(res)} differs from default.qubit's {shapes(base)}", case=info,
                                  mech=retag("null-shape:analytic" + (":batch" if spec["batch"] else "")))
                continue
            tol = 1e-8 if name.startswith("default.tensor") else (2e-9 if name == "default.mixed" else 1e-9)
            what = f"{name}[{profile}]"
            lightning = name == "lightning.qubit"  # not named in the property statement: compared, but under non-deciding monitors
            ref_n, conv_b = ref, (lambda k, b: R._np(b))
            if name == "default.mixed":
                # documented: on default.mixed qp.state() is the density matrix
                def dmize(k, a):
                    a = np.asarray(a)
                    if spec["meas"][k]["m"] != "state":
                        return a
                    return np.einsum("...i,...j->...ij", a, a.conj())
                ref_n = [dmize(k, a) for k, a in enumerate(ref)]
                conv_b = lambda k, b: dmize(k, R._np(b))  # noqa: E731
            C26.compare(ctx, "agree.ref" if not lightning else "lightning.ref", res, ref_n, spec, {**info, "device": name}, what + " vs reference",
                        lambda m, name=name: retag(f"{name}:{m}"), tol=tol)
            if name != "default.qubit" and base is not None:
                bb = (base,) if len(spec["meas"]) == 1 else base
                try:
                    C26.compare(ctx, "agree.pair" if not lightning else "lightning.pair", res, [conv_b(k, b) for k, b in enumerate(bb)], spec, {**info, "device": name}, what + " vs default.qubit",
                                lambda m, name=name: retag(f"{name}:pair:{m}"), tol=tol)
                except Exception as e:  # noqa: BLE001
                    ctx.inconclusive_case(f"pair comparison failed: {type(e).__name__}: {e}")
    if ctx.only_case is None:
        null_shots(ctx, qp, gen)


def null_shots(ctx, qp, gen):
    """null.qubit vs default.qubit result structure with finite shots and shot vectors."""
    rng = ctx.stream(9)
    for j in range(ctx.n(45, 1500)):
        if not ctx.more():
            break
        nw = int(rng.integers(1, 4))
        wires = gen.labels(rng, nw)
        B = int(rng.integers(2, 4)) if rng.random() < 0.25 else None  # size-1 batches: default.qubit itself is inconsistent (see C26)
        ops = [gen.rand_opspec(rng, wires, B, allow=("special", "rot", "d1", "d2", "cnot")) for _ in range(int(rng.integers(1, 5)))]
        if B and not any(gen.spec_batched(s) for s in ops):
            ops.append({"t": "named", "name": "RX", "params": [[0.1 * (k + 1) for k in range(B)]], "wires": [wires[0]], "hyper": {}})
        shots = [7, [4, 9], [(5, 2)], [3, (6, 2), 10], 1][int(rng.integers(5))]
        kinds = ["expval", "var", "probs", "sample", "sample_obs", "counts"]
        ms = []
        for _ in range(int(rng.integers(1, 4))):
            k = kinds[int(rng.integers(len(kinds)))]
            w = [wires[int(i)] for i in rng.choice(nw, size=int(rng.integers(1, nw + 1)), replace=False)]
            if k == "expval":
                ms.append(qp.expval(qp.PauliZ(w[0])))
            elif k == "var":
                ms.append(qp.var(qp.PauliX(w[0])))
            elif k == "probs":
                ms.append(qp.probs(wires=w))
            elif k == "sample":
                ms.append(qp.sample(wires=w))
            elif k == "sample_obs":
                ms.append(qp.sample(qp.PauliY(w[0])))
            else:
                ms.append(qp.counts(wires=w, all_outcomes=True))
        info = {"wires": wires, "batch": B, "shots": repr(shots), "ops": gen.describe({"wires": wires, "dev_wires": None, "batch": B, "ops": ops, "meas": []})["ops"],
                "measurements": [repr(m) for m in ms]}
        ctx.case(fingerprint("nullshots", repr(info)), True, cls="null.qubit:shots", sample=info)
        out = {}
        for name in ("default.qubit", "null.qubit"):
            try:
                tape = qp.tape.QuantumScript(gen.build_ops(qp, ops), ms, shots=shots)
                out[name] = qp.execute([tape], qp.device(name, wires=wires), diff_method=None)[0]
            except Exception as e:  # noqa: BLE001
                out[name] = e
        a, b = out["default.qubit"], out["null.qubit"]
        if isinstance(a, Exception):
            ctx.reject(f"default.qubit:{type(a).__name__}")
            continue
        ctx.ev("null.shape")
        if isinstance(b, Exception):
            ctx.violation("null.shape", f"null.qubit raised {type(b).__name__}: {str(b)[:200]} where default.qubit returned results", case=info,
                          mech=f"null-raises:{type(b).__name__}")
            continue

        def sig(x):
            if isinstance(x, (tuple, list)):
                return ("T", tuple(sig(v) for v in x))
            if isinstance(x, dict):
                return ("D", len(next(iter(x.keys()))) if x else 0)
            return ("A", tuple(np.shape(x)))
        if sig(a) != sig(b):
            def strip(x):
                return ("T", tuple(strip(v) for v in x[1])) if x[0] == "T" else (("D",) if x[0] == "D" else x)
            only_counts = strip(sig(a)) == strip(sig(b))
            ctx.violation("null.shape", f"null.qubit result structure {sig(b)} differs from default.qubit's {sig(a)} (shots={shots!r})", case=info,
                          mech=("null-shape:counts-keys" if only_counts else "null-shape:shots" + (":batch" if B else "") + (":vector" if isinstance(shots, list) else "")))
