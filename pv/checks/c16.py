"""C16 — Exact ring arithmetic behind gridsynth is lawful.

Deciding monitors: operator post-conditions on the real ``ZSqrtTwo`` / ``ZOmega`` / ``DyadicMatrix`` / ``SO3Matrix`` classes
against an independent exact model (tuples of Python ints, multiplication = polynomial convolution reduced with the
defining relations √2² = 2 and ω⁴ = −1; dyadic matrices = (2x2 tuple matrix, k) compared BY VALUE after bringing both
sides to a common power of √2), the ring laws checked directly as identities on pairs/triples of real objects, and
post-conditions on the number-theory helpers of ``norm_solver.py`` (t†t = ξ for every returned solution, primality vs. an
own sieve / sympy, r² ≡ n (mod p), factorizations multiply back to n with prime factors).
"""
from pv.ctx import fingerprint

META = {
    "id": "C16",
    "level": "exploration",
    "technique": "operator post-conditions vs. an exact integer-tuple model (polynomial arithmetic mod the defining relations) + "
                 "ring-law identities on pairs/triples; exhaustive small elements, random big-integer elements; solver/primality "
                 "post-conditions vs. sieve and sympy",
    "level_text": "All 49 Z[√2] elements with |coeff| ≤ 3 (all pairs, all triples) and all 2401 Z[ω] elements with |coeff| ≤ 3 (all "
                  "unary operations; all pairs with |coeff| ≤ 1 in quick, all 5.76M pairs in thorough) plus random elements with "
                  "10–200-bit coefficients are pushed through every arithmetic dunder/conjugation/norm of the real classes and "
                  "compared with the model; dyadic matrices (k from −5 to 40) and Clifford+T words are compared by value, SO(3) "
                  "images are checked exactly for orthogonality and the homomorphism property; every solution returned by "
                  "_solve_diophantine is multiplied back; _primality_test is compared with a sieve for every n < 10^5 and with "
                  "sympy on pseudoprime lists and random 20–64-bit integers.",
    "level_note": "The model shares only the defining relations with the implementation. __mod__ / _gcd (no documented contract), "
                  "ZSqrtTwo.sqrt completeness and exceptions raised by the solver on non-doubly-positive ξ are recorded as notes, not "
                  "verdicts (the statement speaks about returned solutions). Real __eq__ of dyadic/SO(3) matrices is representation "
                  "equality; laws are therefore decided by value. The Miller-Rabin base set is deterministic below 2^64 only; "
                  "larger integers are not driven. ZOmega.normalize() never terminates on 0 and is not driven there. "
                  "Exhaustive sub-spaces are reported through notes (the quick tier does not enumerate all Z[ω] pairs).",
    "design_ref": "7/C16",
    "shards": {"quick": 2, "thorough": 16},
    "budget_s": {"quick": 50, "thorough": 330},
    "min_evals": {"quick": 200000, "thorough": 3000000},
    "min_nontrivial": 1000,
    "deciding": ["ring.zsqrt2.model", "ring.zsqrt2.laws", "ring.zomega.model", "ring.zomega.laws", "dyadic.model", "dyadic.laws",
                 "so3.exact", "solver.diophantine", "solver.primality", "solver.sqrt_mod", "solver.factorize"],
    "rule": "small elements enumerated (|coeff| ≤ 3), random elements with 10–200-bit coefficients, dyadic matrices with random "
            "Z[ω] entries and k in −5…40, random Clifford+T words; ξ = t†t·λ^(2j) (solvable by construction), random and negative ξ; "
            "distinct = distinct operand tuple; non-trivial = no operand is 0 or ±1",
    "assumptions": ["Python int arithmetic is exact", "sympy.isprime is correct below 2^64", "√2 and ω are represented by their minimal relations"],
}

# ------------------------------------------------------------------------------------------------ exact model
# Z[√2]: (a, b) = a + b√2.      Z[ω]: p = (p0, p1, p2, p3) = Σ p_k ω^k   (real class stores (a, b, c, d) = (p3, p2, p1, p0))


def s_mul(x, y):
    c0, c1, c2 = x[0] * y[0], x[0] * y[1] + x[1] * y[0], x[1] * y[1]      # polynomial in s, then s² = 2
    return (c0 + 2 * c2, c1)


def s_add(x, y):
    return (x[0] + y[0], x[1] + y[1])


def s_neg(x):
    return (-x[0], -x[1])


def s_pow(x, n):
    r, b = (1, 0), x
    while n:
        if n & 1:
            r = s_mul(r, b)
        b = s_mul(b, b)
        n >>= 1
    return r


def s_norm(x):      # (a+b√2)(a−b√2)
    return s_mul(x, (x[0], -x[1]))[0]


def o_mul(p, q):
    r = [0] * 7
    for i in range(4):
        for j in range(4):
            r[i + j] += p[i] * q[j]
    return tuple(r[k] - (r[k + 4] if k + 4 < 7 else 0) for k in range(4))     # ω⁴ = −1


def o_add(p, q):
    return tuple(a + b for a, b in zip(p, q))


def o_neg(p):
    return tuple(-a for a in p)


def o_scal(p, n):
    return tuple(a * n for a in p)


def o_conj(p):      # ω^k -> ω^(−k) = −ω^(4−k)
    return (p[0], -p[3], -p[2], -p[1])


def o_adj2(p):      # √2 -> −√2  ⇔  ω -> −ω
    return (p[0], -p[1], p[2], -p[3])


O_ONE, O_ZERO, O_SQRT2, O_I = (1, 0, 0, 0), (0, 0, 0, 0), (0, 1, 0, -1), (0, 0, 1, 0)


def o_pow(p, n):
    r, b = O_ONE, p
    while n:
        if n & 1:
            r = o_mul(r, b)
        b = o_mul(b, b)
        n >>= 1
    return r


def o_from_s(x):    # a + b√2 = a + b(ω − ω³)
    return (x[0], x[1], 0, -x[1])


def o_to_s(p):      # only for real elements u + v√2 (p2 == 0, p3 == −p1)
    if p[2] != 0 or p[3] != -p[1]:
        return None
    return (p[0], p[1])


def o_absnorm(p):   # field norm Z[ω] -> Z
    zz = o_to_s(o_mul(p, o_conj(p)))
    assert zz is not None
    return s_norm(zz)


def o_div_sqrt2(p):
    """p/√2 if it lies in Z[ω], else None."""
    q = o_mul(p, O_SQRT2)
    if any(v % 2 for v in q):
        return None
    return tuple(v // 2 for v in q)


def o_times_sqrt2k(p, j):
    for _ in range(j // 2):
        p = o_scal(p, 2)
    if j % 2:
        p = o_mul(p, O_SQRT2)
    return p


def m_value_eq(A, B):
    """(entries, k) pairs; value = entries / √2^k"""
    (Ma, ka), (Mb, kb) = A, B
    K = max(ka, kb)
    return all(o_times_sqrt2k(x, K - ka) == o_times_sqrt2k(y, K - kb) for x, y in zip(Ma, Mb))


def m_add(A, B):
    (Ma, ka), (Mb, kb) = A, B
    K = max(ka, kb)
    return (tuple(o_add(o_times_sqrt2k(x, K - ka), o_times_sqrt2k(y, K - kb)) for x, y in zip(Ma, Mb)), K)


def m_matmul(A, B):
    (a, b, c, d), ka = A
    (e, f, g, h), kb = B
    return ((o_add(o_mul(a, e), o_mul(b, g)), o_add(o_mul(a, f), o_mul(b, h)),
             o_add(o_mul(c, e), o_mul(d, g)), o_add(o_mul(c, f), o_mul(d, h))), ka + kb)


def m_map(A, f):
    return (tuple(f(x) for x in A[0]), A[1])


# ------------------------------------------------------------------------------------------------ helpers
def sieve(n):
    s = bytearray([1]) * n
    s[0:2] = b"\x00\x00"
    for i in range(2, int(n ** 0.5) + 1):
        if s[i]:
            s[i * i::i] = bytearray(len(range(i * i, n, i)))
    return s


CARMICHAEL = [561, 1105, 1729, 2465, 2821, 6601, 8911, 10585, 15841, 29341, 41041, 46657, 52633, 62745, 63973, 75361, 101101, 115921,
              126217, 162401, 172081, 188461, 252601, 278545, 294409, 314821, 334153, 340561, 399001, 410041, 449065, 488881, 512461,
              9746347772161, 232250619601, 3825123056546413051]
SPSP = [2047, 3277, 4033, 4681, 8321, 15841, 29341, 42799, 49141, 52633, 65281, 74665, 80581, 85489, 88357, 90751, 1373653, 25326001,
        3215031751, 2152302898747, 3474749660383, 341550071728321, 3825123056546413051, 1194649, 12327121, 9080191, 4759123141,
        1122004669633, 47636622961201, 4759123141 * 3, 7999252175582851, 585226005592931977]


class Alarm:
    """SIGALRM watchdog around calls into loops without a termination argument (ring gcd)."""

    def __init__(self, seconds):
        self.seconds = seconds

    def __enter__(self):
        import signal
        self._signal = signal

        def handler(signum, frame):
            raise TimeoutError("watchdog")
        self._old = signal.signal(signal.SIGALRM, handler)
        signal.alarm(self.seconds)

    def __exit__(self, *a):
        self._signal.alarm(0)
        self._signal.signal(self._signal.SIGALRM, self._old)
        return False


def big(rng, bits):
    """random signed integer with about `bits` bits"""
    v = int.from_bytes(rng.bytes((bits + 7) // 8), "little") >> ((-bits) % 8)
    return -v if rng.random() < 0.5 else v


def rand_int(rng):
    r = rng.random()
    if r < 0.25:
        return int(rng.integers(-3, 4))
    if r < 0.5:
        return int(rng.integers(-1000, 1001))
    return big(rng, int(rng.integers(10, 201)))


def run(ctx):
    import math
    import random

    import numpy as np
    import sympy
    from pennylane.ops.op_math.decompositions import norm_solver as ns
    from pennylane.ops.op_math.decompositions.rings import DyadicMatrix, SO3Matrix, ZOmega, ZSqrtTwo

    rng = ctx.rng
    random.seed(int(rng.integers(1 << 62)))          # norm_solver uses the global `random` (Pollard rho): make it deterministic

    def S(x):
        return ZSqrtTwo(x[0], x[1])

    def O(p):
        return ZOmega(p[3], p[2], p[1], p[0])

    def sv(z):
        return (z.a, z.b)

    def ov(z):
        return (z.d, z.c, z.b, z.a)

    def D(A):
        return DyadicMatrix(O(A[0][0]), O(A[0][1]), O(A[0][2]), O(A[0][3]), k=A[1])

    def dv(m):
        return (tuple(ov(z) for z in m.flatten), m.k)

    per_mech = {}

    def viol(mon, msg, mech, **kw):
        # keep at most 3 witnesses per mechanism so that one frequent finding cannot crowd out the others (bus keeps 40)
        per_mech[mech] = per_mech.get(mech, 0) + 1
        ctx.count("violations:" + mech)
        if per_mech[mech] <= 3:
            ctx.violation(mon, msg, mech=mech, **kw)

    def expect(mon, what, f, exp, conv, mech, case):
        """real operation f() must give the model value exp (after conv)"""
        ctx.ev(mon)
        try:
            r = f()
        except Exception as e:  # noqa: BLE001
            viol(mon, f"{what} raised {type(e).__name__}: {e}", mech + ":raise", case=case, expected=exp)
            return None
        try:
            got = conv(r)
        except Exception as e:  # noqa: BLE001
            viol(mon, f"{what} returned {r!r} ({type(e).__name__} when reading it)", mech + ":type", case=case, expected=exp)
            return None
        if got != exp or any(type(v) is not int for v in (got if isinstance(got, tuple) else (got,))):
            viol(mon, f"{what} = {r!r}, exact model gives {exp!r}", mech, case=case, observed=got, expected=exp)
        return r

    def law(mon, what, ok, mech, case):
        ctx.ev(mon)
        try:
            good = bool(ok())
        except Exception as e:  # noqa: BLE001
            viol(mon, f"{what} raised {type(e).__name__}: {e}", mech + ":raise", case=case)
            return
        if not good:
            viol(mon, f"law violated: {what}", mech, case=case)

    ident = lambda v: v  # noqa: E731

    # =========================================================================================== Z[√2]
    def zs_unary(x):
        X, c = S(x), {"x": x}
        expect("ring.zsqrt2.model", f"-{X!r}", lambda: -X, s_neg(x), sv, "zsqrt2:neg", c)
        expect("ring.zsqrt2.model", f"{X!r}.conj()", lambda: X.conj(), x, sv, "zsqrt2:conj", c)
        expect("ring.zsqrt2.model", f"{X!r}.adj2()", lambda: X.adj2(), (x[0], -x[1]), sv, "zsqrt2:adj2", c)
        expect("ring.zsqrt2.model", f"abs({X!r})", lambda: abs(X), s_norm(x), ident, "zsqrt2:abs", c)
        expect("ring.zsqrt2.model", f"{X!r}.to_omega()", lambda: X.to_omega(), o_from_s(x), ov, "zsqrt2:to_omega", c)
        expect("ring.zsqrt2.model", f"{X!r}.to_omega().to_sqrt_two()", lambda: X.to_omega().to_sqrt_two(), x, sv, "zsqrt2:roundtrip", c)
        for n in (0, 1, 2, 3, 5):
            if n <= 3 or max(abs(x[0]), abs(x[1])) < (1 << 70):
                expect("ring.zsqrt2.model", f"{X!r}**{n}", lambda: X ** n, s_pow(x, n), sv, f"zsqrt2:pow{0 if n == 0 else 'n'}", c)
        law("ring.zsqrt2.laws", f"x + 0 == x, x*1 == x, x + (-x) == 0, x*0 == 0 for x={X!r}",
            lambda: X + ZSqrtTwo(0, 0) == X and X * ZSqrtTwo(1, 0) == X and X + (-X) == ZSqrtTwo(0, 0) and X * ZSqrtTwo(0, 0) == ZSqrtTwo(0, 0)
            and X + 0 == X and X * 1 == X and 0 + X == X and 1 * X == X, "zsqrt2:identities", c)
        law("ring.zsqrt2.laws", f"x*adj2(x) == abs(x) for x={X!r}", lambda: sv(X * X.adj2()) == (abs(X), 0), "zsqrt2:norm-def", c)
        if abs(x[0]) < (1 << 52) and abs(x[1]) < (1 << 52):
            ctx.ev("ring.zsqrt2.model")
            f = float(X)
            ref = x[0] + x[1] * math.sqrt(2)
            if abs(f - ref) > 1e-9 * max(1.0, abs(x[0]) + 1.5 * abs(x[1])):
                viol("ring.zsqrt2.model", f"float({X!r}) = {f!r}, a + b√2 = {ref!r}", "zsqrt2:float", case=c)
        # sqrt: soundness is demanded, completeness (None although a root exists) is only noted
        ctx.ev("ring.zsqrt2.sqrt")
        sq = s_mul(x, x)
        try:
            r = S(sq).sqrt()
            if r is None:
                ctx.note_add("zsqrt2_sqrt_incomplete", f"sqrt({sq}) is None although ({x})^2 equals it", cap=10)
            elif s_mul(sv(r), sv(r)) != sq:
                viol("ring.zsqrt2.sqrt", f"ZSqrtTwo{sq}.sqrt() = {r!r} whose square is {s_mul(sv(r), sv(r))}", "zsqrt2:sqrt-unsound", case=c)
        except Exception as e:  # noqa: BLE001
            ctx.note_add("zsqrt2_sqrt_raises", f"sqrt({sq}): {type(e).__name__}: {e}", cap=10)

    def zs_pair(x, y):
        X, Y, c = S(x), S(y), {"x": x, "y": y}
        expect("ring.zsqrt2.model", f"{X!r} + {Y!r}", lambda: X + Y, s_add(x, y), sv, "zsqrt2:add", c)
        expect("ring.zsqrt2.model", f"{X!r} - {Y!r}", lambda: X - Y, s_add(x, s_neg(y)), sv, "zsqrt2:sub", c)
        expect("ring.zsqrt2.model", f"{X!r} * {Y!r}", lambda: X * Y, s_mul(x, y), sv, "zsqrt2:mul", c)
        law("ring.zsqrt2.laws", f"x+y == y+x and x*y == y*x for x={X!r}, y={Y!r}", lambda: X + Y == Y + X and X * Y == Y * X, "zsqrt2:commutative", c)
        law("ring.zsqrt2.laws", f"abs(x*y) == abs(x)*abs(y) for x={X!r}, y={Y!r}", lambda: abs(X * Y) == abs(X) * abs(Y), "zsqrt2:norm-multiplicative", c)
        law("ring.zsqrt2.laws", f"adj2(x*y) == adj2(x)*adj2(y), adj2(x+y) == adj2(x)+adj2(y), adj2(adj2(x)) == x for x={X!r}, y={Y!r}",
            lambda: (X * Y).adj2() == X.adj2() * Y.adj2() and (X + Y).adj2() == X.adj2() + Y.adj2() and X.adj2().adj2() == X
            and (X * Y).conj() == X.conj() * Y.conj(), "zsqrt2:conjugation", c)
        law("ring.zsqrt2.laws", f"(x == y) iff same coefficients for x={X!r}, y={Y!r}", lambda: (X == Y) == (x == y) and (X != Y) == (x != y), "zsqrt2:eq", c)
        if y != (0, 0):
            expect("ring.zsqrt2.model", f"({X!r} * {Y!r}) / {Y!r}", lambda: (X * Y) / Y, x, sv, "zsqrt2:div", c)
        # mixed integer operands (python ints and integral floats are documented operand types)
        n = y[0]
        expect("ring.zsqrt2.model", f"{X!r} + {n}", lambda: X + n, (x[0] + n, x[1]), sv, "zsqrt2:add-int", c)
        expect("ring.zsqrt2.model", f"{n} + {X!r}", lambda: n + X, (x[0] + n, x[1]), sv, "zsqrt2:radd-int", c)
        expect("ring.zsqrt2.model", f"{X!r} - {n}", lambda: X - n, (x[0] - n, x[1]), sv, "zsqrt2:sub-int", c)
        expect("ring.zsqrt2.model", f"{n} - {X!r}", lambda: n - X, (n - x[0], -x[1]), sv, "zsqrt2:rsub-int", c)
        expect("ring.zsqrt2.model", f"{X!r} * {n}", lambda: X * n, (x[0] * n, x[1] * n), sv, "zsqrt2:mul-int", c)
        expect("ring.zsqrt2.model", f"{n} * {X!r}", lambda: n * X, (x[0] * n, x[1] * n), sv, "zsqrt2:rmul-int", c)
        if n != 0:
            expect("ring.zsqrt2.model", f"({X!r} * {n}) / {n}", lambda: (X * n) / n, x, sv, "zsqrt2:div-int", c)
            expect("ring.zsqrt2.model", f"{X!r} // {n}", lambda: X // n, (x[0] // n, x[1] // n), sv, "zsqrt2:floordiv-int", c)
        if abs(n) < (1 << 50):
            expect("ring.zsqrt2.model", f"{X!r} * {float(n)}", lambda: X * float(n), (x[0] * n, x[1] * n), sv, "zsqrt2:mul-float", c)
            expect("ring.zsqrt2.model", f"{X!r} + {float(n)}", lambda: X + float(n), (x[0] + n, x[1]), sv, "zsqrt2:add-float", c)

    def zs_triple(x, y, z):
        X, Y, Z, c = S(x), S(y), S(z), {"x": x, "y": y, "z": z}
        law("ring.zsqrt2.laws", f"(x+y)+z == x+(y+z) for {X!r}, {Y!r}, {Z!r}", lambda: (X + Y) + Z == X + (Y + Z), "zsqrt2:add-associative", c)
        law("ring.zsqrt2.laws", f"(x*y)*z == x*(y*z) for {X!r}, {Y!r}, {Z!r}", lambda: (X * Y) * Z == X * (Y * Z), "zsqrt2:mul-associative", c)
        law("ring.zsqrt2.laws", f"x*(y+z) == x*y + x*z and (x+y)*z == x*z + y*z for {X!r}, {Y!r}, {Z!r}",
            lambda: X * (Y + Z) == X * Y + X * Z and (X + Y) * Z == X * Z + Y * Z, "zsqrt2:distributive", c)

    # =========================================================================================== Z[ω]
    def zo_unary(p):
        P, c = O(p), {"z": p}
        expect("ring.zomega.model", f"-{P!r}", lambda: -P, o_neg(p), ov, "zomega:neg", c)
        expect("ring.zomega.model", f"{P!r}.conj()", lambda: P.conj(), o_conj(p), ov, "zomega:conj", c)
        expect("ring.zomega.model", f"{P!r}.adj2()", lambda: P.adj2(), o_adj2(p), ov, "zomega:adj2", c)
        expect("ring.zomega.model", f"{P!r}.norm()", lambda: P.norm(), o_mul(p, o_conj(p)), ov, "zomega:norm", c)
        expect("ring.zomega.model", f"abs({P!r})", lambda: abs(P), o_absnorm(p), ident, "zomega:abs", c)
        expect("ring.zomega.model", f"{P!r}.parity()", lambda: P.parity(), (p[3] + p[1]) % 2, ident, "zomega:parity", c)
        for n in (0, 1, 2, 3):
            expect("ring.zomega.model", f"{P!r}**{n}", lambda: P ** n, o_pow(p, n), ov, f"zomega:pow{0 if n == 0 else 'n'}", c)
        law("ring.zomega.laws", f"z + 0 == z, z*1 == z, z + (-z) == 0, z*0 == 0 for z={P!r}",
            lambda: P + ZOmega() == P and P * ZOmega(d=1) == P and P + (-P) == ZOmega() and P * ZOmega() == ZOmega() and P + 0 == P and P * 1 == P
            and 0 + P == P and 1 * P == P, "zomega:identities", c)
        law("ring.zomega.laws", f"conj(conj(z)) == z, adj2(adj2(z)) == z, conj(adj2(z)) == adj2(conj(z)) for z={P!r}",
            lambda: P.conj().conj() == P and P.adj2().adj2() == P and P.conj().adj2() == P.adj2().conj(), "zomega:involutions", c)
        # z z† is real (lies in Z[√2]) and converts
        zz = o_to_s(o_mul(p, o_conj(p)))
        expect("ring.zomega.model", f"{P!r}.norm().to_sqrt_two()", lambda: P.norm().to_sqrt_two(), zz, sv, "zomega:norm-to-sqrt2", c)
        if max(abs(v) for v in p) < (1 << 50):
            ctx.ev("ring.zomega.model")
            f = complex(P)
            ref = sum(p[k] * complex(math.cos(math.pi * k / 4), math.sin(math.pi * k / 4)) for k in range(4))
            if abs(f - ref) > 1e-9 * max(1.0, sum(abs(v) for v in p)):
                viol("ring.zomega.model", f"complex({P!r}) = {f!r}, Σ p_k ω^k = {ref!r}", "zomega:complex", case=c)
        if p != O_ZERO:
            # normalize: (res, ix) with res·√2^ix == z and res not divisible by √2
            ctx.ev("ring.zomega.model")
            try:
                res, ix = P.normalize()
                r = ov(res)
                if o_times_sqrt2k(r, ix) != p or (o_div_sqrt2(r) is not None):
                    viol("ring.zomega.model", f"{P!r}.normalize() = ({res!r}, {ix}): res·√2^ix is {o_times_sqrt2k(r, ix)} / res still divisible by √2: "
                         f"{o_div_sqrt2(r) is not None}", "zomega:normalize", case=c)
            except Exception as e:  # noqa: BLE001
                viol("ring.zomega.model", f"{P!r}.normalize() raised {type(e).__name__}: {e}", "zomega:normalize:raise", case=c)

    def zo_pair(p, q):
        P, Q, c = O(p), O(q), {"x": p, "y": q}
        expect("ring.zomega.model", f"{P!r} + {Q!r}", lambda: P + Q, o_add(p, q), ov, "zomega:add", c)
        expect("ring.zomega.model", f"{P!r} - {Q!r}", lambda: P - Q, o_add(p, o_neg(q)), ov, "zomega:sub", c)
        expect("ring.zomega.model", f"{P!r} * {Q!r}", lambda: P * Q, o_mul(p, q), ov, "zomega:mul", c)
        law("ring.zomega.laws", f"x+y == y+x and x*y == y*x for x={P!r}, y={Q!r}", lambda: P + Q == Q + P and P * Q == Q * P, "zomega:commutative", c)
        law("ring.zomega.laws", f"abs(x*y) == abs(x)*abs(y) and norm(x*y) == norm(x)*norm(y) for x={P!r}, y={Q!r}",
            lambda: abs(P * Q) == abs(P) * abs(Q) and (P * Q).norm() == P.norm() * Q.norm(), "zomega:norm-multiplicative", c)
        law("ring.zomega.laws", f"conj/adj2 are ring homomorphisms on x={P!r}, y={Q!r}",
            lambda: (P * Q).conj() == P.conj() * Q.conj() and (P + Q).conj() == P.conj() + Q.conj() and (P * Q).adj2() == P.adj2() * Q.adj2()
            and (P + Q).adj2() == P.adj2() + Q.adj2(), "zomega:conjugation", c)
        law("ring.zomega.laws", f"(x == y) iff same coefficients for x={P!r}, y={Q!r}", lambda: (P == Q) == (p == q) and (P != Q) == (p != q), "zomega:eq", c)

    def zo_int(p, n):
        P, c = O(p), {"z": p, "n": n}
        expect("ring.zomega.model", f"{P!r} + {n}", lambda: P + n, o_add(p, (n, 0, 0, 0)), ov, "zomega:add-int", c)
        expect("ring.zomega.model", f"{n} + {P!r}", lambda: n + P, o_add(p, (n, 0, 0, 0)), ov, "zomega:radd-int", c)
        expect("ring.zomega.model", f"{P!r} - {n}", lambda: P - n, o_add(p, (-n, 0, 0, 0)), ov, "zomega:sub-int", c)
        expect("ring.zomega.model", f"{n} - {P!r}", lambda: n - P, o_add(o_neg(p), (n, 0, 0, 0)), ov, "zomega:rsub-int", c)
        expect("ring.zomega.model", f"{P!r} * {n}", lambda: P * n, o_scal(p, n), ov, "zomega:mul-int", c)
        expect("ring.zomega.model", f"{n} * {P!r}", lambda: n * P, o_scal(p, n), ov, "zomega:rmul-int", c)
        if n != 0:
            expect("ring.zomega.model", f"{P!r} // {n}", lambda: P // n, tuple(v // n for v in p), ov, "zomega:floordiv-int", c)
            # exact division: (z·n)/n == z  (cancellation law of the integral domain; the operator promises exact arithmetic)
            expect("ring.div", f"({P!r} * {n}) / {n}", lambda: (P * n) / n, p, ov,
                   "zomega:truediv-float-precision" if max(abs(v * n) for v in p) >= (1 << 53) else "zomega:truediv-inexact", c)

    def zo_triple(p, q, r):
        P, Q, R, c = O(p), O(q), O(r), {"x": p, "y": q, "z": r}
        law("ring.zomega.laws", f"(x+y)+z == x+(y+z) for {P!r}, {Q!r}, {R!r}", lambda: (P + Q) + R == P + (Q + R), "zomega:add-associative", c)
        law("ring.zomega.laws", f"(x*y)*z == x*(y*z) for {P!r}, {Q!r}, {R!r}", lambda: (P * Q) * R == P * (Q * R), "zomega:mul-associative", c)
        law("ring.zomega.laws", f"x*(y+z) == x*y + x*z and (x+y)*z == x*z + y*z for {P!r}, {Q!r}, {R!r}",
            lambda: P * (Q + R) == P * Q + P * R and (P + Q) * R == P * R + Q * R, "zomega:distributive", c)

    def zo_sqrt_pair(a, b, sh):
        c = {"alpha": a, "beta": b, "shift": sh}
        exp = o_add(o_add(o_from_s(a), o_mul(O_I, o_from_s(b))), sh)
        expect("ring.zomega.model", f"ZOmega.from_sqrt_pair({a}, {b}, {sh})", lambda: ZOmega.from_sqrt_pair(S(a), S(b), O(sh)), exp, ov,
               "zomega:from_sqrt_pair", c)

    # ------------------------------------------------------------------ exhaustive small elements
    R3 = range(-3, 4)
    small_s = [(a, b) for a in R3 for b in R3]
    small_o = [(a, b, c, d) for a in R3 for b in R3 for c in R3 for d in R3]
    tiny_o = [p for p in small_o if max(abs(v) for v in p) <= 1]
    for i, x in enumerate(small_s):
        if i % ctx.nshards == ctx.shard:
            zs_unary(x)
            for y in small_s:
                zs_pair(x, y)
                ctx.case(fingerprint("s", x, y), nontrivial=x not in ((0, 0), (1, 0), (-1, 0)) and y not in ((0, 0), (1, 0), (-1, 0)), cls="zsqrt2:small")
                for z in small_s:
                    zs_triple(x, y, z)
    for i, p in enumerate(small_o):
        if i % ctx.nshards == ctx.shard:
            zo_unary(p)
            zo_int(p, [-3, -2, -1, 1, 2, 3, 0][i % 7])
    npairs = 0
    if ctx.quick:
        for i, p in enumerate(tiny_o):
            if i % ctx.nshards == ctx.shard:
                for q in tiny_o:
                    zo_pair(p, q)
                    npairs += 1
                ctx.case(fingerprint("o1", p), nontrivial=p != O_ZERO, cls="zomega:tiny")
        for _ in range(ctx.n(12000, 0)):
            p, q = small_o[int(rng.integers(len(small_o)))], small_o[int(rng.integers(len(small_o)))]
            zo_pair(p, q)
            ctx.case(fingerprint("o", p, q), nontrivial=O_ZERO not in (p, q), cls="zomega:small")
        ctx.note("exhaustive_subspaces", "Z[√2] |coeff|<=3: all 49 elements, all 2401 pairs, all 117649 triples; Z[ω] |coeff|<=3: all 2401 elements "
                                         "(unary ops); Z[ω] |coeff|<=1: all 6561 pairs; Z[ω] |coeff|<=3 pairs sampled")
    else:
        for i, p in enumerate(small_o):
            if i % ctx.nshards == ctx.shard:
                if not ctx.more():
                    ctx.note("zomega_small_pairs_cut_short", True)
                    break
                for q in small_o:
                    zo_pair(p, q)
                    npairs += 1
                ctx.case(fingerprint("o3", p), nontrivial=p != O_ZERO, cls="zomega:small-all-pairs")
        ctx.note("exhaustive_subspaces", "Z[√2] |coeff|<=3: all elements/pairs/triples; Z[ω] |coeff|<=3: all 2401 elements and all 5 764 801 pairs "
                                         "(unless zomega_small_pairs_cut_short)")
    for _ in range(ctx.n(6000, 200000)):
        p, q, r = (small_o[int(rng.integers(len(small_o)))] for _ in range(3))
        zo_triple(p, q, r)

    # ------------------------------------------------------------------ random big elements
    for k in range(ctx.n(3000, 200000)):
        if k % 64 == 0 and not ctx.more():
            break
        ctx.case_index = k
        x, y, z = ((rand_int(rng), rand_int(rng)) for _ in range(3))
        ctx.case(fingerprint("S", x, y, z), nontrivial=all(max(abs(v) for v in t) > 1 for t in (x, y, z)), cls="zsqrt2:random",
                 sample={"x": [str(v) for v in x], "y": [str(v) for v in y]})
        zs_unary(x)
        zs_pair(x, y)
        zs_triple(x, y, z)
        p, q, r = (tuple(rand_int(rng) for _ in range(4)) for _ in range(3))
        ctx.case(fingerprint("O", p, q, r), nontrivial=all(max(abs(v) for v in t) > 1 for t in (p, q, r)), cls="zomega:random",
                 sample={"x": [str(v) for v in p], "y": [str(v) for v in q]})
        zo_unary(p)
        zo_pair(p, q)
        zo_triple(p, q, r)
        zo_int(p, rand_int(rng))
        zo_sqrt_pair(x, y, r)
        # structured: multiples of √2^j (exercise normalize) and real elements (to_sqrt_two)
        j = int(rng.integers(1, 7))
        zo_unary(o_times_sqrt2k(p, j))
        expect("ring.zomega.model", f"to_sqrt_two of the real element {o_from_s(x)}", lambda: O(o_from_s(x)).to_sqrt_two(), x, sv, "zomega:to_sqrt_two", {"x": x})

    # =========================================================================================== dyadic matrices
    def rand_entry():
        r = rng.random()
        if r < 0.15:
            return O_ZERO
        if r < 0.5:
            return tuple(int(v) for v in rng.integers(-3, 4, size=4))
        if r < 0.8:
            return tuple(int(v) for v in rng.integers(-200, 201, size=4))
        return tuple(big(rng, int(rng.integers(10, 120))) for _ in range(4))

    def rand_dyadic():
        M = tuple(rand_entry() for _ in range(4))
        r = rng.random()
        if r < 0.3:      # plant common factors of √2 / 2 so that normalisation has work to do
            j = int(rng.integers(1, 8))
            M = tuple(o_times_sqrt2k(e, j) for e in M)
        k = int(rng.integers(-5, 41)) if rng.random() < 0.7 else int(rng.integers(0, 4))
        return (M, k)

    def dy_construct(A, what):
        """value preserved by the constructor's normalisation, and k reduced as far as possible when it stays positive"""
        ctx.ev("dyadic.model")
        try:
            m = D(A)
        except Exception as e:  # noqa: BLE001
            viol("dyadic.model", f"DyadicMatrix{A} raised {type(e).__name__}: {e}", "dyadic:construct:raise", case={"A": A})
            return None
        got = dv(m)
        if any(type(v) is not int for e in got[0] for v in e) or type(got[1]) is not int:
            viol("dyadic.model", f"{what}: non-int data after normalisation: {m!r}", "dyadic:construct:type", case={"A": A})
            return None
        if not m_value_eq(got, A):
            viol("dyadic.model", f"{what}: DyadicMatrix(entries, k={A[1]}) normalised to {m!r}, a different value", "dyadic:normalize-value",
                 case={"A": A}, observed=got)
        elif got[1] > 0 and all(o_div_sqrt2(e) is not None for e in got[0]):
            viol("dyadic.model", f"{what}: normal form {m!r} has k = {got[1]} > 0 although every entry is still divisible by √2 (k not reduced)",
                 "dyadic:normalize-not-reduced", case={"A": A}, observed=got)
        elif all(e == O_ZERO for e in got[0]) and got[1] != 0:
            viol("dyadic.model", f"{what}: zero matrix with k = {got[1]}", "dyadic:normalize-zero", case={"A": A})
        return m

    def dy_expect(what, f, exp, mech, case):
        ctx.ev("dyadic.model")
        try:
            r = f()
        except Exception as e:  # noqa: BLE001
            viol("dyadic.model", f"{what} raised {type(e).__name__}: {e}", mech + ":raise", case=case)
            return None
        got = dv(r)
        if not m_value_eq(got, exp):
            viol("dyadic.model", f"{what} = {r!r}, exact model gives entries {exp[0]} / √2^{exp[1]}", mech, case=case, observed=got, expected=exp)
        elif got[1] > 0 and all(o_div_sqrt2(e) is not None for e in got[0]):
            viol("dyadic.model", f"{what} = {r!r}: k > 0 although every entry is divisible by √2 (not normalised)", "dyadic:normalize-not-reduced",
                 case=case, observed=got)
        return r

    def dy_law(what, lhs, rhs, mech, case):
        ctx.ev("dyadic.laws")
        try:
            L, Rr = lhs(), rhs()
        except Exception as e:  # noqa: BLE001
            viol("dyadic.laws", f"{what} raised {type(e).__name__}: {e}", mech + ":raise", case=case)
            return
        if not m_value_eq(dv(L), dv(Rr)):
            viol("dyadic.laws", f"law violated (by value): {what}: {L!r} vs {Rr!r}", mech, case=case)
        elif dv(L)[1] > 0 and dv(Rr)[1] > 0 and not (L == Rr):
            viol("dyadic.laws", f"{what}: equal values with positive k compare unequal: {L!r} vs {Rr!r}", mech + ":eq", case=case)

    for k in range(ctx.n(1500, 60000)):
        if k % 64 == 0 and not ctx.more():
            break
        A, B, C = rand_dyadic(), rand_dyadic(), rand_dyadic()
        c = {"A": A, "B": B, "C": C}
        ctx.case(fingerprint("D", A, B, C), nontrivial=all(any(e != O_ZERO for e in X[0]) for X in (A, B, C)), cls="dyadic:random",
                 sample={"A_k": A[1], "B_k": B[1], "A": [[str(v) for v in e] for e in A[0]]})
        a, b, cc = dy_construct(A, "A"), dy_construct(B, "B"), dy_construct(C, "C")
        if a is None or b is None or cc is None:
            continue
        dy_expect("A + B", lambda: a + b, m_add(A, B), "dyadic:add", c)
        dy_expect("A @ B", lambda: a @ b, m_matmul(A, B), "dyadic:matmul", c)
        dy_expect("-A", lambda: -a, m_map(A, o_neg), "dyadic:neg", c)
        dy_expect("A.conj()", lambda: a.conj(), m_map(A, o_conj), "dyadic:conj", c)
        n = rand_int(rng) if rng.random() < 0.5 else int(rng.integers(-4, 5))
        dy_expect(f"A * {n}", lambda: a * n, m_map(A, lambda e: o_scal(e, n)), "dyadic:mul-int", c)
        w = rand_entry()
        dy_expect(f"A * ZOmega{w}", lambda: a * O(w), m_map(A, lambda e: o_mul(e, w)), "dyadic:mul-zomega", c)
        nn = int(rng.integers(-5, 6))
        dy_expect(f"A + {nn}", lambda: a + nn, m_add(A, (((nn, 0, 0, 0), O_ZERO, O_ZERO, (nn, 0, 0, 0)), 0)), "dyadic:add-int", c)
        # ndarray agrees with the value (moderate sizes only)
        if max(abs(v) for e in A[0] for v in e) < (1 << 40) and -5 <= A[1] <= 40:
            ctx.ev("dyadic.model")
            ref = np.array([sum(e[t] * np.exp(1j * np.pi * t / 4) for t in range(4)) for e in A[0]]).reshape(2, 2) / np.sqrt(2.0) ** A[1]
            if not np.allclose(a.ndarray, ref, rtol=1e-9, atol=1e-9 * max(1.0, float(np.max(np.abs(ref))))):
                viol("dyadic.model", f"ndarray of {a!r} differs from entries/√2^k", "dyadic:ndarray", case=c)
        dy_law("A + B == B + A", lambda: a + b, lambda: b + a, "dyadic:add-commutative", c)
        dy_law("(A + B) + C == A + (B + C)", lambda: (a + b) + cc, lambda: a + (b + cc), "dyadic:add-associative", c)
        dy_law("(A @ B) @ C == A @ (B @ C)", lambda: (a @ b) @ cc, lambda: a @ (b @ cc), "dyadic:matmul-associative", c)
        dy_law("A @ (B + C) == A @ B + A @ C", lambda: a @ (b + cc), lambda: a @ b + a @ cc, "dyadic:distributive-left", c)
        dy_law("(A + B) @ C == A @ C + B @ C", lambda: (a + b) @ cc, lambda: a @ cc + b @ cc, "dyadic:distributive-right", c)
        eye = DyadicMatrix(ZOmega(d=1), ZOmega(), ZOmega(), ZOmega(d=1))
        zero = DyadicMatrix(ZOmega(), ZOmega(), ZOmega(), ZOmega())
        dy_law("A @ I == A == I @ A", lambda: a @ eye, lambda: eye @ a, "dyadic:identity", c)
        dy_law("A @ I == A", lambda: a @ eye, lambda: a, "dyadic:identity", c)
        dy_law("A + 0 == A", lambda: a + zero, lambda: a, "dyadic:zero", c)
        dy_law("A + (-A) == 0", lambda: a + (-a), lambda: zero, "dyadic:additive-inverse", c)
        dy_law("conj(A @ B) == conj(A) @ conj(B)", lambda: (a @ b).conj(), lambda: a.conj() @ b.conj(), "dyadic:conj-multiplicative", c)
        dy_law("conj(A + B) == conj(A) + conj(B)", lambda: (a + b).conj(), lambda: a.conj() + b.conj(), "dyadic:conj-additive", c)
        dy_law("conj(conj(A)) == A", lambda: a.conj().conj(), lambda: a, "dyadic:conj-involution", c)
        # root-2 conjugation √2 -> −√2 of the VALUE entries/√2^k is entries•/(−√2)^k
        sgn = -1 if A[1] % 2 else 1
        ctx.ev("dyadic.adj2")
        try:
            r = a.adj2()
            if not m_value_eq(dv(r), m_map(A, lambda e: o_scal(o_adj2(e), sgn))):
                ctx.count("dyadic_adj2_not_the_value_automorphism")
                ctx.note_add("dyadic_adj2_examples", f"A = {A}: adj2 = {r!r}", cap=3)
        except Exception as e:  # noqa: BLE001
            ctx.note_add("dyadic_adj2_raises", f"{type(e).__name__}: {e}", cap=3)
        # multiplication by a power of two
        kk = int(rng.integers(-3, 6))
        ctx.ev("dyadic.mult2k")
        try:
            r = a.mult2k(kk)
            if not m_value_eq(dv(r), (A[0], A[1] - 2 * kk)):
                viol("dyadic.mult2k", f"{a!r}.mult2k({kk}) = {r!r}; 2^{kk} · A is entries/√2^{A[1] - 2 * kk} (docstring: 'Multiply the matrix by 2^k')",
                     "dyadic:mult2k-wrong-scale", case={"A": A, "k": kk}, observed=dv(r), expected=(A[0], A[1] - 2 * kk))
        except Exception as e:  # noqa: BLE001
            viol("dyadic.mult2k", f"{a!r}.mult2k({kk}) raised {type(e).__name__}: {e}", "dyadic:mult2k:raise", case={"A": A, "k": kk})

    # =========================================================================================== SO(3) images of Clifford+T words
    GATES = {
        "H": (((1, 0, 0, 0), (1, 0, 0, 0), (1, 0, 0, 0), (-1, 0, 0, 0)), 1),
        "T": (((1, 0, 0, 0), O_ZERO, O_ZERO, (0, 1, 0, 0)), 0),
        "S": (((1, 0, 0, 0), O_ZERO, O_ZERO, (0, 0, 1, 0)), 0),
        "X": ((O_ZERO, (1, 0, 0, 0), (1, 0, 0, 0), O_ZERO), 0),
        "Z": (((1, 0, 0, 0), O_ZERO, O_ZERO, (-1, 0, 0, 0)), 0),
        "W": (((0, 1, 0, 0), O_ZERO, O_ZERO, (0, 1, 0, 0)), 0),      # global phase ω
    }
    PAULI = [np.array([[0, 1], [1, 0]], dtype=complex), np.array([[0, -1j], [1j, 0]]), np.array([[1, 0], [0, -1]], dtype=complex)]

    def word(n):
        names = [list(GATES)[int(t)] for t in rng.integers(0, len(GATES), size=n)]
        M = (((1, 0, 0, 0), O_ZERO, O_ZERO, (1, 0, 0, 0)), 0)
        real = DyadicMatrix(ZOmega(d=1), ZOmega(), ZOmega(), ZOmega(d=1))
        for g in names:
            M = m_matmul(M, GATES[g])
            real = real @ D(GATES[g])
        return "".join(names), M, real

    def so3_rows(s):
        """real SO3Matrix -> (3x3 list of Z[√2] tuples, k)"""
        return [[sv(e) for e in row] for row in s.so3mat], s.k

    def so3_value_eq(A, B):
        (Ma, ka), (Mb, kb) = A, B
        K = max(ka, kb)

        def up(e, j):
            for _ in range(j // 2):
                e = (2 * e[0], 2 * e[1])
            if j % 2:
                e = s_mul(e, (0, 1))
            return e
        return all(up(x, K - ka) == up(y, K - kb) for ra, rb in zip(Ma, Mb) for x, y in zip(ra, rb))

    for k in range(ctx.n(500, 20000)):
        if k % 32 == 0 and not ctx.more():
            break
        w1, M1, U1 = word(int(rng.integers(0, 25)))
        w2, M2, U2 = word(int(rng.integers(0, 25)))
        c = {"word1": w1, "word2": w2}
        ctx.case(fingerprint("W", w1, w2), nontrivial=("T" in w1 and "H" in w1), cls="so3:clifford+T", sample=c)
        ctx.ev("dyadic.model")
        if not m_value_eq(dv(U1), M1):
            viol("dyadic.model", f"product of gates {w1} = {U1!r}, model gives {M1}", "dyadic:word-product", case=c)
            continue
        ctx.ev("so3.exact")
        try:
            s1, s2, s12 = SO3Matrix(U1), SO3Matrix(U2), SO3Matrix(U1 @ U2)
            prod = s1 @ s2
        except Exception as e:  # noqa: BLE001
            viol("so3.exact", f"SO3Matrix of Clifford+T words raised {type(e).__name__}: {e}", "so3:raise", case=c)
            continue
        R1, k1 = so3_rows(s1)
        # exact orthogonality: R Rᵀ = 2^k · I  for R = entries/√2^k
        bad = None
        for i in range(3):
            for j in range(3):
                acc = (0, 0)
                for t in range(3):
                    acc = s_add(acc, s_mul(R1[i][t], R1[j][t]))
                want = (2 ** max(k1, 0), 0) if i == j else (0, 0)        # (E/√2^k)(E/√2^k)ᵀ = I  ⇔  E Eᵀ = 2^k I
                if k1 < 0:
                    bad = f"negative k = {k1} for the image of a unitary"
                elif acc != want:
                    bad = f"(R Rᵀ)[{i}][{j}] = {acc}, expected {want} (k = {k1})"
        if bad:
            viol("so3.exact", f"SO3Matrix({w1}) is not orthogonal: {bad}", "so3:not-orthogonal", case=c, observed=[R1, k1])
        ctx.ev("so3.exact")
        if not so3_value_eq(so3_rows(prod), so3_rows(s12)):
            viol("so3.exact", f"SO3({w1}) @ SO3({w2}) differs from SO3({w1}·{w2}) (exact comparison by value)", "so3:homomorphism", case=c,
                 observed=so3_rows(prod), expected=so3_rows(s12))
        elif not (prod == s12):
            viol("so3.exact", f"SO3({w1}) @ SO3({w2}) and SO3({w1}·{w2}) have equal values but compare unequal (normal form not canonical)",
                 "so3:eq-noncanonical", case=c, observed=so3_rows(prod), expected=so3_rows(s12))
        # numeric adjoint representation R_ij = ½ tr(σ_i U σ_j U†)
        ctx.ev("so3.exact")
        U = U1.ndarray
        ref = np.array([[0.5 * np.trace(PAULI[i] @ U @ PAULI[j] @ U.conj().T).real for j in range(3)] for i in range(3)])
        got = s1.ndarray
        if not np.allclose(got, ref, atol=1e-9) or abs(np.linalg.det(got) - 1) > 1e-9:
            viol("so3.exact", f"SO3Matrix({w1}).ndarray differs from the adjoint representation ½tr(σ_i U σ_j U†) / det != 1", "so3:adjoint-rep", case=c,
                 observed=got, expected=ref)

    # =========================================================================================== norm-equation solver
    LAM = (1, 1)        # unit 1 + √2

    def solve_case(xi, solvable, cls):
        c = {"xi": xi, "class": cls}
        ctx.case(fingerprint("xi", xi), nontrivial=solvable, cls="dioph:" + cls)
        try:
            with Alarm(20):
                t = ns._solve_diophantine(S(xi))
        except TimeoutError:
            ctx.count("solver_watchdog_timeouts")
            ctx.note_add("solver_timeouts", f"xi = {xi} ({cls})", cap=5)
            return
        except Exception as e:  # noqa: BLE001
            # not a 'returned solution': recorded, not a verdict (e.g. math.isqrt of a negative number for non-doubly-positive ξ)
            ctx.count(f"solver_raised:{cls}:{type(e).__name__}")
            ctx.note_add("solver_exceptions", f"_solve_diophantine(ZSqrtTwo{xi}) [{cls}] raised {type(e).__name__}: {e}", cap=8)
            return
        if t is None:
            ctx.count(f"solver_none:{cls}")
            if solvable:
                ctx.note_add("solver_none_on_solvable", f"xi = {xi}", cap=8)
            return
        ctx.ev("solver.diophantine")
        ctx.count(f"solver_solution:{cls}")
        if not isinstance(t, ZOmega):
            viol("solver.diophantine", f"_solve_diophantine(ZSqrtTwo{xi}) returned {t!r}", "dioph:type", case=c)
            return
        tt = o_mul(o_conj(ov(t)), ov(t))
        if tt != o_from_s(xi):
            viol("solver.diophantine", f"_solve_diophantine(ZSqrtTwo{xi}) = {t!r} but t†t = {tt} ≠ ξ = {o_from_s(xi)}", "dioph:not-a-solution",
                 case=c, observed=tt, expected=o_from_s(xi))

    nsol = ctx.n(700, 40000)
    for k in range(nsol):
        if k % 16 == 0 and not ctx.more():
            break
        r = rng.random()
        bits = int(rng.integers(1, 15))
        t0 = tuple(int(v) for v in rng.integers(-(1 << bits), (1 << bits) + 1, size=4))
        xi0 = o_to_s(o_mul(o_conj(t0), t0))
        if r < 0.45:
            solve_case(xi0, t0 != O_ZERO, "t†t")
        elif r < 0.6:
            j = int(rng.integers(1, 4))
            solve_case(s_mul(xi0, s_pow(LAM, 2 * j)), t0 != O_ZERO, "t†t·λ^2j")
        elif r < 0.7:
            solve_case(s_mul(xi0, LAM), False, "t†t·λ (not doubly positive)")
        elif r < 0.8:
            solve_case(s_neg(xi0), False, "−t†t")
        elif r < 0.9:
            solve_case((int(rng.integers(-200, 201)), int(rng.integers(-140, 141))), False, "random small ξ")
        else:
            # 2^k − u†u as in the Ross–Selinger loop
            kk = int(rng.integers(0, 30))
            u = tuple(int(v) for v in rng.integers(-(1 << (kk // 2 + 1)), (1 << (kk // 2 + 1)) + 1, size=4))
            uu = o_to_s(o_mul(o_conj(u), u))
            solve_case((2 ** kk - uu[0], -uu[1]), False, "2^k − u†u")
    for x in small_s:      # every small ξ
        solve_case(x, False, "small exhaustive")

    # =========================================================================================== primality
    LIM = 100000
    sv_ = sieve(LIM)
    lo, hi = (ctx.shard * LIM) // ctx.nshards, ((ctx.shard + 1) * LIM) // ctx.nshards
    for n in range(lo - 3 if lo == 0 else lo, hi):
        ctx.ev("solver.primality")
        ref = bool(sv_[n]) if n >= 0 else False
        try:
            got = ns._primality_test(n)
        except Exception as e:  # noqa: BLE001
            viol("solver.primality", f"_primality_test({n}) raised {type(e).__name__}: {e}", "primality:raise", case={"n": n})
            continue
        if bool(got) != ref:
            viol("solver.primality", f"_primality_test({n}) = {got}, sieve says {ref}", "primality:small", case={"n": n}, observed=bool(got), expected=ref)
    ctx.note("primality_exhaustive", f"every n in [-3, {LIM}) against an own sieve of Eratosthenes")
    specials = [n for n in CARMICHAEL + SPSP if 0 < n < (1 << 64)]
    prim_n = ctx.n(3000, 300000)
    for k in range(prim_n + len(specials)):
        if k % 256 == 0 and not ctx.more():
            break
        if k < len(specials):
            n, cls = specials[k], "pseudoprime-list"
        else:
            r = rng.random()
            if r < 0.35:
                n, cls = int.from_bytes(rng.bytes(8), "little") >> int(rng.integers(0, 44)), "random"
                n |= 1
            elif r < 0.6:
                bits = int(rng.integers(10, 32))
                p1, p2 = sympy.nextprime(int(rng.integers(1 << bits, 2 << bits))), sympy.nextprime(int(rng.integers(1 << bits, 2 << bits)))
                n, cls = p1 * p2, "semiprime"
            elif r < 0.7:
                p1 = sympy.nextprime(int(rng.integers(100, 1 << 31)))
                n, cls = p1 * p1, "prime-square"
            elif r < 0.9:
                n, cls = sympy.nextprime(int.from_bytes(rng.bytes(8), "little") >> int(rng.integers(1, 44))), "prime"
            else:
                # Carmichael-like (6m+1)(12m+1)(18m+1)
                mm = int(rng.integers(1, 1 << 18))
                n, cls = (6 * mm + 1) * (12 * mm + 1) * (18 * mm + 1), "chernick"
        if not 0 < n < (1 << 64):
            continue
        ctx.ev("solver.primality")
        ref = bool(sympy.isprime(n))
        got = ns._primality_test(n)
        ctx.cover("primality:" + cls)
        if bool(got) != ref:
            viol("solver.primality", f"_primality_test({n}) = {got}, sympy.isprime says {ref} ({cls})", "primality:" + cls, case={"n": n},
                 observed=bool(got), expected=ref)

    # =========================================================================================== square roots modulo p
    small_primes = [p for p in range(3, 200) if sv_[p]]
    for i, p in enumerate(small_primes):
        if i % ctx.nshards != ctx.shard:
            continue
        squares = {(v * v) % p for v in range(p)}
        for n in range(-p, 2 * p):
            ctx.ev("solver.sqrt_mod")
            try:
                r = ns._sqrt_modulo_p(n, p)
            except Exception as e:  # noqa: BLE001
                viol("solver.sqrt_mod", f"_sqrt_modulo_p({n}, {p}) raised {type(e).__name__}: {e}", "sqrtmod:raise", case={"n": n, "p": p})
                continue
            if (n % p) in squares:
                if r is None or (r * r - n) % p != 0:
                    viol("solver.sqrt_mod", f"_sqrt_modulo_p({n}, {p}) = {r}; {n} is a square mod {p}", "sqrtmod:value", case={"n": n, "p": p})
            elif r is not None:
                viol("solver.sqrt_mod", f"_sqrt_modulo_p({n}, {p}) = {r}; {n} is not a square mod {p}", "sqrtmod:nonresidue", case={"n": n, "p": p})
    for k in range(ctx.n(1500, 100000)):
        if k % 128 == 0 and not ctx.more():
            break
        p = sympy.nextprime(int.from_bytes(rng.bytes(8), "little") >> int(rng.integers(1, 50)))
        if rng.random() < 0.3:          # p ≡ 1 mod 2^s with large s (Tonelli–Shanks loop)
            s_ = int(rng.integers(3, 30))
            q_ = int(rng.integers(1, 1 << 20)) | 1
            while not sympy.isprime(q_ * (1 << s_) + 1):
                q_ += 2
            p = q_ * (1 << s_) + 1
        if p == 2:
            continue
        if rng.random() < 0.5:
            v = int(rng.integers(0, min(p, 1 << 62)))
            n = (v * v) % p
        else:
            n = [2, -1, -2][int(rng.integers(3))] if rng.random() < 0.5 else int(rng.integers(-(1 << 62), 1 << 62))
        ctx.ev("solver.sqrt_mod")
        residue = (n % p == 0) or pow(n % p, (p - 1) // 2, p) == 1          # Euler's criterion (theorem, not the code under test)
        r = ns._sqrt_modulo_p(n, p)
        if residue and (r is None or (r * r - n) % p != 0):
            viol("solver.sqrt_mod", f"_sqrt_modulo_p({n}, {p}) = {r}; r² ≢ n although n is a quadratic residue", "sqrtmod:value", case={"n": n, "p": p})
        elif not residue and r is not None:
            viol("solver.sqrt_mod", f"_sqrt_modulo_p({n}, {p}) = {r} for a non-residue", "sqrtmod:nonresidue", case={"n": n, "p": p})

    # =========================================================================================== factorization
    for k in range(ctx.n(1200, 60000)):
        if k % 32 == 0 and not ctx.more():
            break
        r = rng.random()
        if r < 0.4:
            n = int(rng.integers(2, 1 << 20))
        elif r < 0.7:
            n = int(rng.integers(2, 1 << 40))
        else:
            bits = int(rng.integers(8, 26))
            n = sympy.nextprime(int(rng.integers(1 << bits, 2 << bits))) * sympy.nextprime(int(rng.integers(1 << bits, 2 << bits)))
            if rng.random() < 0.3:
                n *= int(rng.integers(1, 200))
        ref = sympy.factorint(n)
        ref_list = sorted(p for p, e in ref.items() for _ in range(e))
        for zflag in (False, True):
            ctx.ev("solver.factorize")
            try:
                with Alarm(30):
                    got = ns._prime_factorize(n, 1000, zflag)
            except TimeoutError:
                ctx.count("factorize_watchdog_timeouts")
                continue
            except Exception as e:  # noqa: BLE001
                viol("solver.factorize", f"_prime_factorize({n}, z_sqrt_two={zflag}) raised {type(e).__name__}: {e}", "factorize:raise", case={"n": n})
                continue
            has7 = any(p % 8 == 7 for p in ref)
            if got is None:
                if zflag and has7:
                    ctx.reject("factor-7-mod-8")
                else:
                    ctx.count("factorize_none_without_reason")
                    ctx.note_add("factorize_none", f"n = {n}, z_sqrt_two={zflag}", cap=5)
                continue
            if zflag and has7:
                viol("solver.factorize", f"_prime_factorize({n}, z_sqrt_two=True) = {got} although {n} has a prime factor ≡ 7 mod 8 "
                     "(documented: returns None)", "factorize:7mod8-not-rejected", case={"n": n}, observed=got)
            elif list(got) != ref_list:
                viol("solver.factorize", f"_prime_factorize({n}, z_sqrt_two={zflag}) = {got}, prime factorization is {ref_list}", "factorize:value",
                     case={"n": n}, observed=got, expected=ref_list)
        if not sympy.isprime(n) and n > 3:
            ctx.ev("solver.factorize")
            with Alarm(30):
                try:
                    g = ns._integer_factorize(n, 1000)
                except TimeoutError:
                    g = "timeout"
            if g == "timeout":
                ctx.count("factorize_watchdog_timeouts")
            elif g is None:
                ctx.count("integer_factorize_none_on_composite")
            elif not (1 < g < n and n % g == 0):
                viol("solver.factorize", f"_integer_factorize({n}) = {g}: not a non-trivial divisor", "factorize:integer-factor", case={"n": n}, observed=g)
