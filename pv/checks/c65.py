"""C65 — Executor backends behave like map and starmap.

Deciding monitors (M-EXEC history + R-MAP model)
* ``exec.map`` / ``exec.starmap`` / ``exec.submit``: every client call ``executor.map(fn, *iterables, **kw)``,
  ``executor.starmap(fn, tuples, **kw)``, ``executor.submit(fn, *args, **kw)`` (also through the functor dispatch
  ``executor("map", fn, …)``) on every native backend is compared, position by position, with the builtin
  ``list(map(partial(fn, **kw), *iterables))`` / ``list(itertools.starmap(…))`` / ``fn(*args, **kw)`` on the same
  function and arguments; a task exception must surface to the caller with the same type.
* ``exec.exactly_once``: the task functions are wrapped (same signature shape) by picklable jitter callables from
  ``pv.c65_workers`` that log worker-side start/finish events to spool files; every task must have run exactly once.
* the same logs prove that completion order really was permuted relative to submission order (planned delays:
  long-first / random / short-first); only such calls count as non-trivial.

A classifier names the mechanism of every disagreement (e.g. ``map-single-param-fn-not-unpacked``: the observed outcome
equals what ``[fn(it) for it in iterables]`` gives, i.e. the function was applied to the iterables themselves).
"""
from __future__ import annotations

import itertools
import os
import warnings
from functools import partial

from pv.ctx import fingerprint

META = {
    "id": "C65",
    "level": "exploration",
    "technique": "client-boundary differential against builtin call/map/itertools.starmap (R-MAP) on random picklable functions and "
                 "argument lists, with jitter wrappers that log worker-side start/finish events so that permuted completion order and "
                 "exactly-once execution are observed, on serial / thread-pool / process-pool / multiprocessing-pool back ends",
    "level_text": "Each generated call is executed by the real executor (persistent, one-shot and context-manager usage, worker counts "
                  "1-16) and by the builtin; results must agree position by position whatever order the tasks finished in. The evidence "
                  "counts the calls whose completion order was observed to differ from submission order.",
    "level_note": "Uneven iterable lengths are not driven (RemoteExec.map documents that lengths must be consistent). Lambdas / closures "
                  "are not driven on process back ends (must be picklable, documented). Dask / MPI back ends are not installed. Worker "
                  "counts above 4 are only used with threads in the quick tier. Spawned workers import only pv.c65_workers (no pennylane).",
    "design_ref": "7/C65",
    "shards": {"quick": 4, "thorough": 16},
    "budget_s": {"quick": 70, "thorough": 420},
    "min_evals": {"quick": 600, "thorough": 5000},
    "min_nontrivial": {"quick": 60, "thorough": 500},
    "deciding": ["exec.map", "exec.starmap", "exec.submit", "exec.exactly_once"],
    "rule": "case = one client call (backend, workers, persist, kind, function, kwargs, argument lists, delay plan); distinct = all of "
            "these; non-trivial = worker logs show a completion order different from the submission order",
    "assumptions": ["time.monotonic() is comparable across processes of one machine (used only for evidence, never for the verdict)"],
}

ARITY1 = {"sq", "ident", "var"}
NARGS = {"sq": 1, "ident": 1, "affine": 2, "poly3": 3, "tup": 2, "with_kw": 1, "affk": 2, "var": None, "boom": 2}


def outcome(thunk):
    try:
        return ("ok", thunk())
    except Exception as e:  # noqa: BLE001
        chain, x = [], e
        while x is not None and len(chain) < 6:
            chain.append(type(x).__name__)
            x = x.__cause__ or x.__context__
        return ("exc", type(e).__name__, str(e)[:160], chain)


def same(real, exp):
    if real[0] != exp[0]:
        return False
    if real[0] == "ok":
        return type(real[1]) is type(exp[1]) and real[1] == exp[1]
    # a task exception must surface: the same type, or an exception chained from it (MPPoolExec.map re-raises as ValueError from e)
    return real[1] == exp[1] or exp[1] in real[3]


def gen_call(rng, backend, quick):
    kind = ["map", "map", "starmap", "starmap", "submit", "fmap", "fstarmap", "fsubmit"][int(rng.integers(8))]
    fname = ["sq", "ident", "affine", "poly3", "tup", "with_kw", "affk", "var", "boom"][int(rng.integers(9))]
    r = rng.random()
    nmax = 40 if quick else 200
    n = 0 if r < 0.06 else 1 if r < 0.14 else int(rng.integers(2, 12)) if r < 0.7 else int(rng.integers(12, nmax + 1))
    if kind.endswith("submit"):
        n = 1
    na = NARGS[fname] or int(rng.integers(1, 4))
    keys = [int(k) for k in rng.choice(100000, size=n, replace=False)]
    rows = [tuple([k] + [int(v) for v in rng.integers(-50, 50, size=na - 1)]) for k in keys]
    if fname == "boom":
        rows = [(a, abs(b)) for a, b in rows]
        if n and rng.random() < 0.6:
            j = int(rng.integers(n))
            rows[j] = (rows[j][0], -1 - rows[j][1])
    kw = {}
    if fname == "with_kw" and rng.random() < 0.7:
        kw = {"k": int(rng.integers(-9, 9))}
    if fname == "affk":
        r2 = rng.random()
        kw = {} if r2 < 0.3 else {"k": int(rng.integers(-9, 9))} if r2 < 0.65 else {"k": int(rng.integers(-9, 9)), "m": int(rng.integers(2, 5))}
    plan = ["long-first", "long-first", "random", "short-first", "none"][int(rng.integers(5))]
    return {"kind": kind, "fname": fname, "n": n, "nargs": na, "rows": rows, "kw": kw, "plan": plan}


def delays_for(rng, call, scale):
    n = call["n"]
    keys = [r[0] for r in call["rows"]]
    if call["plan"] == "none" or n == 0:
        return {}
    if call["plan"] == "long-first":
        return {k: scale * (n - i) / n for i, k in enumerate(keys)}
    if call["plan"] == "short-first":
        return {k: scale * (i + 1) / n for i, k in enumerate(keys)}
    return {k: float(scale * rng.random()) for k in keys}


def classify(call, backend, real, exp, W):
    kind, fname, kw, rows = call["kind"].lstrip("f"), call["fname"], call["kw"], call["rows"]
    f = partial(W.FUNCS[fname], **kw)
    cols = [list(c) for c in zip(*rows)] if rows else [[] for _ in range(call["nargs"])]
    if kind == "map" and fname in ARITY1:
        alt = outcome(lambda: list(map(f, cols)))
        if same(real, alt) or (real[0] == "exc" and alt[0] == "exc"):
            return "map-single-param-fn-not-unpacked"
    if kind == "starmap" and backend.startswith("cf_"):
        if kw and real[0] == "exc" and real[1] == "TypeError" and "list() takes no keyword" in real[2]:
            return "starmap-kwargs-passed-to-list"
        if fname in ARITY1:
            alt = outcome(lambda: list(map(f, [tuple(c) for c in zip(*rows)])))
            if same(real, alt) or (real[0] == "exc" and alt[0] == "exc"):
                return "map-single-param-fn-not-unpacked:via-starmap"
    if kind == "submit" and backend == "mp_pool" and kw and real[0] == "exc" and real[1] == "TypeError" \
            and "unexpected keyword argument" in real[2]:
        return "submit-kwargs-not-forwarded:mp_pool"
    if exp[0] == "exc" and real[0] == "ok":
        return "task-exception-dropped"
    if real[0] == "exc":
        return f"{kind}-raises:{real[1]}"
    if exp[0] == "ok" and isinstance(real[1], list) and isinstance(exp[1], list):
        try:
            if sorted(map(repr, real[1])) == sorted(map(repr, exp[1])):
                return "results-out-of-order"
        except Exception:  # noqa: BLE001
            pass
        if len(real[1]) != len(exp[1]):
            return f"{kind}-wrong-length"
    return f"{kind}-wrong-result"


def run_call(ctx, W, ex, backend, cfgdesc, call, spool, call_id, rng, scale):
    kind, fname, kw, rows = call["kind"], call["fname"], call["kw"], call["rows"]
    base = kind.lstrip("f")
    functor = kind.startswith("f")
    plain = partial(W.FUNCS[fname], **kw)
    cols = [list(c) for c in zip(*rows)] if rows else [[] for _ in range(call["nargs"])]
    delays = delays_for(rng, call, scale)
    J = W.WRAPPER_OF[fname](fname, spool, call_id, delays)
    if base == "map":
        exp = outcome(lambda: list(map(plain, *cols)))
        real = outcome((lambda: ex("map", J, *cols, **kw)) if functor else (lambda: ex.map(J, *cols, **kw)))
    elif base == "starmap":
        exp = outcome(lambda: list(itertools.starmap(plain, rows)))
        real = outcome((lambda: ex("starmap", J, list(rows), **kw)) if functor else (lambda: ex.starmap(J, list(rows), **kw)))
    else:
        exp = outcome(lambda: plain(*rows[0]))
        real = outcome((lambda: ex("submit", J, *rows[0], **kw)) if functor else (lambda: ex.submit(J, *rows[0], **kw)))
    mon = "exec." + base
    ctx.ev(mon)
    log = W.read_spool(spool, call_id)
    starts = [e for e in log if e[0] == "S"]
    fins = [e for e in log if e[0] == "F"]
    sub_order = [repr(r[0]) for r in rows]
    fin_order = [e[1] for e in fins]
    permuted = len(fins) == len(rows) and len(rows) >= 2 and fin_order != sub_order
    case = {"backend": backend, "config": cfgdesc, "kind": kind, "fn": fname, "kwargs": kw, "n": call["n"], "plan": call["plan"],
            "args_head": [list(r) for r in rows[:6]]}
    fp = fingerprint(backend, cfgdesc, kind, fname, repr(kw), repr(rows), call["plan"])
    ctx.case(fp, nontrivial=permuted, cls=f"{backend}:{base}",
             sample={**case, "completion_order_head": fin_order[:6], "pids": len({e[2] for e in log}), "threads": len({(e[2], e[3]) for e in log})})
    ctx.cover(f"fn:{fname}")
    ctx.cover(f"plan:{call['plan']}")
    if permuted:
        ctx.count(f"permuted_calls.{backend}")
        ctx.note_add("_orders", fingerprint(repr([sub_order.index(k) for k in fin_order if k in sub_order])), cap=100000)
        if ctx.nevents.get("interleaving", 0) < 40:
            ctx.event("interleaving", backend=backend, workers=cfgdesc, call=kind, n=call["n"], plan=call["plan"],
                      completion_rank_of_submission=[fin_order.index(k) if k in fin_order else -1 for k in sub_order][:16],
                      pids=len({e[2] for e in log}))
    if not same(real, exp):
        mech = classify(call, backend, real, exp, W)
        ctx.violation(mon, f"{backend}({cfgdesc}).{kind}({fname}, n={call['n']}, kwargs={kw}) disagrees with the builtin: "
                           f"got {str(real)[:160]}, builtin gives {str(exp)[:160]}", case=case, mech=mech,
                      observed=real, expected=exp)
        return
    # exactly once (only meaningful when the whole call succeeded)
    if exp[0] == "ok":
        ctx.ev("exec.exactly_once")
        skeys = sorted(e[1] for e in starts)
        if skeys != sorted(sub_order) or sorted(fin_order) != sorted(sub_order):
            dup = [k for k in set(skeys) if skeys.count(k) > 1]
            ctx.violation("exec.exactly_once", f"{backend}({cfgdesc}).{kind}({fname}): worker logs show {len(starts)} starts / {len(fins)} "
                          f"finishes for {len(rows)} tasks" + (f"; task {dup[0]} ran {skeys.count(dup[0])} times" if dup else ""),
                          case=case, mech="task-run-more-than-once" if dup else "task-not-run")


def configs(quick):
    """(backend, max_workers, persist, use_context_manager, number of calls, delay scale)"""
    c = [("serial", 1, False, False, 60, 0.0), ("serial", None, True, True, 30, 0.0)]
    for w in (1, 2, 3, 5, 8, 16):
        c.append(("cf_threadpool", w, True, False, 60, 0.012))
    c.append(("cf_threadpool", 4, False, False, 50, 0.012))
    c.append(("cf_threadpool", 6, False, True, 40, 0.012))
    c.append(("cf_threadpool", None, True, False, 30, 0.012))
    for w in ((2, 4) if quick else (1, 2, 3, 4, 8, 16)):
        c.append(("cf_procpool", w, True, False, 45, 0.03))
        c.append(("mp_pool", w, True, False, 45, 0.03))
    c.append(("cf_procpool", 3, True, True, 30, 0.03))
    c.append(("mp_pool", 3, True, True, 30, 0.03))
    c.append(("cf_procpool", 2, False, False, 6, 0.03))  # one-shot pools: a new pool per call
    c.append(("mp_pool", 2, False, False, 6, 0.03))
    return c


def run(ctx):
    warnings.simplefilter("ignore")
    from pennylane.concurrency.executors import create_executor

    from pv import c65_workers as W

    root = os.path.dirname(os.path.dirname(os.path.dirname(os.path.abspath(__file__))))
    spool = os.path.join(root, "evidence", ".work", "C65", f"spool-{ctx.tier}-{ctx.seed}-{ctx.shard}")
    os.makedirs(spool, exist_ok=True)
    cfgs = configs(ctx.quick)
    reps = 1 if ctx.quick else 6
    plan = [(i, c) for _ in range(reps) for i, c in enumerate(cfgs)]
    mine = ctx.my(plan)
    rng = ctx.rng
    ncall = 0
    for rep, (ci, (backend, workers, persist, use_cm, ncalls, scale)) in enumerate(mine):
        if rep > 0 and not ctx.more():
            break
        cfgdesc = f"max_workers={workers},persist={persist}" + (",with" if use_cm else "")
        kwargs = {"persist": persist}
        if workers is not None:
            kwargs["max_workers"] = workers
        try:
            ex = create_executor(backend, **kwargs)
        except Exception as e:  # noqa: BLE001
            ctx.inconclusive_case(f"could not create {backend}({cfgdesc}): {type(e).__name__}: {e}")
            continue
        ctx.cover(f"config:{backend}:{cfgdesc}")

        def body(ex):
            nonlocal ncall
            for _ in range(ncalls):
                ncall += 1
                ctx.case_index = ctx.shard * 1000000 + ncall
                call = gen_call(rng, backend, ctx.quick)
                run_call(ctx, W, ex, backend, cfgdesc, call, spool, f"c{ctx.shard}x{ncall}", rng, scale)

        try:
            if use_cm:
                with ex as e2:
                    body(e2)
                if not persist and getattr(ex, "_persistent_backend", None) is not None:
                    pass
            else:
                body(ex)
        finally:
            try:
                ex.shutdown()
            except Exception:  # noqa: BLE001
                pass
    orders = ctx.notes.pop("_orders", [])
    ctx.note("interleavings_observed", len(orders))
    ctx.note("permuted_calls_total", sum(v for k, v in ctx.counters.items() if k.startswith("permuted_calls.")))
    try:
        for fn in os.listdir(spool):
            os.remove(os.path.join(spool, fn))
        os.rmdir(spool)
    except OSError:
        pass
