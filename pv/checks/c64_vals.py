"""C64 helpers — value generators for every supported dataset attribute type and the harness' own type-aware
deep equality (never uses ``DatasetAttribute.__eq__`` / ``qp.equal``).

Model values are plain Python objects.  A nested dataset is represented by ``DSModel``; ``realize`` turns a model value
into the object that is handed to the real ``Dataset`` (the model itself is never handed to PennyLane: every value is
generated twice from the same seed, one copy for the model and one for the code under test, so aliasing or in-place
mutation by the real code cannot silently change the expectation).
"""
from __future__ import annotations

import math
from collections.abc import Mapping, Sequence

import numpy as np

from pv.gen import num

_QP = None


def qp_():
    global _QP
    if _QP is None:
        import pennylane as qp
        _QP = qp
    return _QP


# ------------------------------------------------------------------------------------------------ model objects
class Entry:
    """One attribute of a model dataset (immutable by convention: replaced, never edited)."""

    __slots__ = ("value", "doc", "extra", "codec", "via", "py_type", "origin")

    def __init__(self, value, doc=None, extra=None, codec="default", via="raw", py_type=None, origin="set"):
        self.value = value
        self.doc = doc
        self.extra = dict(extra or {})
        self.codec = codec  # "default" | "operator" (explicit DatasetOperator) | "json" (explicit DatasetJSON)
        self.via = via      # "raw" | "attribute" | "explicit" | "field"
        self.py_type = py_type  # first py_type observed on the real object (must *survive*; never recomputed by us)
        self.origin = origin    # "set" or the kind of the last in-place edit / nesting that produced the value

    def with_value(self, value, origin=None):
        return Entry(value, self.doc, self.extra, self.codec, self.via, self.py_type, origin or self.origin)


class DSModel:
    """Model of a dataset: attribute name -> Entry, plus data_name / identifiers."""

    def __init__(self, attrs=None, data_name="generic", identifiers=(), declared=False):
        self.attrs = dict(attrs or {})
        self.data_name = data_name
        self.identifiers = tuple(identifiers)
        self.declared = declared

    def copy(self):
        return DSModel(self.attrs, self.data_name, self.identifiers, self.declared)


# ------------------------------------------------------------------------------------------------ leaf generators
STRINGS = ["", "a", "abc", "hello world", "ünïcödé ✓", "日本語", "🙂 emoji", "line1\nline2", "tab\tsep", " lead/trail ", "0", "None", "a/b", "x" * 300,
           "quote'\"", "{json: [1]}", "%s %d", "\\back\\slash"]
KEYS = ["a", "b", "k0", "key one", "ünï", "0", "10", "2", "a.b", "UPPER", "_under", "z" * 40, "with-dash", "x:y", "名"]


def g_str(rng):
    if rng.random() < 0.7:
        return STRINGS[int(rng.integers(len(STRINGS)))]
    n = int(rng.integers(1, 12))
    return "".join(chr(int(c)) for c in rng.choice([97, 98, 122, 48, 32, 95, 228, 960, 8364, 0x4e2d], size=n))


INT_SPECIAL = [0, 1, -1, 2, 255, 256, -128, 2**31 - 1, 2**31, -2**31, 2**53 + 1, 2**62, -2**63, 2**63 - 1]
FLOAT_SPECIAL = [0.0, -0.0, 1.0, -1.5, 1e-300, 1e300, 5e-324, float("inf"), float("-inf"), float("nan"), math.pi, 1 / 3, 2**53 + 2.0, 1e-12]
NP_SCALAR_DTYPES = ["int8", "int16", "int32", "int64", "uint8", "uint16", "uint32", "uint64", "float16", "float32", "float64", "complex64", "complex128"]


def g_float(rng):
    if rng.random() < 0.35:
        return float(FLOAT_SPECIAL[int(rng.integers(len(FLOAT_SPECIAL)))])
    return float(rng.normal() * 10 ** float(rng.integers(-3, 4)))


def g_scalar(rng):
    r = rng.random()
    if r < 0.12:
        return bool(rng.integers(2))
    if r < 0.34:
        return int(INT_SPECIAL[int(rng.integers(len(INT_SPECIAL)))]) if rng.random() < 0.5 else int(rng.integers(-10**6, 10**6))
    if r < 0.56:
        return g_float(rng)
    if r < 0.74:
        im = g_float(rng)
        if rng.random() < 0.3:
            im = [0.0, -0.0, 1.0, -1.0][int(rng.integers(4))]
        return complex(g_float(rng), im)
    if r < 0.78:
        return np.bool_(bool(rng.integers(2)))
    dt = np.dtype(NP_SCALAR_DTYPES[int(rng.integers(len(NP_SCALAR_DTYPES)))])
    if dt.kind in "iu":
        info = np.iinfo(dt)
        v = [info.min, info.max, 0, 1][int(rng.integers(4))] if rng.random() < 0.5 else int(rng.integers(max(info.min, -1000), min(info.max, 1000)))
        return dt.type(v)
    if dt.kind == "f":
        return dt.type(g_float(rng)) if rng.random() < 0.8 else dt.type(np.finfo(dt).max)
    return dt.type(complex(rng.normal(), rng.normal()))


ARRAY_DTYPES = ["bool", "int8", "int16", "int32", "int64", "uint8", "uint16", "uint32", "uint64", "float16", "float32", "float64", "complex64", "complex128",
                ">f8", ">i4", "<f4", "S3"]
SHAPES = [(), (0,), (1,), (3,), (2, 3), (3, 2), (0, 3), (2, 0, 2), (1, 1, 1), (2, 2, 2), (4, 4), (7,), (2, 3, 2)]


def g_ndarray(rng, dtype=None, shape=None):
    dt = np.dtype(dtype or ARRAY_DTYPES[int(rng.integers(len(ARRAY_DTYPES)))])
    shape = SHAPES[int(rng.integers(len(SHAPES)))] if shape is None else shape
    n = int(np.prod(shape)) if shape else 1
    if dt.kind == "b":
        a = rng.integers(0, 2, size=n).astype(bool)
    elif dt.kind in "iu":
        info = np.iinfo(dt)
        a = rng.integers(max(info.min, -2**40), min(info.max, 2**40), size=n, endpoint=True).astype(dt)
        if n and rng.random() < 0.4:
            a[0] = info.max
            a[-1] = info.min
    elif dt.kind == "f":
        a = (rng.normal(size=n) * 10 ** rng.integers(-3, 4, size=n).astype(float)).astype(dt)
        if n and rng.random() < 0.35:
            a[int(rng.integers(n))] = [np.nan, np.inf, -np.inf, -0.0][int(rng.integers(4))]
    elif dt.kind == "c":
        a = (rng.normal(size=n) + 1j * rng.normal(size=n)).astype(dt)
        if n and rng.random() < 0.3:
            a[int(rng.integers(n))] = complex(np.nan, 1.0) if rng.random() < 0.5 else complex(0.0, -2.5)
    elif dt.kind == "S":
        a = np.array([[b"", b"a", b"xyz", b"q\x01"][int(k)] for k in rng.integers(0, 4, size=n)], dtype=dt)
    else:
        raise ValueError(dt)
    a = a.astype(dt).reshape(shape)
    lay = rng.random()
    if a.ndim >= 2 and lay < 0.2:
        a = np.asfortranarray(a)
    elif a.ndim >= 1 and a.size and lay < 0.35:  # non-contiguous strided view with the same content
        big = np.zeros(tuple(2 * s for s in a.shape), dtype=dt)
        big[tuple(slice(None, None, 2) for _ in a.shape)] = a
        a = big[tuple(slice(None, None, 2) for _ in a.shape)]
    return a


def g_array(rng):
    """numpy array or pennylane.numpy tensor (requires_grad True/False)."""
    if rng.random() < 0.22:
        pnp = qp_().numpy
        dt = ["float64", "float32", "complex128", "int64"][int(rng.integers(4))]
        return pnp.array(g_ndarray(rng, dtype=dt), requires_grad=bool(rng.integers(2)))
    return g_ndarray(rng)


SPARSE_CLASSES = ["bsr_array", "coo_array", "csc_array", "csr_array", "dia_array", "dok_array", "lil_array",
                  "csc_matrix", "csr_matrix", "bsr_matrix", "coo_matrix", "dia_matrix", "dok_matrix", "lil_matrix"]


def g_sparse(rng, cls=None):
    import scipy.sparse as sp
    cls = cls or SPARSE_CLASSES[int(rng.integers(len(SPARSE_CLASSES)))]
    shape = [(3, 3), (2, 5), (5, 1), (1, 1), (4, 4), (0, 0), (2, 0), (8, 8), (1, 6)][int(rng.integers(9))]
    dt = ["float64", "float32", "complex128", "int32", "int64", "bool", "complex64"][int(rng.integers(7))]
    dens = [0.0, 0.2, 0.5, 1.0][int(rng.integers(4))]
    n = shape[0] * shape[1]
    mask = rng.random(size=n) < dens
    if dt == "bool":
        vals = mask.copy()
    elif dt.startswith("complex"):
        vals = (rng.normal(size=n) + 1j * rng.normal(size=n)) * mask
    elif dt.startswith("int"):
        vals = rng.integers(-9, 10, size=n) * mask
    else:
        vals = rng.normal(size=n) * mask
    dense = np.asarray(vals).astype(dt).reshape(shape)
    return getattr(sp, cls)(dense)


MOLS = [
    (["H", "H"], [[0.0, 0.0, -0.69], [0.0, 0.0, 0.69]], 0, 1),
    (["He", "H"], [[0.0, 0.0, 0.0], [0.0, 0.0, 1.46]], 1, 1),
    (["H", "H", "H"], [[0.0, 0.0, 0.0], [0.0, 1.7, 0.0], [1.5, 0.8, 0.0]], 1, 1),
    (["Li", "H"], [[0.0, 0.0, 0.0], [0.0, 0.0, 3.0]], 0, 1),
    (["H", "O", "H"], [[0.0, 1.43, -0.9], [0.0, 0.0, 0.2], [0.0, -1.43, -0.9]], 0, 1),
    (["H"], [[0.1, 0.2, 0.3]], 0, 2),
]


def g_molecule(rng):
    qp = qp_()
    sym, geo, charge, mult = MOLS[int(rng.integers(len(MOLS)))]
    geo = np.array(geo) + rng.normal(scale=0.05, size=np.shape(geo))
    kw = {"charge": charge, "mult": mult}
    r = rng.random()
    if r < 0.3:
        kw["basis_name"] = ["sto-3g", "6-31g", "6-311g", "cc-pvdz"][int(rng.integers(4))]
    if rng.random() < 0.25:
        kw["unit"] = "angstrom"
    if rng.random() < 0.2:
        kw["normalize"] = False
    if rng.random() < 0.3:
        kw["name"] = ["h2", "my molecule", "mol-ü"][int(rng.integers(3))]
    if rng.random() < 0.3:
        geo = qp.numpy.array(geo, requires_grad=bool(rng.integers(2)))
    try:
        mol = qp.qchem.Molecule(list(sym), geo, **kw)
    except Exception:  # noqa: BLE001 - basis set not shipped for this element: fall back to the default basis
        kw.pop("basis_name", None)
        mol = qp.qchem.Molecule(list(sym), geo, **kw)
    if rng.random() < 0.25 and kw.get("basis_name", "sto-3g") == "sto-3g":  # user-supplied exponents / contraction coefficients
        alpha = np.array([np.asarray(a, dtype=float) for a in mol.alpha]) * float(rng.uniform(0.8, 1.2))
        coeff = np.array([np.asarray(c, dtype=float) for c in mol.coeff])
        if rng.random() < 0.5:
            alpha = qp.numpy.array(alpha, requires_grad=True)
            coeff = qp.numpy.array(coeff, requires_grad=bool(rng.integers(2)))
        mol = qp.qchem.Molecule(list(sym), geo, alpha=alpha, coeff=coeff, **kw)
    return mol


# ------------------------------------------------------------------------------------------------ operators
def _param(rng, lo=None, hi=None):
    """One scalar gate parameter in a random container / dtype."""
    x = num.angle(rng) if lo is None else float(rng.uniform(lo, hi))
    r = rng.random()
    if r < 0.45:
        return x
    if r < 0.6:
        return np.array(x)
    if r < 0.7:
        return np.float64(x)
    if r < 0.78 and lo is None:
        return int(rng.integers(-6, 7))
    if r < 0.86:
        return np.float32(x)
    if r < 0.93:
        return qp_().numpy.array(x, requires_grad=bool(rng.integers(2)))
    return float(x)


def _wires(rng, n):
    if rng.random() < 0.08:
        pool = [0, 1, 2, "a", -1, 2**40, "", "0", 1.5, "ü", "q1", 7]
        idx = rng.choice(len(pool), size=n, replace=False)
        return [pool[int(i)] for i in idx]
    return num.wire_labels(rng, n)


def _haar(rng, dim):
    z = rng.normal(size=(dim, dim)) + 1j * rng.normal(size=(dim, dim))
    q, r = np.linalg.qr(z)
    d = np.diag(r)
    return q * (d / np.abs(d))


def _state(rng, k):
    v = rng.normal(size=2**k) + 1j * rng.normal(size=2**k)
    return v / np.linalg.norm(v)


def _pauli_word(rng, wires, kmax=3):
    qp = qp_()
    k = int(rng.integers(1, min(kmax, len(wires)) + 1))
    ws = [wires[int(i)] for i in rng.choice(len(wires), size=k, replace=False)]
    fs = [[qp.X, qp.Y, qp.Z, qp.Identity][int(rng.integers(4))](w) for w in ws]
    ob = fs[0]
    for f in fs[1:]:
        ob = ob @ f
    return ob


def _coeff(rng, allow_complex=False):
    r = rng.random()
    if r < 0.5:
        return float(rng.normal())
    if r < 0.65:
        return int(rng.integers(-4, 5))
    if r < 0.8:
        return [0.0, 1.0, -1.0, 0.5, 1e-12, 2.0][int(rng.integers(6))]
    if allow_complex and r < 0.92:
        return complex(rng.normal(), rng.normal())
    return np.float64(rng.normal())


def make_supported_op(rng, name):
    """Instance of a class listed in ``DatasetOperator.supported_ops()`` (recipe table by class name)."""
    qp = qp_()
    cls = getattr(qp.ops, name, None) or getattr(qp, name)
    fixed = {"Hadamard": 1, "PauliX": 1, "PauliY": 1, "PauliZ": 1, "T": 1, "S": 1, "SX": 1, "CNOT": 2, "CH": 2, "SWAP": 2, "ECR": 2, "SISWAP": 2, "CZ": 2, "CY": 2,
             "CSWAP": 3, "CCZ": 3, "Toffoli": 3, "QubitCarry": 4, "QubitSum": 3}
    rot = {"RX": (1, 1), "RY": (1, 1), "RZ": (1, 1), "PhaseShift": (1, 1), "U1": (1, 1), "U2": (2, 1), "U3": (3, 1), "Rot": (3, 1),
           "IsingXX": (1, 2), "IsingYY": (1, 2), "IsingZZ": (1, 2), "IsingXY": (1, 2), "PSWAP": (1, 2), "CPhaseShift00": (1, 2), "CPhaseShift01": (1, 2),
           "CPhaseShift10": (1, 2), "ControlledPhaseShift": (1, 2), "CRX": (1, 2), "CRY": (1, 2), "CRZ": (1, 2), "CRot": (3, 2),
           "SingleExcitation": (1, 2), "SingleExcitationMinus": (1, 2), "SingleExcitationPlus": (1, 2), "FermionicSWAP": (1, 2),
           "DoubleExcitation": (1, 4), "DoubleExcitationMinus": (1, 4), "DoubleExcitationPlus": (1, 4), "OrbitalRotation": (1, 4)}
    prob = {"AmplitudeDamping": 1, "PhaseDamping": 1, "DepolarizingChannel": 1, "BitFlip": 1, "PhaseFlip": 1}
    if name in fixed:
        return cls(wires=_wires(rng, fixed[name]))
    if name in rot:
        npar, nw = rot[name]
        if npar == 1 and rng.random() < 0.15:  # broadcast parameter
            return cls(rng.uniform(-3, 3, size=int(rng.integers(1, 4))), wires=_wires(rng, nw))
        return cls(*[_param(rng) for _ in range(npar)], wires=_wires(rng, nw))
    if name in prob:
        return cls(_param(rng, 0.0, 1.0), wires=_wires(rng, 1))
    if name == "WireCut":
        return cls(wires=_wires(rng, int(rng.integers(1, 4))))
    if name == "Identity":
        return cls(wires=_wires(rng, int(rng.integers(0, 4))))
    if name == "MultiRZ":
        return cls(_param(rng), wires=_wires(rng, int(rng.integers(1, 5))))
    if name == "QubitUnitary":
        k = int(rng.integers(1, 3))
        U = _haar(rng, 2**k)
        if rng.random() < 0.2:
            U = np.stack([U, _haar(rng, 2**k)])
        return cls(U, wires=_wires(rng, k))
    if name == "DiagonalQubitUnitary":
        k = int(rng.integers(1, 3))
        return cls(np.exp(1j * rng.uniform(-3, 3, size=2**k)), wires=_wires(rng, k))
    if name == "Hermitian":
        k = int(rng.integers(1, 3))
        A = rng.normal(size=(2**k, 2**k)) + 1j * rng.normal(size=(2**k, 2**k))
        A = A + A.conj().T
        return cls(A if rng.random() < 0.7 else A.real.copy(), wires=_wires(rng, k))
    if name == "SpecialUnitary":
        k = int(rng.integers(1, 3))
        return cls(rng.normal(size=4**k - 1), wires=_wires(rng, k))
    if name == "BasisState":
        k = int(rng.integers(1, 4))
        return cls(np.array([int(b) for b in rng.integers(0, 2, size=k)]), wires=_wires(rng, k))
    if name == "StatePrep":
        k = int(rng.integers(1, 3))
        return cls(_state(rng, k), wires=_wires(rng, k))
    if name == "QubitDensityMatrix":
        k = int(rng.integers(1, 3))
        v = _state(rng, k)
        w = _state(rng, k)
        return cls(0.75 * np.outer(v, v.conj()) + 0.25 * np.outer(w, w.conj()), wires=_wires(rng, k))
    if name == "Projector":
        k = int(rng.integers(1, 3))
        if rng.random() < 0.5:
            return cls([int(b) for b in rng.integers(0, 2, size=k)], wires=_wires(rng, k))
        return cls(_state(rng, k), wires=_wires(rng, k))
    if name == "GeneralizedAmplitudeDamping":
        return cls(_param(rng, 0.0, 1.0), _param(rng, 0.0, 1.0), wires=_wires(rng, 1))
    if name == "ResetError":
        p0 = float(rng.uniform(0, 0.5))
        return cls(p0, float(rng.uniform(0, 0.5)), wires=_wires(rng, 1))
    if name == "PauliError":
        k = int(rng.integers(1, 3))
        return cls("".join(rng.choice(list("XYZ"), size=k)), float(rng.uniform(0, 1)), wires=_wires(rng, k))
    if name == "ThermalRelaxationError":
        t1 = float(rng.uniform(0.5, 2.0))
        return cls(float(rng.uniform(0, 1)), t1, float(rng.uniform(0.1, t1)), float(rng.uniform(0.01, 0.5)), wires=_wires(rng, 1))
    if name == "ControlledQubitUnitary":
        nc = int(rng.integers(1, 3))
        ws = _wires(rng, nc + 1)
        cv = [int(b) for b in rng.integers(0, 2, size=nc)]
        return cls(_haar(rng, 2), wires=ws, control_values=cv)
    wires = _wires(rng, int(rng.integers(1, 4)))
    if name == "LinearCombination":
        n = int(rng.integers(1, 5))
        return qp.Hamiltonian([_coeff(rng) for _ in range(n)], [_pauli_word(rng, wires) for _ in range(n)])
    if name == "Sum":
        return qp.sum(*[_sum_term(rng, wires) for _ in range(int(rng.integers(2, 5)))])
    if name == "Prod":
        return qp.prod(*[_sum_term(rng, wires) if rng.random() < 0.3 else _pauli_word(rng, wires, 1) for _ in range(int(rng.integers(2, 4)))])
    if name == "SProd":
        return qp.s_prod(_coeff(rng, allow_complex=True), _sum_term(rng, wires))
    raise KeyError(name)


def _sum_term(rng, wires):
    qp = qp_()
    r = rng.random()
    if r < 0.45:
        return _pauli_word(rng, wires)
    if r < 0.75:
        return qp.s_prod(_coeff(rng, allow_complex=rng.random() < 0.2), _pauli_word(rng, wires))
    if r < 0.85:
        return qp.sum(_pauli_word(rng, wires), _pauli_word(rng, wires))
    return qp.RX(_param(rng), wires=wires[0])


EXTRA_OPS = ["PauliRot", "PCPhase", "MultiControlledX", "IntegerComparator", "GlobalPhase", "ISWAP", "Projector", "Hermitian", "QubitUnitary", "StatePrep", "BasisState",
             "ControlledQubitUnitary", "PauliError", "ThermalRelaxationError", "SpecialUnitary", "DiagonalQubitUnitary", "QubitDensityMatrix", "WireCut",
             "Barrier", "Snapshot", "QFT", "BasisEmbedding", "AngleEmbedding", "StronglyEntanglingLayers", "TrotterProduct", "Evolution", "Select", "Adder"]


def make_any_op(rng, depth=0):
    """Operator for the default (pytree) codec: named gates, symbolic nestings, arithmetic, a few templates."""
    qp = qp_()
    from pv.gen import ops as gops
    r = rng.random()
    if depth < 2 and r < 0.34:
        kind = int(rng.integers(9))
        base = make_any_op(rng, depth + 1)
        try:
            if kind == 0:
                return qp.adjoint(base)
            if kind == 1:
                return qp.pow(base, [2, 3, -1, 0.5, 0, 1][int(rng.integers(6))])
            if kind == 2:
                nc = int(rng.integers(1, 3))
                cw = [w for w in ["c0", "c1", 11, 12] if w not in base.wires][:nc]
                kw = {}
                if rng.random() < 0.6:
                    kw["control_values"] = [int(b) for b in rng.integers(0, 2, size=len(cw))]
                if rng.random() < 0.3:
                    kw["work_wires"] = ["wk"]
                return qp.ctrl(base, control=cw, **kw)
            if kind == 3:
                return qp.s_prod(_coeff(rng, allow_complex=True), base)
            if kind == 4:
                return qp.sum(base, *[make_any_op(rng, depth + 1) for _ in range(int(rng.integers(1, 3)))])
            if kind == 5:
                return qp.prod(base, *[make_any_op(rng, depth + 1) for _ in range(int(rng.integers(1, 3)))])
            if kind == 6:
                return qp.exp(base, [1j, -0.5j, 0.3, 2][int(rng.integers(4))] * float(rng.uniform(0.1, 2)))
            if kind == 7:
                return base @ make_any_op(rng, depth + 1)
            return base + make_any_op(rng, depth + 1)
        except Exception:  # noqa: BLE001 - construction refused by PennyLane (e.g. overlapping wires): not part of this property
            return base
    if r < 0.5:
        wires = _wires(rng, int(rng.integers(1, 4)))
        n = int(rng.integers(1, 5))
        if rng.random() < 0.5:
            return qp.Hamiltonian([_coeff(rng, allow_complex=rng.random() < 0.1) for _ in range(n)], [_pauli_word(rng, wires) for _ in range(n)])
        return qp.ops.LinearCombination([_coeff(rng) for _ in range(n)], [_sum_term(rng, wires) for _ in range(n)])
    if r < 0.62:
        name = EXTRA_OPS[int(rng.integers(len(EXTRA_OPS)))]
        return _extra_op(rng, name)
    names = sorted(gops.NAMED)
    name = names[int(rng.integers(len(names)))]
    if name in ("QubitSum", "QubitCarry") or gops.NAMED[name][0] == 0 or rng.random() < 0.5:
        op, _ = gops.make_named(qp, name, rng)
        return op
    npar, nw = gops.NAMED[name]
    if nw is None or name in ("PauliRot", "PCPhase", "GlobalPhase"):
        op, _ = gops.make_named(qp, name, rng)
        return op
    return getattr(qp, name)(*[_param(rng) for _ in range(npar)], wires=_wires(rng, nw))


def _extra_op(rng, name):
    qp = qp_()
    from pv.gen import ops as gops
    if name in ("PauliRot", "PCPhase", "MultiControlledX", "IntegerComparator", "GlobalPhase", "ISWAP"):
        return gops.make_named(qp, name, rng)[0]
    if name == "Barrier":
        return qp.Barrier(wires=_wires(rng, int(rng.integers(1, 4))), only_visual=bool(rng.integers(2)))
    if name == "Snapshot":
        return qp.Snapshot("tag" if rng.random() < 0.5 else None)
    if name == "QFT":
        return qp.QFT(wires=_wires(rng, int(rng.integers(1, 4))))
    if name == "BasisEmbedding":
        k = int(rng.integers(1, 4))
        return qp.BasisEmbedding([int(b) for b in rng.integers(0, 2, size=k)], wires=_wires(rng, k))
    if name == "AngleEmbedding":
        k = int(rng.integers(1, 4))
        return qp.AngleEmbedding(rng.uniform(-3, 3, size=k), wires=_wires(rng, k), rotation=["X", "Y", "Z"][int(rng.integers(3))])
    if name == "StronglyEntanglingLayers":
        k = int(rng.integers(1, 4))
        return qp.StronglyEntanglingLayers(rng.uniform(-3, 3, size=(int(rng.integers(1, 3)), k, 3)), wires=_wires(rng, k))
    if name == "TrotterProduct":
        ws = _wires(rng, 2)
        return qp.TrotterProduct(qp.sum(qp.X(ws[0]), qp.Z(ws[1]), qp.s_prod(0.5, qp.Y(ws[0]))), time=float(rng.uniform(0.1, 2)), n=int(rng.integers(1, 3)), order=[1, 2][int(rng.integers(2))])
    if name == "Evolution":
        ws = _wires(rng, 2)
        return qp.evolve(qp.sum(qp.X(ws[0]), qp.s_prod(float(rng.normal()), qp.Z(ws[0]) @ qp.Z(ws[1]))), float(rng.uniform(0.1, 2)))
    if name == "Select":
        ws = _wires(rng, 3)
        return qp.Select([qp.X(ws[2]), qp.RY(float(rng.uniform(-3, 3)), ws[2])], control=[ws[0]])
    if name == "Adder":
        return qp.Adder(int(rng.integers(1, 4)), x_wires=[0, 1, 2], mod=8, work_wires=[3, 4])
    return make_supported_op(rng, name)


def make_measurement(rng):
    qp = qp_()
    wires = _wires(rng, int(rng.integers(1, 4)))
    k = int(rng.integers(8))
    if k == 0:
        return qp.expval(_pauli_word(rng, wires))
    if k == 1:
        return qp.var(_pauli_word(rng, wires))
    if k == 2:
        return qp.probs(wires=wires)
    if k == 3:
        return qp.expval(qp.Hamiltonian([_coeff(rng) for _ in range(2)], [_pauli_word(rng, wires) for _ in range(2)]))
    if k == 4:
        return qp.sample(wires=wires) if rng.random() < 0.5 else qp.sample(_pauli_word(rng, wires))
    if k == 5:
        return qp.counts(wires=wires)
    if k == 6:
        return qp.state() if rng.random() < 0.5 else qp.density_matrix(wires=wires)
    A = rng.normal(size=(2, 2))
    return qp.expval(qp.Hermitian(A + A.T, wires=wires[0]))


def make_tape(rng):
    qp = qp_()
    ops = [make_any_op(rng, depth=1) for _ in range(int(rng.integers(0, 5)))]
    ms = [make_measurement(rng) for _ in range(int(rng.integers(0, 3)))]
    shots = [None, 10, (5, 5, 7), None][int(rng.integers(4))]
    tape = qp.tape.QuantumScript(ops, ms, shots=shots)
    if rng.random() < 0.4:
        npar = len(tape.get_parameters(trainable_only=False))
        if npar:
            tape.trainable_params = sorted(int(i) for i in rng.choice(npar, size=int(rng.integers(0, npar + 1)), replace=False))
    return tape


# ------------------------------------------------------------------------------------------------ recursive values
LEAF_KINDS = ["none", "str", "scalar", "array", "sparse", "molecule", "operator", "measurement", "tape"]
LEAF_W = [0.06, 0.15, 0.26, 0.2, 0.08, 0.03, 0.16, 0.04, 0.02]


def g_leaf(rng, kind=None):
    kind = kind or LEAF_KINDS[int(rng.choice(len(LEAF_KINDS), p=LEAF_W))]
    if kind == "none":
        return None
    if kind == "str":
        return g_str(rng)
    if kind == "scalar":
        return g_scalar(rng)
    if kind == "array":
        return g_array(rng)
    if kind == "sparse":
        return g_sparse(rng)
    if kind == "molecule":
        return g_molecule(rng)
    if kind == "operator":
        return make_any_op(rng)
    if kind == "measurement":
        return make_measurement(rng)
    if kind == "tape":
        return make_tape(rng)
    raise ValueError(kind)


def g_key(rng, used):
    for _ in range(20):
        k = KEYS[int(rng.integers(len(KEYS)))] if rng.random() < 0.8 else g_str(rng)
        if k and k not in used and "/" not in k and k != "." and "\x00" not in k:
            return k
    return f"k{len(used)}"


def g_value(rng, depth=0, kind=None, allow_ds=True):
    """Random supported value, containers nested up to depth 3."""
    if kind is None:
        p_cont = [0.5, 0.4, 0.3, 0.0][min(depth, 3)]
        if rng.random() < p_cont:
            kind = ["list", "tuple", "dict", "dataset"][int(rng.choice(4, p=[0.36, 0.27, 0.29, 0.08]))]
            if kind == "dataset" and not allow_ds:
                kind = "list"
        else:
            return g_leaf(rng)
    if kind in ("list", "tuple"):
        n = int(rng.choice([0, 1, 2, 3, 5, 12], p=[0.2, 0.2, 0.26, 0.16, 0.08, 0.1]))  # 12: element keys "10", "11" sort before "2" in HDF5
        if n == 12:
            items = [g_leaf(rng, ["scalar", "str", "none"][int(rng.integers(3))]) for _ in range(n)]
        elif depth >= 3:
            items = [g_leaf(rng) for _ in range(n)]
        elif rng.random() < 0.25:  # homogeneous
            k = LEAF_KINDS[int(rng.choice(len(LEAF_KINDS), p=LEAF_W))]
            items = [g_leaf(rng, k) for _ in range(n)]
        else:
            items = [g_value(rng, depth + 1, allow_ds=allow_ds) for _ in range(n)]
        return items if kind == "list" else tuple(items)
    if kind == "dict":
        n = int(rng.choice([0, 1, 2, 3, 4], p=[0.2, 0.2, 0.3, 0.2, 0.1]))
        out = {}
        for _ in range(n):
            k = g_key(rng, out)
            out[k] = g_leaf(rng) if depth >= 3 else g_value(rng, depth + 1, allow_ds=allow_ds)
        return out
    if kind == "dataset":
        n = int(rng.integers(0, 4))
        attrs = {}
        for j in range(n):
            attrs[f"n{j}"] = Entry(g_leaf(rng) if depth >= 2 else g_value(rng, depth + 1, allow_ds=allow_ds))
        return DSModel(attrs)
    return g_leaf(rng, kind)


def g_long(rng, kind):
    """Container with more than ten elements (HDF5 iterates link names lexicographically: "10" < "2")."""
    n = int(rng.integers(11, 15))
    items = [g_leaf(rng, ["scalar", "str", "none", "scalar"][int(rng.integers(4))]) if rng.random() < 0.8 else g_value(rng, 2, allow_ds=False) for _ in range(n)]
    return items if kind == "list" else tuple(items)


def g_json(rng, depth=0):
    r = rng.random()
    if depth >= 3 or r < 0.5:
        k = int(rng.integers(6))
        return [None, bool(rng.integers(2)), int(rng.integers(-10**9, 10**9)), float(rng.normal()), g_str(rng), 2**70][k]
    if r < 0.75:
        return [g_json(rng, depth + 1) for _ in range(int(rng.integers(0, 4)))]
    return {g_key(rng, ()): g_json(rng, depth + 1) for _ in range(int(rng.integers(0, 4)))}


def realize(v):
    """Model value -> object handed to the real code (DSModel -> real Dataset, containers rebuilt)."""
    qp = qp_()
    if isinstance(v, DSModel):
        ds = qp.data.Dataset()
        for k, e in v.attrs.items():
            setattr(ds, k, realize(e.value))
        return ds
    if type(v) is list:
        return [realize(x) for x in v]
    if type(v) is tuple:
        return tuple(realize(x) for x in v)
    if type(v) is dict:  # NB: scipy's dok_array is a dict subclass and must be passed through untouched
        return {k: realize(x) for k, x in v.items()}
    return v


def kind_of(v):
    qp = qp_()
    import scipy.sparse as sp
    if v is None:
        return "none"
    if isinstance(v, DSModel):
        return "dataset"
    if isinstance(v, str):
        return "str"
    if isinstance(v, (bool, int, float, complex, np.generic)):
        return "scalar"
    if isinstance(v, np.ndarray):
        return "array"
    if sp.issparse(v):
        return "sparse"
    if isinstance(v, list):
        return "list"
    if isinstance(v, tuple):
        return "tuple"
    if isinstance(v, dict):
        return "dict"
    if isinstance(v, qp.qchem.Molecule):
        return "molecule"
    if isinstance(v, qp.operation.Operator):
        return "operator"
    if isinstance(v, qp.measurements.MeasurementProcess):
        return "measurement"
    if isinstance(v, qp.tape.QuantumScript):
        return "tape"
    return type(v).__name__


def has_dataset(v):
    if isinstance(v, DSModel):
        return True
    if type(v) in (list, tuple):
        return any(has_dataset(x) for x in v)
    if type(v) is dict:
        return any(has_dataset(x) for x in v.values())
    return False


# ------------------------------------------------------------------------------------------------ descriptions (labelled trees)
def _label_type(w):
    if isinstance(w, (bool, np.bool_)):
        return "bool", bool(w)
    if isinstance(w, (int, np.integer)):
        return "int", int(w)
    if isinstance(w, (float, np.floating)):
        return "float", float(w)
    if isinstance(w, str):
        return "str", str(w)
    return type(w).__name__, repr(w)


def wires_desc(wires):
    return ("wires",) + tuple(("w",) + _label_type(w) for w in wires)


_CANON = {"b": np.bool_, "i": np.int64, "u": np.uint64, "f": np.float64, "c": np.complex128}


def num_desc(x, strict_kind=True, label="p"):
    """Exact description of a numeric parameter: kind, shape, value bits (after exact widening), requires_grad."""
    try:
        a = np.asarray(x)
    except Exception:  # noqa: BLE001
        return (label, ("repr", repr(x)[:80]))
    k = a.dtype.kind
    if k not in _CANON:
        return (label, ("kind", k), ("shape", a.shape), ("value", repr(a.tolist())[:200]))
    if strict_kind:
        kk = "i" if k == "u" and (a.size == 0 or a.max() < 2**63) else k
        val = a.astype(_CANON[kk]).tobytes()
    else:
        kk = "*"
        val = a.astype(np.complex128).tobytes()
    rg = getattr(x, "requires_grad", None)
    return (label, ("kind", kk), ("shape", tuple(a.shape)), ("value", val), ("requires_grad", None if rg is None else bool(rg)))


def hyper_norm(v, depth=0):
    qp = qp_()
    if depth > 10:
        return ("deep",)
    if v is None or isinstance(v, str):
        return ("const", v)
    if isinstance(v, qp.operation.Operator):
        return op_desc(v, depth + 1)
    if isinstance(v, qp.measurements.MeasurementProcess):
        return mp_desc(v, depth + 1)
    if isinstance(v, qp.wires.Wires):
        return wires_desc(v)
    if isinstance(v, (bool, np.bool_)):
        return ("const", ("bool", bool(v)))
    if isinstance(v, (int, np.integer)):
        return ("const", ("int", int(v)))
    if isinstance(v, (float, np.floating, complex, np.complexfloating, np.ndarray)):
        return num_desc(v, strict_kind=False, label="num")
    if isinstance(v, (list, tuple)):
        return ("seq",) + tuple(hyper_norm(x, depth + 1) for x in v)
    if isinstance(v, Mapping):
        return ("map",) + tuple(sorted(((repr(k), hyper_norm(x, depth + 1)) for k, x in v.items()), key=lambda t: t[0]))
    if isinstance(v, (set, frozenset)):
        return ("set",) + tuple(sorted(repr(x) for x in v))
    return ("object", type(v).__name__)


def op_desc(op, depth=0, strict_kind=True):
    if depth > 12:
        return ("deep",)
    parts = [("class", type(op).__module__ + "." + type(op).__qualname__), wires_desc(op.wires)]
    try:
        parts.append(("params",) + tuple(num_desc(d, strict_kind) for d in op.data))
    except Exception as e:  # noqa: BLE001
        parts.append(("params", ("error", type(e).__name__)))
    try:
        hp = dict(op.hyperparameters)
    except Exception:  # noqa: BLE001
        hp = {}
    parts.append(("hyper",) + tuple((f"hyper:{k}", hyper_norm(hp[k], depth + 1)) for k in sorted(hp, key=str)))
    sub = []
    for attr in ("operands", "ops"):
        xs = getattr(op, attr, None)
        if isinstance(xs, (list, tuple)) and xs and all(hasattr(x, "wires") for x in xs):
            sub.append((attr,) + tuple(op_desc(x, depth + 1, strict_kind) for x in xs))
            break
    base = getattr(op, "base", None)
    if base is not None and hasattr(base, "wires"):
        sub.append(("base", op_desc(base, depth + 1, strict_kind)))
    for attr in ("scalar", "z", "coeff", "control_values", "control_wires", "work_wires", "num_steps"):
        if hasattr(op, attr):
            try:
                sub.append((f"attr:{attr}", hyper_norm(getattr(op, attr), depth + 1)))
            except Exception:  # noqa: BLE001
                pass
    parts.append(("structure",) + tuple(sub))
    parts.append(("id", getattr(op, "id", None)))
    return ("operator",) + tuple(parts)


def mp_desc(mp, depth=0):
    obs = getattr(mp, "obs", None)
    ev = getattr(mp, "_eigvals", None)
    mv = getattr(mp, "mv", None)
    return ("measurement", ("class", type(mp).__qualname__), ("obs", op_desc(obs, depth + 1) if obs is not None else None),
            wires_desc(mp.wires), ("eigvals", num_desc(ev, label="num") if ev is not None else None), ("mv", None if mv is None else repr(mv)),
            ("id", getattr(mp, "id", None)))


def tape_desc(t):
    return ("tape", ("operations",) + tuple(op_desc(o) for o in t.operations), ("measurements",) + tuple(mp_desc(m) for m in t.measurements),
            ("shots", repr(t.shots)), ("trainable_params", tuple(t.trainable_params)))


def tree_diff(a, b, labels=()):
    """First difference between two labelled trees -> tuple of labels leading to it, or None if equal."""
    if isinstance(a, tuple) and isinstance(b, tuple) and a and b and isinstance(a[0], str) and a[0] == b[0]:
        lab = labels + (a[0],)
        if len(a) != len(b):
            return lab + ("count",)
        for x, y in zip(a[1:], b[1:]):
            d = tree_diff(x, y, lab)
            if d is not None:
                return d
        return None
    if isinstance(a, tuple) and isinstance(b, tuple) and a and b and isinstance(a[0], str) and isinstance(b[0], str) and a[0] != b[0]:
        return labels + ("node",)
    return None if _leaf_eq(a, b) else labels


def _leaf_eq(a, b):
    if type(a) is not type(b) and not (isinstance(a, (int, float)) and isinstance(b, (int, float)) and not isinstance(a, bool) and not isinstance(b, bool)):
        return False
    if isinstance(a, tuple):
        return len(a) == len(b) and all(_leaf_eq(x, y) for x, y in zip(a, b))
    if isinstance(a, float) and isinstance(b, float) and a != a and b != b:
        return True
    return a == b


def _wires_tag(exp, got):
    e = [_label_type(w) for w in exp]
    g = [_label_type(w) for w in got]
    if e == g:
        return None
    if [x[1] for x in e] == [x[1] for x in g] or [str(x[1]) for x in e] == [str(x[1]) for x in g]:
        return "wire-label-type"
    if sorted(map(repr, e)) == sorted(map(repr, g)):
        return "wire-order"
    return "wire-labels"


def _tag_from_labels(labels):
    """Stable 'what differs' tag from a label path."""
    labs = [x for x in labels if x not in ("operator", "structure", "hyper", "p", "num", "seq", "const", "w", "map")]
    if not labs:
        return "structure"
    last = labs[-1]
    if last in ("kind", "shape", "value", "requires_grad"):
        owner = "param" if "params" in labs else next((x for x in reversed(labs[:-1]) if x.startswith(("hyper:", "attr:"))), "param")
        return f"{owner}-{last}"
    if last == "count":
        return (labs[-2] if len(labs) > 1 else "node") + "-count"
    return last


# ------------------------------------------------------------------------------------------------ deep equality
class Diff:
    __slots__ = ("tag", "path", "detail")

    def __init__(self, tag, path, detail):
        self.tag, self.path, self.detail = tag, path, detail

    def __repr__(self):
        return f"{self.tag} at {self.path}: {self.detail}"


def _short(x, n=160):
    try:
        s = repr(x)
    except Exception as e:  # noqa: BLE001
        s = f"<repr failed {type(e).__name__}>"
    return s.replace("\n", " ")[:n]


def _arr_equal(a, b):
    if a.shape != b.shape:
        return False
    if a.dtype.kind in "fc" and b.dtype.kind in "fc":
        return bool(np.array_equal(a, b, equal_nan=True))
    return bool(np.array_equal(a, b))


def deq(exp, got, path="", out=None, codec="default", stats=None):
    """Type-aware deep comparison of a model value with what the real code returned.  Appends Diff objects."""
    qp = qp_()
    import scipy.sparse as sp
    out = [] if out is None else out
    if len(out) > 6:
        return out
    if stats is not None:
        stats["nodes"] = stats.get("nodes", 0) + 1
    if codec == "json":
        if not _json_equal(exp, got):
            out.append(Diff("json:value", path, f"expected {_short(exp)} got {_short(got)}"))
        return out
    if exp is None:
        if got is not None:
            out.append(Diff("none:value", path, f"expected None got {_short(got)}"))
        return out
    if isinstance(exp, DSModel):
        if not isinstance(got, qp.data.Dataset):
            out.append(Diff("dataset:type", path, f"expected nested Dataset got {type(got).__name__}"))
            return out
        try:
            names = set(got.list_attributes())
        except Exception as e:  # noqa: BLE001
            out.append(Diff("dataset:read-raises", path, f"{type(e).__name__}: {e}"))
            return out
        if names != set(exp.attrs):
            out.append(Diff("dataset:attrs", path, f"missing {sorted(set(exp.attrs) - names)} extra {sorted(names - set(exp.attrs))}"))
            return out
        for k, e in exp.attrs.items():
            try:
                g = getattr(got, k)
            except Exception as ex:  # noqa: BLE001
                out.append(Diff("dataset:read-raises", f"{path}.{k}", f"{type(ex).__name__}: {ex}"))
                continue
            deq(e.value, g, f"{path}.{k}", out, e.codec, stats)
        return out
    if isinstance(exp, str):
        if not isinstance(got, str):
            out.append(Diff("str:type", path, f"expected str got {type(got).__name__} {_short(got)}"))
        elif got != exp:
            out.append(Diff("str:value", path, f"expected {_short(exp)} got {_short(got)}"))
        return out
    if isinstance(exp, (bool, int, float, complex, np.generic)):
        if not (isinstance(got, (bool, int, float, complex, np.generic)) or (isinstance(got, np.ndarray) and got.ndim == 0)):
            out.append(Diff("scalar:type", path, f"expected scalar {_short(exp)} got {type(got).__name__} {_short(got)}"))
            return out
        ea, ga = np.asarray(exp), np.asarray(got)
        if not _arr_equal(ea, ga):
            what = "scalar:imag" if ea.dtype.kind == "c" and np.array_equal(ea.real, ga.real, equal_nan=True) else "scalar:value"
            out.append(Diff(what, path, f"expected {_short(exp)} got {_short(got)}"))
        elif ea.dtype != ga.dtype:
            out.append(Diff("scalar:dtype", path, f"expected dtype {ea.dtype} ({_short(exp)}) got {ga.dtype} ({_short(got)})"))
        return out
    if isinstance(exp, np.ndarray):
        if not isinstance(got, np.ndarray):
            out.append(Diff("array:type", path, f"expected ndarray got {type(got).__name__} {_short(got)}"))
            return out
        tensor = qp.numpy.tensor
        if isinstance(exp, tensor) != isinstance(got, tensor):
            out.append(Diff("array:interface", path, f"expected {type(exp).__name__} got {type(got).__name__}"))
        elif isinstance(exp, tensor) and bool(exp.requires_grad) != bool(got.requires_grad):
            out.append(Diff("array:requires_grad", path, f"expected requires_grad={exp.requires_grad} got {got.requires_grad}"))
        ea, ga = np.asarray(exp), np.asarray(got)
        if ea.shape != ga.shape:
            out.append(Diff("array:shape", path, f"expected shape {ea.shape} got {ga.shape}"))
        elif ea.dtype != ga.dtype:
            out.append(Diff("array:dtype", path, f"expected dtype {ea.dtype!r} got {ga.dtype!r}"))
        elif not _arr_equal(ea, ga):
            out.append(Diff("array:values", path, f"expected {_short(ea.tolist())} got {_short(ga.tolist())}"))
        return out
    if sp.issparse(exp):
        if not sp.issparse(got):
            out.append(Diff("sparse:type", path, f"expected sparse got {type(got).__name__}"))
            return out
        if type(got) is not type(exp):
            out.append(Diff("sparse:format", path, f"expected {type(exp).__name__} got {type(got).__name__}"))
        if tuple(got.shape) != tuple(exp.shape):
            out.append(Diff("sparse:shape", path, f"expected {exp.shape} got {got.shape}"))
            return out
        if got.dtype != exp.dtype:
            out.append(Diff("sparse:dtype", path, f"expected {exp.dtype} got {got.dtype}"))
        if not _arr_equal(np.asarray(exp.toarray()), np.asarray(got.toarray())):
            out.append(Diff("sparse:values", path, f"expected {_short(exp.toarray().tolist())} got {_short(got.toarray().tolist())}"))
        return out
    if isinstance(exp, tuple):
        if not isinstance(got, tuple):
            out.append(Diff("tuple:type", path, f"expected tuple got {type(got).__name__} {_short(got)}"))
            if not isinstance(got, Sequence) or isinstance(got, str):
                return out
        return _seq(exp, got, path, out, "tuple", stats)
    if isinstance(exp, list):
        if not isinstance(got, Sequence) or isinstance(got, (str, bytes, tuple)):
            out.append(Diff("list:type", path, f"expected list-like got {type(got).__name__} {_short(got)}"))
            if not isinstance(got, tuple):
                return out
        return _seq(exp, got, path, out, "list", stats)
    if isinstance(exp, dict):
        if not isinstance(got, Mapping):
            out.append(Diff("dict:type", path, f"expected mapping got {type(got).__name__} {_short(got)}"))
            return out
        try:
            gk = list(got.keys())
        except Exception as e:  # noqa: BLE001
            out.append(Diff("dict:read-raises", path, f"{type(e).__name__}: {e}"))
            return out
        if set(gk) != set(exp) or len(gk) != len(exp):
            out.append(Diff("dict:keys", path, f"missing {sorted(set(exp) - set(gk))} extra {sorted(set(gk) - set(exp))} (n={len(gk)} vs {len(exp)})"))
            return out
        for k, v in exp.items():
            try:
                g = got[k]
            except Exception as e:  # noqa: BLE001
                out.append(Diff("dict:read-raises", f"{path}[{k!r}]", f"{type(e).__name__}: {e}"))
                continue
            deq(v, g, f"{path}[{k!r}]", out, "default", stats)
        return out
    if isinstance(exp, qp.qchem.Molecule):
        return _molecule(exp, got, path, out, stats)
    if isinstance(exp, qp.operation.Operator):
        return _operator(exp, got, path, out, codec)
    if isinstance(exp, qp.measurements.MeasurementProcess):
        if not isinstance(got, qp.measurements.MeasurementProcess):
            out.append(Diff("measurement:type", path, f"got {type(got).__name__}"))
            return out
        d = tree_diff(mp_desc(exp), mp_desc(got))
        if d is not None:
            out.append(Diff("measurement:" + _tag_from_labels(d), path, f"expected {_short(exp)} got {_short(got)} (differs at {'/'.join(d)})"))
        return out
    if isinstance(exp, qp.tape.QuantumScript):
        if not isinstance(got, qp.tape.QuantumScript):
            out.append(Diff("tape:type", path, f"got {type(got).__name__}"))
            return out
        d = tree_diff(tape_desc(exp), tape_desc(got))
        if d is not None:
            out.append(Diff("tape:" + _tag_from_labels(d), path, f"expected {_short(list(exp))} got {_short(list(got))} (differs at {'/'.join(d)})"))
        return out
    out.append(Diff("harness:unknown-model-type", path, type(exp).__name__))
    return out


def _seq(exp, got, path, out, what, stats):
    try:
        n = len(got)
    except Exception as e:  # noqa: BLE001
        out.append(Diff(f"{what}:read-raises", path, f"len: {type(e).__name__}: {e}"))
        return out
    if n != len(exp):
        out.append(Diff(f"{what}:len", path, f"expected {len(exp)} items got {n}: {_short(got)}"))
        return out
    for i, v in enumerate(exp):
        try:
            g = got[i]
        except Exception as e:  # noqa: BLE001
            out.append(Diff(f"{what}:read-raises", f"{path}[{i}]", f"{type(e).__name__}: {e}"))
            continue
        deq(v, g, f"{path}[{i}]", out, "default", stats)
    return out


def _json_equal(a, b):
    if type(a) is not type(b):
        return False
    if isinstance(a, list):
        return len(a) == len(b) and all(_json_equal(x, y) for x, y in zip(a, b))
    if isinstance(a, dict):
        return set(a) == set(b) and all(_json_equal(a[k], b[k]) for k in a)
    if isinstance(a, float) and a != a:
        return b != b
    return a == b


MOL_FIELDS = ["symbols", "coordinates", "charge", "mult", "basis_name", "l", "alpha", "coeff", "n_electrons", "nuclear_charges", "n_orbitals", "n_basis", "r"]


def _molecule(exp, got, path, out, stats):
    qp = qp_()
    if not isinstance(got, qp.qchem.Molecule):
        out.append(Diff("molecule:type", path, f"got {type(got).__name__}"))
        return out
    for f in MOL_FIELDS:
        a, b = getattr(exp, f), getattr(got, f)
        sub = []
        _mol_field(a, b, sub)
        if sub:
            out.append(Diff(f"molecule:{f}", f"{path}.{f}", sub[0]))
    if getattr(exp, "name", None) != getattr(got, "name", None):
        out.append(Diff("molecule:name", f"{path}.name", f"expected name {exp.name!r} got {got.name!r}"))
    return out


def _mol_field(a, b, sub):
    """By-value comparison of a Molecule field (lists of arrays / tuples / scalars; tensors keep requires_grad)."""
    if isinstance(a, str) or isinstance(b, str):
        if a != b:
            sub.append(f"expected {a!r} got {b!r}")
        return
    if isinstance(a, (list, tuple)) and not isinstance(a, np.ndarray):
        try:
            if len(a) != len(b):
                sub.append(f"expected {len(a)} items got {len(b)}")
                return
        except TypeError:
            sub.append(f"expected sequence got {_short(b)}")
            return
        for x, y in zip(a, b):
            _mol_field(x, y, sub)
            if sub:
                return
        return
    try:
        ea, ga = np.asarray(a), np.asarray(b)
    except Exception as e:  # noqa: BLE001
        sub.append(f"not array-like: {e}")
        return
    if ea.shape != ga.shape or ea.dtype.kind != ga.dtype.kind or not _arr_equal(ea, ga):
        sub.append(f"expected {_short(ea.tolist())} ({ea.dtype}) got {_short(ga.tolist())} ({ga.dtype})")
        return
    ra, rb = getattr(a, "requires_grad", None), getattr(b, "requires_grad", None)
    if ra is not None and rb is not None and bool(ra) != bool(rb):
        sub.append(f"requires_grad expected {ra} got {rb}")


COMPOSITE = ("Sum", "Prod", "SProd", "LinearCombination")


def op_numeric(op, wire_order=None):
    """Numerical content of an operator (same PennyLane routine on both sides: a differential, not a reference)."""
    qp = qp_()
    wo = list(op.wires) if wire_order is None else list(wire_order)
    if len(wo) > 5:
        return None
    name = type(op).__name__
    try:
        if name in ("StatePrep", "BasisState"):
            return ("state", np.asarray(op.state_vector(wire_order=wo)))
        if isinstance(op, qp.operation.Channel):
            return ("kraus", np.stack([np.asarray(k) for k in op.kraus_matrices()]))
        if op.has_matrix:
            return ("matrix", np.asarray(qp.matrix(op, wire_order=wo) if wo else op.matrix()))
        if name == "QubitDensityMatrix":
            return ("data", np.asarray(op.data[0]))
    except Exception:  # noqa: BLE001 - matrix not computable for this instance: structural comparison only
        return None
    return None


def _low_precision(op):
    """True if a parameter is stored in less than double precision: the pytree codec documents that leaves of one kind may be widened
    losslessly when stacked (float32 -> float64), after which the *matrix* is computed in another precision; values are still compared exactly."""
    try:
        return any(np.asarray(d).dtype.kind in "fc" and np.asarray(d).dtype.itemsize < (8 if np.asarray(d).dtype.kind == "f" else 16) for d in op.data)
    except Exception:  # noqa: BLE001
        return True


def _operator(exp, got, path, out, codec):
    qp = qp_()
    if not isinstance(got, qp.operation.Operator):
        out.append(Diff("operator:type", path, f"expected operator {_short(exp)} got {type(got).__name__} {_short(got)}"))
        return out
    legacy = codec == "operator"
    composite = type(exp).__name__ in COMPOSITE
    if legacy and composite:
        # DatasetOperator simplifies Sum/Prod/SProd before storing: demand semantic equality only (same matrix, wires within the original's)
        extra = [w for w in got.wires if w not in exp.wires]
        if extra:
            out.append(Diff("operator:wire-labels", path, f"read-back operator acts on wires {extra} not in {list(exp.wires)}"))
            return out
    else:
        wt = _wires_tag(exp.wires, got.wires)
        if type(got) is not type(exp):
            out.append(Diff("operator:class", path, f"expected {type(exp).__name__} got {type(got).__name__}: {_short(exp)} vs {_short(got)}"))
            return out
        if wt:
            out.append(Diff("operator:" + wt, path, f"expected wires {list(exp.wires)!r} got {list(got.wires)!r} ({_short(exp)})"))
            return out
        if legacy:
            d = tree_diff(("params",) + tuple(num_desc(x, False)[:4] for x in exp.data), ("params",) + tuple(num_desc(x, False)[:4] for x in got.data))
        else:
            d = tree_diff(op_desc(exp), op_desc(got))
        if d is not None:
            out.append(Diff("operator:" + _tag_from_labels(d), path, f"expected {_short(exp)} got {_short(got)} (differs at {'/'.join(d)})"))
            return out
    a = None if _low_precision(exp) else op_numeric(exp)
    if a is not None:
        b = op_numeric(got, wire_order=list(exp.wires))
        if b is None or a[0] != b[0] or a[1].shape != b[1].shape or not np.allclose(a[1], b[1], rtol=0, atol=1e-9 * max(1.0, float(np.max(np.abs(a[1]))) if a[1].size else 1.0), equal_nan=True):
            out.append(Diff("operator:matrix", path, f"{a[0]} of the read-back operator differs: {_short(exp)} vs {_short(got)}"))
    return out


# ------------------------------------------------------------------------------------------------ content keys (fingerprints / samples)
def vkey(v, depth=0):
    """Hashable-ish content description used for case fingerprints and evidence samples."""
    qp = qp_()
    import scipy.sparse as sp
    if depth > 8:
        return "deep"
    if isinstance(v, DSModel):
        return ("dataset", tuple((k, vkey(e.value, depth + 1)) for k, e in sorted(v.attrs.items())))
    if type(v) in (list, tuple):
        return (type(v).__name__, tuple(vkey(x, depth + 1) for x in v))
    if type(v) is dict:
        return ("dict", tuple((k, vkey(x, depth + 1)) for k, x in sorted(v.items())))
    if isinstance(v, np.ndarray):
        return ("array", str(v.dtype), v.shape, np.ascontiguousarray(v).tobytes()[:256], getattr(v, "requires_grad", None))
    if sp.issparse(v):
        return ("sparse", type(v).__name__, str(v.dtype), v.shape, np.asarray(v.toarray()).tobytes()[:256])
    if isinstance(v, qp.operation.Operator):
        return op_desc(v)
    if isinstance(v, qp.measurements.MeasurementProcess):
        return mp_desc(v)
    if isinstance(v, qp.tape.QuantumScript):
        return tape_desc(v)
    if isinstance(v, qp.qchem.Molecule):
        return ("molecule", tuple(v.symbols), np.asarray(v.coordinates).tobytes(), v.basis_name, v.charge, v.mult, v.name)
    return (type(v).__name__, repr(v))


def shape_str(v, depth=0):
    """Short human-readable type tree for evidence samples."""
    k = kind_of(v)
    if depth > 3:
        return k
    if k == "dataset":
        return "Dataset{" + ",".join(f"{n}:{shape_str(e.value, depth + 1)}" for n, e in list(v.attrs.items())[:4]) + "}"
    if k in ("list", "tuple"):
        br = "[]" if k == "list" else "()"
        return br[0] + ",".join(shape_str(x, depth + 1) for x in v[:5]) + (",…" if len(v) > 5 else "") + br[1]
    if k == "dict":
        return "{" + ",".join(f"{kk!r}:{shape_str(x, depth + 1)}" for kk, x in list(v.items())[:4]) + "}"
    if k == "array":
        return f"{type(v).__name__}({v.dtype},{v.shape})"
    if k == "sparse":
        return f"{type(v).__name__}({v.dtype},{v.shape})"
    if k in ("operator", "measurement"):
        return type(v).__name__
    if k == "scalar":
        return type(v).__name__
    return k
