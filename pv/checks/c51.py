"""C51 — Pauli algebra agrees with matrix algebra.

Post-conditions on the real ``PauliWord`` / ``PauliSentence`` dunders and methods, ``qp.pauli.pauli_sentence``,
``qp.pauli_decompose`` and a few ``pauli/utils`` converters.  The oracle (pv/ref/c51_pauli.py) keeps every sentence as a
plain list of (coefficient, {wire: letter}) and evaluates it as a dense sum of kron products; the result of every real
operation is converted with the real ``to_mat`` on a random superset wire order and compared with the same operation
done on the dense matrices by numpy.
"""
import numpy as np

from pv.ctx import fingerprint

META = {
    "id": "C51",
    "level": "exploration",
    "technique": "runtime post-conditions on PauliWord/PauliSentence arithmetic, matrix builders (dense/sparse, wire orders, buffer sizes), "
                 "operator exports and pauli_decompose / pauli_sentence round trips; reference-model differential against dense numpy kron "
                 "algebra on plain-data sentences",
    "level_text": "Random Pauli sentences (1–40 words, complex/real/int/numpy coefficients, zero and cancelling terms, identity word, empty "
                  "sentence, many words sharing one X/Y support) on <= 6 random wire labels with permuted superset wire orders; every operation "
                  "named in the statement is exercised per case. Held on the cases observed.",
    "level_note": "The results of arithmetic are read back through the real dense to_mat, which is itself compared with the kron reference in the "
                  "same case (and with the sparse builder), so an error in to_mat cannot mask an arithmetic error unless both coincide. "
                  "PauliSentence has no hamiltonian() export on this tree (only operation()); LinearCombination inputs to pauli_sentence are covered.",
    "shards": {"quick": 2, "thorough": 8},
    "budget_s": {"quick": 50, "thorough": 220},
    "min_evals": {"quick": 5000, "thorough": 100000},
    "deciding": ["pauli.to_mat", "pauli.arith", "pauli.commutator", "pauli.operation", "pauli.sentence_roundtrip", "pauli.decompose_roundtrip"],
    "rule": "case = two random sentences + wire order; distinct = distinct (terms, wire order); non-trivial = both sentences non-empty, at least "
            "3 words in total and the two sentences share a wire",
    "assumptions": ["numpy kron/matmul are correct"],
}


def run(ctx):
    import copy
    import warnings

    import pennylane as qp
    import scipy.sparse as sps
    from pennylane.pauli import PauliSentence, PauliWord

    from pv.gen import num
    from pv.ref import c51_pauli as R

    ctx.budget_s += ctx.elapsed()  # the soft budget counts work, not the (load-dependent) import of pennylane
    warnings.filterwarnings("ignore")
    rng = ctx.rng
    OPS = {"X": qp.X, "Y": qp.Y, "Z": qp.Z, "I": qp.Identity}

    # ------------------------------------------------------------------ generators
    def coeff():
        r = rng.random()
        if r < 0.08:
            return 0.0
        if r < 0.16:
            return int(rng.integers(-3, 4))
        if r < 0.4:
            return float(np.round(rng.normal(), 3))
        if r < 0.5:
            return np.float64(rng.normal())
        if r < 0.6:
            return np.complex128(complex(rng.normal(), rng.normal()))
        if r < 0.65:
            return 1.0
        return complex(np.round(rng.normal(), 3), np.round(rng.normal(), 3))

    def rand_word(pool, p_id=0.4):
        return {w: str(rng.choice(list("XYZ"))) for w in pool if rng.random() > p_id}

    def rand_terms(pool, small=False):
        mode = rng.random()
        if mode < 0.04:
            return []
        r = rng.random()
        nwords = int(rng.integers(1, 5)) if (r < 0.7 or small) else (int(rng.integers(5, 13)) if r < 0.9 else int(rng.integers(13, 41)))
        if small and r > 0.8:
            nwords = int(rng.integers(4, 8))
        terms = []
        if mode < 0.4:  # structure sharing: a few fixed X/Y supports, vary X<->Y and Z/I elsewhere (the sparse builder batches by support)
            supports = [{w for w in pool if rng.random() < 0.5} for _ in range(int(rng.integers(1, 4)))]
            for _ in range(nwords):
                s = supports[int(rng.integers(len(supports)))]
                word = {}
                for w in pool:
                    if w in s:
                        word[w] = "XY"[int(rng.integers(2))]
                    elif rng.random() < 0.5:
                        word[w] = "Z"
                terms.append((coeff(), word))
        else:
            for _ in range(nwords):
                terms.append((coeff(), rand_word(pool)))
        if rng.random() < 0.25:
            terms.append((coeff(), {}))  # identity word
        if rng.random() < 0.15 and terms:  # exactly cancelling pair
            c, w = terms[int(rng.integers(len(terms)))]
            terms.append((-c, dict(w)))
        return terms

    def real_ps(terms):
        d = {}
        for c, w in terms:
            k = PauliWord(dict(w))
            d[k] = d[k] + c if k in d else c
        return PauliSentence(d)

    def tol(ref):
        return 1e-9 * max(1.0, float(np.linalg.norm(ref)))

    def dense(x):
        return np.asarray(x.toarray() if sps.issparse(x) else x, dtype=complex)

    def cmp(mon, variant, got, ref, case, count=True):
        if count:
            ctx.ev(mon)
        got = dense(got)
        if got.shape != ref.shape:
            ctx.violation(mon, f"{variant}: shape {got.shape}, expected {ref.shape}", case={**case, "variant": variant}, mech=f"{mon}:{variant}:shape")
            return False
        err = float(np.linalg.norm(got - ref))
        if not err < tol(ref):
            ctx.violation(mon, f"{variant}: differs from dense matrix algebra by {err:.3e}", case={**case, "variant": variant}, mech=f"{mon}:{variant}",
                          observed=got, expected=ref)
            return False
        return True

    def guard(mon, variant, case, fn, zero_input=False):
        """run fn(); an exception from the real code on an admitted input is a violation candidate"""
        try:
            return fn()
        except Exception as e:  # noqa: BLE001
            ctx.ev(mon)
            mech = f"{mon}:zero-matrix:raise" if zero_input else f"{mon}:{variant}:raise:{type(e).__name__}"
            ctx.violation(mon, f"{variant}: raised {type(e).__name__}: {e}", case={**case, "variant": variant}, mech=mech)
            return None

    def jterms(terms):
        return [[complex(c), {str(k): v for k, v in w.items()}] for c, w in terms[:12]]

    # ------------------------------------------------------------------ main loop
    ncases = ctx.n(2200, 160000)
    for i in range(ncases):
        if not ctx.more():
            break
        ctx.case_index = i
        npool = int(rng.integers(1, 7)) if rng.random() < 0.8 else int(rng.integers(1, 4))
        pool = num.wire_labels(rng, npool)
        extra = ["_e0", "_e1"][: int(rng.integers(0, 3))] if npool <= 5 else []
        W = list(pool) + extra
        W = [W[int(k)] for k in rng.permutation(len(W))]
        sub = [w for w in pool if rng.random() < 0.7] or pool[:1]
        tA, tB = rand_terms(pool), rand_terms(sub, small=True)
        A, B = real_ps(tA), real_ps(tB)
        MA, MB = R.sentence_matrix(tA, W), R.sentence_matrix(tB, W)
        d = 2 ** len(W)
        case = {"A": jterms(tA), "B": jterms(tB), "nA": len(tA), "nB": len(tB), "wire_order": [str(w) for w in W]}
        sharedw = {w for _, x in tA for w in x} & {w for _, x in tB for w in x}
        ctx.case(fingerprint([(complex(c), sorted(w.items(), key=str)) for c, w in tA + tB], W), bool(tA and tB and len(tA) + len(tB) >= 3 and sharedw),
                 cls=f"nwires={len(W)}", sample=case)
        snapA, snapB = dict(A), dict(B)

        # ---- 1. matrices: dense, sparse formats, buffer sizes, default wire order
        ok = True
        g = guard("pauli.to_mat", "dense", case, lambda: A.to_mat(wire_order=W))
        ok &= g is not None and cmp("pauli.to_mat", "dense", g, MA, case)
        fmt = ["csr", "csc", "coo"][int(rng.integers(3))]
        # (the default buffer, 1 GB, makes the builder allocate two ~1 GB scratch arrays per call — seconds per call for 7 wires — so the
        #  default is exercised only on <= 4 wires)
        bs = [1, 24 * d, 24 * d * 2 + 5, 24 * d * 3, 24 * d * 7, 2**20][int(rng.integers(6))] if (i % 12 or d > 16) else None
        g = guard("pauli.to_mat", f"sparse", case, lambda: A.to_mat(wire_order=W, format=fmt, buffer_size=bs))
        if g is not None:
            ctx.ev("pauli.to_mat")
            if not sps.issparse(g):
                ctx.violation("pauli.to_mat", f"format={fmt} did not return a sparse matrix", case=case, mech="pauli.to_mat:sparse:type")
            else:
                cmp("pauli.to_mat", "sparse", g, MA, {**case, "format": fmt, "buffer_size": bs}, count=False)
        g = guard("pauli.to_mat", "dense", case, lambda: B.to_mat(wire_order=W))
        ok &= g is not None and cmp("pauli.to_mat", "dense", g, MB, case)
        if i % 4 == 0:  # default wire order = the sentence's own wires
            own = list(A.wires)
            g = guard("pauli.to_mat", "default-order", case, lambda: A.to_mat())
            if g is not None:
                cmp("pauli.to_mat", "default-order", g, R.sentence_matrix(tA, own), {**case, "own_wires": [str(w) for w in own]})
            g = guard("pauli.to_mat", "default-order-sparse", case, lambda: A.to_mat(format="csr", buffer_size=2**16))
            if g is not None:
                cmp("pauli.to_mat", "default-order-sparse", g, R.sentence_matrix(tA, own), {**case, "own_wires": [str(w) for w in own]})
        if not ok:
            continue  # arithmetic results are read through the dense builder: do not pile follow-up alarms on a broken builder

        # ---- 2. single words: to_mat with coeff / formats, identity word
        if tA:
            c0, w0 = tA[int(rng.integers(len(tA)))]
            pw = PauliWord(dict(w0))
            cf = complex(np.round(rng.normal(), 3), np.round(rng.normal(), 3)) if rng.random() < 0.5 else 1.0
            g = guard("pauli.to_mat", "word-dense", case, lambda: pw.to_mat(wire_order=W, coeff=cf))
            if g is not None:
                cmp("pauli.to_mat", "word-dense", g, cf * R.word_matrix(w0, W), {**case, "word": {str(k): v for k, v in w0.items()}, "coeff": cf})
            g = guard("pauli.to_mat", "word-sparse", case, lambda: pw.to_mat(wire_order=W, format="csr", coeff=cf))
            if g is not None:
                cmp("pauli.to_mat", "word-sparse", g, cf * R.word_matrix(w0, W), {**case, "word": {str(k): v for k, v in w0.items()}, "coeff": cf})
        if i % 16 == 0:
            g = guard("pauli.to_mat", "identity-word", case, lambda: PauliWord({}).to_mat(wire_order=W, format=["dense", "csr"][int(rng.integers(2))], coeff=2.5))
            if g is not None:
                cmp("pauli.to_mat", "identity-word", g, 2.5 * np.eye(d), case)
            g = guard("pauli.to_mat", "empty-sentence", case, lambda: PauliSentence({}).to_mat(wire_order=W, format=["dense", "csr"][int(rng.integers(2))], buffer_size=2**16))
            if g is not None:
                cmp("pauli.to_mat", "empty-sentence", g, np.zeros((d, d)), case)

        # ---- 3. sentence arithmetic
        s = coeff()
        if s == 0 or abs(s) < 1e-3:
            s = 1.5 - 0.5j
        arith = [
            ("ps@ps", lambda: A @ B, MA @ MB), ("ps+ps", lambda: A + B, MA + MB), ("ps-ps", lambda: A - B, MA - MB),
            ("s*ps", lambda: s * A, s * MA), ("ps*s", lambda: A * s, s * MA), ("ps/s", lambda: A / s, MA / s),
            ("ps+s", lambda: A + s, MA + s * np.eye(d)), ("s+ps", lambda: s + A, MA + s * np.eye(d)), ("s-ps", lambda: s - A, s * np.eye(d) - MA),
            ("ps-s", lambda: A - s, MA - s * np.eye(d)), ("np.array(s)*ps", lambda: np.array(s) * A, s * MA),
        ]
        for k_ in rng.choice(len(arith), size=6, replace=False):
            variant, fn, ref = arith[int(k_)]
            r = guard("pauli.arith", variant, case, fn)
            if r is None:
                continue
            if not isinstance(r, PauliSentence):
                ctx.ev("pauli.arith")
                ctx.violation("pauli.arith", f"{variant}: returned {type(r).__name__}", case=case, mech=f"pauli.arith:{variant}:type")
                continue
            g = guard("pauli.arith", variant + ":to_mat", case, lambda r=r: r.to_mat(wire_order=W))
            if g is not None:
                cmp("pauli.arith", variant, g, ref, {**case, "scalar": s})
        # in-place addition on a copy
        Cp = copy.copy(A)
        Cp += B
        g = guard("pauli.arith", "ps+=ps", case, lambda: Cp.to_mat(wire_order=W))
        if g is not None:
            cmp("pauli.arith", "ps+=ps", g, MA + MB, case)
        # word-level dunders
        if tA and tB:
            (ca, wa), (cb, wb) = tA[int(rng.integers(len(tA)))], tB[int(rng.integers(len(tB)))]
            pa, pb = PauliWord(dict(wa)), PauliWord(dict(wb))
            Ma, Mb = R.word_matrix(wa, W), R.word_matrix(wb, W)
            wcase = {**case, "wa": {str(k): v for k, v in wa.items()}, "wb": {str(k): v for k, v in wb.items()}}
            wl = [("pw@pw", lambda: pa @ pb, Ma @ Mb), ("pw@ps", lambda: pa @ B, Ma @ MB), ("ps@pw", lambda: A @ pb, MA @ Mb),
                  ("pw+pw", lambda: pa + pb, Ma + Mb), ("pw-pw", lambda: pa - pb, Ma - Mb), ("pw*s", lambda: pa * s, s * Ma), ("s*pw", lambda: s * pa, s * Ma),
                  ("pw/s", lambda: pa / s, Ma / s), ("pw+s", lambda: pa + s, Ma + s * np.eye(d)), ("s-pw", lambda: s - pa, s * np.eye(d) - Ma),
                  ("pw+ps", lambda: pa + B, Ma + MB), ("ps+pw", lambda: A + pb, MA + Mb), ("ps-pw", lambda: A - pb, MA - Mb), ("pw-ps", lambda: pa - B, Ma - MB)]
            for k_ in rng.choice(len(wl), size=5, replace=False):
                variant, fn, ref = wl[int(k_)]
                r = guard("pauli.arith", variant, wcase, fn)
                if r is None:
                    continue
                g = guard("pauli.arith", variant + ":to_mat", wcase, lambda r=r: r.to_mat(wire_order=W))
                if g is not None:
                    cmp("pauli.arith", variant, g, ref, {**wcase, "scalar": s})
            # _matmul (word, phase)
            r = guard("pauli.arith", "pw._matmul", wcase, lambda: pa._matmul(pb))
            if r is not None:
                nw, ph = r
                cmp("pauli.arith", "pw._matmul", complex(ph) * dense(nw.to_mat(wire_order=W)), Ma @ Mb, wcase)
            # commutes_with / commutators
            ctx.ev("pauli.commutator")
            cw = guard("pauli.commutator", "commutes_with", wcase, lambda: pa.commutes_with(pb))
            dense_comm = np.linalg.norm(Ma @ Mb - Mb @ Ma) < 1e-12
            if cw is not None and (bool(cw) != bool(dense_comm) or bool(cw) != R.commute(wa, wb)):
                ctx.violation("pauli.commutator", f"commutes_with = {cw}, dense matrices commute: {bool(dense_comm)}", case=wcase, mech="pauli.commutator:commutes_with")
            comm = [("pw.comm(pw)", lambda: pa.commutator(pb), Ma @ Mb - Mb @ Ma), ("pw.comm(ps)", lambda: pa.commutator(B), Ma @ MB - MB @ Ma),
                    ("ps.comm(pw)", lambda: A.commutator(pb), MA @ Mb - Mb @ MA)]
        else:
            comm = []
            wcase = case
        comm.append(("ps.comm(ps)", lambda: A.commutator(B), MA @ MB - MB @ MA))
        if i % 3 == 0 and tB:
            comm.append(("ps.comm(op)", lambda: A.commutator(B.operation()), MA @ MB - MB @ MA))
            if tA:
                comm.append(("qp.commutator(pauli=True)", lambda: qp.commutator(A.operation(), B.operation(), pauli=True), MA @ MB - MB @ MA))
                comm.append(("qp.commutator(ps,ps)", lambda: qp.commutator(A, B, pauli=True), MA @ MB - MB @ MA))
        for variant, fn, ref in comm:
            r = guard("pauli.commutator", variant, wcase, fn)
            if r is None:
                continue
            if not isinstance(r, PauliSentence):
                ctx.ev("pauli.commutator")
                ctx.violation("pauli.commutator", f"{variant}: returned {type(r).__name__}", case=wcase, mech=f"pauli.commutator:{variant}:type")
                continue
            g = guard("pauli.commutator", variant + ":to_mat", wcase, lambda r=r: r.to_mat(wire_order=W))
            if g is not None:
                cmp("pauli.commutator", variant, g, ref, wcase)

        # ---- 4. trace, dot
        ctx.ev("pauli.trace")
        tr = guard("pauli.trace", "trace", case, lambda: A.trace())
        if tr is not None and not abs(complex(tr) - np.trace(MA) / d) < 1e-9 * max(1, abs(np.trace(MA) / d)):
            ctx.violation("pauli.trace", f"trace() = {tr}, tr(M)/2^n = {np.trace(MA) / d}", case=case, mech="pauli.trace")
        if tA:
            nb = int(rng.integers(1, 4))
            v = rng.normal(size=(nb, d)) + 1j * rng.normal(size=(nb, d))
            vv = v[0] if nb == 1 and rng.random() < 0.5 else v
            g = guard("pauli.dot", "dot", case, lambda: A.dot(vv, wire_order=W))
            if g is not None:
                ctx.ev("pauli.dot")
                ref = (MA @ v.T).T if vv.ndim == 2 else MA @ vv
                got = np.asarray(g)
                if got.size != ref.size or not np.linalg.norm(got.reshape(ref.shape) - ref) < tol(ref):
                    ctx.violation("pauli.dot", "dot(vector) differs from M @ v", case={**case, "batch": nb}, mech="pauli.dot", observed=got, expected=ref)

        # ---- 5. operator exports and round trips
        wo = W if rng.random() < 0.5 else None
        opA = guard("pauli.operation", "operation()", case, lambda: A.operation(wire_order=wo) if wo is not None else A.operation())
        if opA is not None:
            g = guard("pauli.operation", "qp.matrix(operation())", case, lambda: qp.matrix(opA, wire_order=W))
            if g is not None:
                cmp("pauli.operation", "operation()", g, MA, {**case, "operation": repr(opA)[:200]})
            pr = opA.pauli_rep
            ctx.ev("pauli.sentence_roundtrip")
            rt = guard("pauli.sentence_roundtrip", "pauli_sentence(operation())", case, lambda: qp.pauli.pauli_sentence(opA))
            if rt is not None:
                g = guard("pauli.sentence_roundtrip", "to_mat", case, lambda: rt.to_mat(wire_order=W))
                if g is not None:
                    cmp("pauli.sentence_roundtrip", "pauli_sentence(operation())", g, MA, case, count=False)
                # dictionary-level round trip (up to zero-coefficient terms)
                nz = {k: v for k, v in A.items() if abs(v) > 0}
                nzr = {k: v for k, v in rt.items() if abs(v) > 0}
                if set(nz) != set(nzr) or any(abs(nz[k] - nzr[k]) > 1e-9 * max(1, abs(nz[k])) for k in nz):
                    ctx.violation("pauli.sentence_roundtrip", "pauli_sentence(ps.operation()) != ps", case={**case, "got": repr(rt)[:300]},
                                  mech="pauli.sentence_roundtrip:dict")
            if pr is not None and i % 2 == 0:
                g = guard("pauli.operation", "operation().pauli_rep", case, lambda: pr.to_mat(wire_order=W))
                if g is not None:
                    cmp("pauli.operation", "operation().pauli_rep", g, MA, case)
        if tA:
            c0, w0 = tA[0]
            pw = PauliWord(dict(w0))
            opw = guard("pauli.operation", "word.operation()", case, lambda: pw.operation(wire_order=W if rng.random() < 0.5 else ()))
            if opw is not None:
                g = guard("pauli.operation", "qp.matrix(word.operation())", case, lambda: qp.matrix(opw, wire_order=W))
                if g is not None:
                    cmp("pauli.operation", "word.operation()", g, R.word_matrix(w0, W), case)

        # ---- 6. pauli_sentence of operator arithmetic built *without* a sentence (dispatch + pauli_rep paths)
        if i % 2 == 0 and tB:
            def word_op(word, force_id=False):
                facs = [OPS[c](w) for w, c in word.items()]
                if force_id or not facs:
                    facs.append(qp.Identity(sub[int(rng.integers(len(sub)))]))
                facs = [facs[int(k)] for k in rng.permutation(len(facs))] if len({f.wires[0] for f in facs}) == len(facs) else facs
                if len(facs) == 1:
                    return facs[0]
                if rng.random() < 0.5:
                    return qp.prod(*facs)
                o = facs[0]
                for f in facs[1:]:
                    o = o @ f
                return o

            sel = tB[:6]
            form = int(rng.integers(4))
            try:
                if form == 0:
                    op = qp.sum(*[qp.s_prod(c, word_op(w)) for c, w in sel]) if len(sel) > 1 else qp.s_prod(sel[0][0], word_op(sel[0][1]))
                    Mref = R.sentence_matrix(sel, W)
                elif form == 1:
                    op = qp.Hamiltonian([c for c, _ in sel], [word_op(w) for _, w in sel])
                    Mref = R.sentence_matrix(sel, W)
                elif form == 2:  # product of two sums (non-commuting factors on shared wires)
                    h = max(1, len(sel) // 2)
                    s1, s2 = sel[:h], sel[h:] or sel[:1]
                    mk = lambda ts: qp.sum(*[qp.s_prod(c, word_op(w)) for c, w in ts]) if len(ts) > 1 else qp.s_prod(ts[0][0], word_op(ts[0][1]))  # noqa: E731
                    op = qp.prod(mk(s1), mk(s2))
                    Mref = R.sentence_matrix(s1, W) @ R.sentence_matrix(s2, W)
                else:  # scalar times product of words with overlapping wires
                    (c1, w1), (c2, w2) = sel[0], sel[-1]
                    op = qp.s_prod(s, qp.prod(word_op(w1, True), word_op(w2)))
                    Mref = s * R.word_matrix(w1, W) @ R.word_matrix(w2, W)
            except Exception as e:  # noqa: BLE001
                ctx.inconclusive_case(f"operator construction failed: {type(e).__name__}: {e}")
                op = None
            if op is not None:
                ocase = {**case, "op": repr(op)[:300], "form": form}
                ctx.ev("pauli.sentence_roundtrip")
                r = guard("pauli.sentence_roundtrip", "pauli_sentence(op)", ocase, lambda: qp.pauli.pauli_sentence(op))
                if r is not None:
                    g = guard("pauli.sentence_roundtrip", "pauli_sentence(op).to_mat", ocase, lambda: r.to_mat(wire_order=W))
                    if g is not None:
                        cmp("pauli.sentence_roundtrip", "pauli_sentence(op)", g, Mref, ocase, count=False)
                from pennylane.pauli.conversion import _pauli_sentence

                ctx.ev("pauli.sentence_roundtrip")
                r = guard("pauli.sentence_roundtrip", "_pauli_sentence(op)", ocase, lambda: _pauli_sentence(op))
                if r is not None:
                    g = guard("pauli.sentence_roundtrip", "_pauli_sentence(op).to_mat", ocase, lambda: r.to_mat(wire_order=W))
                    if g is not None:
                        cmp("pauli.sentence_roundtrip", "_pauli_sentence(op)", g, Mref, ocase, count=False)

        # ---- 7. pauli_decompose round trips
        if i % 3 == 0:
            n = int(rng.integers(1, 4)) if rng.random() < 0.85 else 4
            dd = 2**n
            kind = int(rng.integers(4)) if rng.random() < 0.97 else 4
            wo_d = num.wire_labels(rng, n) if rng.random() < 0.6 else None
            order = wo_d if wo_d is not None else list(range(n))
            if kind == 0:
                Hm = rng.normal(size=(dd, dd)) + 1j * rng.normal(size=(dd, dd))
                Mx, herm = Hm + Hm.conj().T, True
            elif kind == 1:
                Mx, herm = rng.normal(size=(dd, dd)) + 1j * rng.normal(size=(dd, dd)), False
            elif kind == 2:  # sparse-ish: built from a few words
                tt = [(float(np.round(rng.normal(), 3)), rand_word(order, 0.5)) for _ in range(int(rng.integers(1, 4)))]
                Mx, herm = R.sentence_matrix(tt, order), True
            elif kind == 3:
                Mx, herm = np.diag(rng.normal(size=dd)).astype(complex), True
            else:
                Mx, herm = np.zeros((dd, dd), dtype=complex), True
            hide = bool(rng.integers(2))
            dcase = {"n": n, "kind": kind, "wire_order": [str(w) for w in order] if wo_d is not None else None, "hide_identity": hide, "hermitian": herm, "matrix": Mx}
            kw = dict(hide_identity=hide, wire_order=wo_d, check_hermitian=herm)
            inp = sps.csr_matrix(Mx) if (kind in (2, 3) and rng.random() < 0.5) else Mx
            dcase["sparse_input"] = sps.issparse(inp)
            ps = guard("pauli.decompose_roundtrip", "pauli=True", dcase, lambda: qp.pauli_decompose(inp, pauli=True, **kw), zero_input=not np.any(Mx))
            if ps is not None:
                g = guard("pauli.decompose_roundtrip", "pauli=True:to_mat", dcase, lambda: ps.to_mat(wire_order=order))
                if g is not None:
                    cmp("pauli.decompose_roundtrip", "pauli=True", g, Mx, dcase)
                # coefficients agree with Hilbert–Schmidt inner products (uniqueness of the Pauli expansion)
                if n <= 2:
                    ctx.ev("pauli.decompose_roundtrip")
                    want = R.decompose(Mx, order)
                    got = {}
                    for pwk, cv in ps.items():
                        key = tuple(pwk.get(w, "I") if w in pwk else "I" for w in order)
                        got[key] = got.get(key, 0) + complex(cv)
                    keys = set(want) | {k for k, v in got.items() if abs(v) > 1e-12}
                    if any(abs(want.get(k, 0) - got.get(k, 0)) > 1e-9 * max(1, abs(want.get(k, 0))) for k in keys):
                        ctx.violation("pauli.decompose_roundtrip", "Pauli coefficients differ from tr(P†M)/2^n", case=dcase, mech="pauli.decompose_roundtrip:coefficients",
                                      observed={"".join(k): v for k, v in got.items()}, expected={"".join(k): v for k, v in want.items()})
            Hop = guard("pauli.decompose_roundtrip", "pauli=False", dcase, lambda: qp.pauli_decompose(inp, pauli=False, **kw), zero_input=not np.any(Mx))
            if Hop is not None:
                g = guard("pauli.decompose_roundtrip", "pauli=False:qp.matrix", dcase, lambda: qp.matrix(Hop, wire_order=order))
                if g is not None:
                    cmp("pauli.decompose_roundtrip", "pauli=False", g, Mx, dcase)
            # sentence -> matrix -> decompose gives the sentence back
            if tA and len(W) <= 4:
                ps2 = guard("pauli.decompose_roundtrip", "decompose(to_mat)", case, lambda: qp.pauli_decompose(MA, pauli=True, wire_order=W, check_hermitian=False), zero_input=not np.any(MA))
                if ps2 is not None:
                    g = guard("pauli.decompose_roundtrip", "decompose(to_mat):to_mat", case, lambda: ps2.to_mat(wire_order=W))
                    if g is not None:
                        cmp("pauli.decompose_roundtrip", "decompose(to_mat)", g, MA, case)

        # ---- 8. map_wires, prune, converters
        if i % 4 == 1 and tA:
            new = num.wire_labels(rng, len(W), mode="noncontig")
            new = [f"m{x}" for x in new]
            wm = dict(zip(W, new))
            r = guard("pauli.map_wires", "map_wires", case, lambda: A.map_wires(wm))
            if r is not None:
                g = guard("pauli.map_wires", "to_mat", case, lambda: r.to_mat(wire_order=new))
                if g is not None:
                    cmp("pauli.map_wires", "map_wires", g, MA, case)
        if i % 4 == 2 and tA:
            Pp = copy.copy(A)
            thr = [1e-8, 0.3, 0.0][int(rng.integers(3))]
            ctx.ev("pauli.prune")
            if guard("pauli.prune", "prune", case, lambda: Pp.prune(tol=thr) or True):
                want = {k: v for k, v in A.items() if abs(v) > thr}
                if dict(Pp) != want:
                    ctx.violation("pauli.prune", f"prune(tol={thr}) kept/removed the wrong terms", case={**case, "tol": thr}, mech="pauli.prune")
        if i % 4 == 3 and tA:
            c0, w0 = tA[0]
            sw = R.strip(w0)
            if sw:
                opw = PauliWord(dict(sw)).operation()
                wm = {w: k for k, w in enumerate(W)}
                ctx.ev("pauli.utils")
                g = guard("pauli.utils", "pauli_word_to_matrix", case, lambda: qp.pauli.pauli_word_to_matrix(opw, wire_map=wm))
                if g is not None:
                    cmp("pauli.utils", "pauli_word_to_matrix", g, R.word_matrix(sw, W), case, count=False)
                ctx.ev("pauli.utils")
                st = guard("pauli.utils", "pauli_word_to_string", case, lambda: qp.pauli.pauli_word_to_string(opw, wire_map=wm))
                if st is not None and st != "".join(sw.get(w, "I") for w in W):
                    ctx.violation("pauli.utils", f"pauli_word_to_string = {st}", case=case, mech="pauli.utils:pauli_word_to_string")
                if st is not None:
                    back = guard("pauli.utils", "string_to_pauli_word", case, lambda: qp.pauli.string_to_pauli_word("".join(sw.get(w, "I") for w in W), wire_map=wm))
                    if back is not None:
                        ctx.ev("pauli.utils")
                        cmp("pauli.utils", "string_to_pauli_word", qp.matrix(back, wire_order=W), R.word_matrix(sw, W), case, count=False)
                bv = guard("pauli.utils", "pauli_to_binary", case, lambda: qp.pauli.pauli_to_binary(opw, n_qubits=len(W), wire_map=wm))
                if bv is not None:
                    ctx.ev("pauli.utils")
                    n_ = len(W)
                    wantv = [1 if sw.get(w) in ("X", "Y") else 0 for w in W] + [1 if sw.get(w) in ("Z", "Y") else 0 for w in W]
                    if [int(x) for x in bv] != wantv:
                        ctx.violation("pauli.utils", f"pauli_to_binary = {list(bv)}, expected {wantv}", case=case, mech="pauli.utils:pauli_to_binary")
                    back = guard("pauli.utils", "binary_to_pauli", case, lambda: qp.pauli.binary_to_pauli(np.array(wantv), wire_map=wm))
                    if back is not None:
                        ctx.ev("pauli.utils")
                        cmp("pauli.utils", "binary_to_pauli", qp.matrix(back, wire_order=W), R.word_matrix(sw, W), case, count=False)

        # ---- 9. operands were not mutated by any of the above
        ctx.ev("pauli.no_mutation")
        if dict(A) != snapA or dict(B) != snapB:
            ctx.violation("pauli.no_mutation", "an arithmetic operation mutated one of its operands", case=case, mech="pauli.no_mutation")
