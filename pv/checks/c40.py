"""C40 — Circuit parameter bookkeeping is consistent.

Deciding monitors (class-invariant style post-conditions, checked after every operation of a random history):
* ``params.views``   — par_info / get_parameters(all four flag combinations) / data / num_params / get_operation against a flat
  list model [(circuit index, parameter index, value)] the harness builds from the operators' and observables' data in order
* ``params.trainable`` — trainable_params getter/setter contract (sorted unique valid indices; documented ValueError otherwise)
* ``bind.identity`` / ``bind.exact`` — bind_new_parameters(current, all) reproduces an equal circuit; bind_new_parameters(new, idx)
  changes exactly params idx (params[i] goes to indices[i]) and nothing else, original untouched (deep fingerprint)
* ``copy.independent`` — copies (all documented forms) equal the original, keep/replace what the docstring says and do not share state
* ``wiremap.preserves`` — map_to_standard_wires keeps parameters and the trainable subset
* ``expand.trainable`` — gradient expand transforms (param_shift / hadamard) on circuits whose values carry requires_grad flags:
  perturbation provenance — every expanded parameter that moves when a trainable argument is perturbed must be marked trainable,
  and every parameter marked trainable must move under some trainable argument.
"""
import copy as pycopy
import warnings

import numpy as np

from pv.ctx import fingerprint

META = {
    "id": "C40",
    "level": "exploration",
    "technique": "runtime invariants/post-conditions on QuantumScript parameter methods vs a flat-list model over random histories; "
                 "perturbation-provenance oracle for trainability through gradient expansion",
    "level_text": "Random circuits (named gates, Rot/U3/CRot/PauliRot/MultiRZ, QubitUnitary and StatePrep array parameters, nested "
                  "adjoint/pow/ctrl/s_prod/exp wrappers, broadcast parameters; observables with parameters: Hermitian, Hamiltonian, scaled and "
                  "summed words; measurements without observables) with random trainable subsets go through histories of set-trainable / copy "
                  "(shallow, deep, with updates) / bind (all, subset, unsorted, empty, wrong length) / map_to_standard_wires; every live tape is "
                  "re-checked against its model after every step, originals against their deep fingerprint.",
    "level_note": "The flat-list model shares the documented ordering rule ('in order of appearance', operations then observables of "
                  "measurements) with the implementation - the check is a consistency differential between the six access paths and the model. "
                  "tape.copy(operations=...) documents that trainable indices are recomputed, so tape-level decompose is not asserted to keep an "
                  "explicit trainable subset; the expansion clause is checked where trainability is re-derived (gradient expand transforms) by perturbation.",
    "design_ref": "7/C40",
    "shards": {"quick": 2, "thorough": 16},
    "budget_s": {"quick": 45, "thorough": 300},
    "min_evals": {"quick": 3000, "thorough": 60000},
    "deciding": ["params.views", "params.trainable", "bind.identity", "bind.exact", "copy.independent", "wiremap.preserves", "expand.trainable"],
    "rule": "case = one history on one generated circuit; distinct = deep structural fingerprint of the circuit + operation log; non-trivial = "
            "at least 3 parameters, a proper non-empty trainable subset at some point, and at least one parameter living in an observable or a nested operator",
    "assumptions": ["'order of appearance' = operations in order, then observables of measurements in order, each contributing op.data in order"],
}


# ----------------------------------------------------------------------------- generation
def gen_tape(qp, rng, gen, num, tagger):
    """Random tape whose parameter values are unique tags (tagger() returns the next value)."""
    nw = int(rng.integers(2, 5))
    wires = num.wire_labels(rng, nw)
    pick = lambda k: [wires[int(i)] for i in rng.choice(nw, size=k, replace=False)]  # noqa: E731
    ops = []
    feats = set()
    if rng.random() < 0.15:
        v = np.zeros(2)
        v[int(rng.integers(2))] = 1.0
        ops.append(qp.StatePrep(v, wires=pick(1)))
        feats.add("array")
    for _ in range(int(rng.integers(1, 9))):
        r = int(rng.integers(20))
        t = tagger
        if r == 0:
            ops.append(qp.RX(t(), pick(1)[0]))
        elif r == 1:
            ops.append(qp.Rot(t(), t(), t(), pick(1)[0]))
        elif r == 2:
            ops.append(qp.U3(t(), t(), t(), pick(1)[0]))
        elif r == 3:
            ops.append(qp.CRot(t(), t(), t(), wires=pick(2)))
        elif r == 4:
            k = int(rng.integers(1, nw + 1))
            ops.append(qp.PauliRot(t(), "".join(rng.choice(list("XYZ"), size=k)), wires=pick(k)))
        elif r == 5:
            ops.append(qp.MultiRZ(t(), wires=pick(int(rng.integers(1, nw + 1)))))
        elif r == 6:
            th = t()
            ops.append(qp.QubitUnitary(np.array([[np.cos(th), -np.sin(th)], [np.sin(th), np.cos(th)]]), wires=pick(1)))
            feats.add("array")
        elif r == 7:
            ops.append(qp.adjoint(qp.RY(t(), pick(1)[0])))
            feats.add("nested")
        elif r == 8:
            ops.append(qp.pow(qp.CRX(t(), wires=pick(2)), int(rng.integers(2, 4))))
            feats.add("nested")
        elif r == 9:
            w = pick(2)
            ops.append(qp.ctrl(qp.Rot(t(), t(), t(), w[0]), control=w[1]))
            feats.add("nested")
        elif r == 10:
            ops.append(qp.adjoint(qp.pow(qp.RZ(t(), pick(1)[0]), 2)))
            feats.add("nested")
        elif r == 11:
            ops.append(qp.exp(qp.X(pick(1)[0]), 1j * t()))
            feats.add("nested")
        elif r == 12:
            ops.append(qp.RX(np.array([t(), t()]), pick(1)[0]))  # broadcast parameter
            feats.add("array")
        elif r == 16:
            ops.append(qp.adjoint(qp.Rot(t(), t(), t(), pick(1)[0])))     # multi-parameter bases inside symbolic wrappers
            feats.add("nested")
        elif r == 17:
            ops.append(qp.pow(qp.U3(t(), t(), t(), pick(1)[0]), 2))
            feats.add("nested")
        elif r == 18:
            w = pick(2)
            ops.append(qp.ctrl(qp.U3(t(), t(), t(), w[0]), control=w[1], control_values=[int(rng.integers(2))]))
            feats.add("nested")
        elif r == 19:
            ops.append(qp.adjoint(qp.pow(qp.Rot(t(), t(), t(), pick(1)[0]), 3)))
            feats.add("nested")
        elif r == 13:
            ops.append(qp.CNOT(pick(2)))
        elif r == 14:
            ops.append(qp.IsingXX(t(), wires=pick(2)))
        else:
            ops.append(qp.prod(qp.RX(t(), pick(1)[0]), qp.RY(t(), pick(1)[0])))
            feats.add("nested")
    ms = []
    for _ in range(int(rng.integers(1, 4))):
        r = int(rng.integers(9))
        if r == 0:
            a = tagger()
            ms.append(qp.expval(qp.Hermitian(np.array([[a, 0.5], [0.5, -a]]), wires=pick(1))))
            feats.add("obs")
        elif r == 1:
            ws = pick(2)
            ms.append(qp.expval(qp.Hamiltonian([tagger(), tagger()], [qp.Z(ws[0]), qp.X(ws[0]) @ qp.Z(ws[1])])))
            feats.add("obs")
        elif r == 2:
            ms.append(qp.expval(tagger() * qp.Z(pick(1)[0])))
            feats.add("obs")
        elif r == 3:
            ws = pick(2)
            ms.append(qp.var(qp.s_prod(tagger(), qp.X(ws[0]) @ qp.Y(ws[1]))))
            feats.add("obs")
        elif r == 4:
            ws = pick(2)
            ms.append(qp.expval(qp.sum(tagger() * qp.Z(ws[0]), tagger() * qp.Z(ws[1]))))
            feats.add("obs")
        elif r == 5:
            ms.append(qp.probs(wires=pick(int(rng.integers(1, nw + 1)))))
        elif r == 6:
            ms.append(qp.expval(qp.Z(pick(1)[0])))
        elif r == 7:
            ms.append(qp.sample(qp.Hermitian(np.array([[tagger(), 0.0], [0.0, 1.0]]), wires=pick(1))))
            feats.add("obs")
        else:
            ms.append(qp.counts(wires=pick(1)))
    shots = None if rng.random() < 0.5 else int(rng.integers(1, 100))
    form = int(rng.integers(3))
    if form == 0:
        tape = qp.tape.QuantumScript(ops, ms, shots=shots)
    elif form == 1:
        tape = qp.tape.QuantumTape(ops, ms, shots=shots)
    else:
        with qp.tape.QuantumTape(shots=shots) as tape:
            for o in ops:
                qp.apply(o)
            for m in ms:
                qp.apply(m)
    return tape, feats


def flat_model(tape):
    """[(circuit index, parameter index, value)] from the data of operations and of observables, in order of appearance."""
    out = []
    n_ops = len(tape.operations)
    for i, op in enumerate(tape.operations):
        for p, d in enumerate(op.data):
            out.append((i, p, d))
    for j, m in enumerate(tape.measurements):
        if m.obs is not None:
            for p, d in enumerate(m.obs.data):
                out.append((n_ops + j, p, d))
    return out


def same_val(a, b):
    if a is b:
        return True
    try:
        a_, b_ = np.asarray(a), np.asarray(b)
        return a_.shape == b_.shape and bool(np.array_equal(a_, b_))
    except Exception:  # noqa: BLE001
        return False


def same_list(xs, ys):
    return len(xs) == len(ys) and all(same_val(x, y) for x, y in zip(xs, ys))


class Live:
    """A live tape with what the harness knows about it."""

    def __init__(self, tape, trainable, struct, label):
        self.tape, self.trainable, self.struct, self.label = tape, trainable, struct, label   # trainable None = default (all)


def check_views(ctx, gen, lv, log, where):
    """All parameter views of one live tape against the flat model; returns False on a violation."""
    tape = lv.tape
    ctx.ev("params.views")
    w = {"history": log[-20:], "tape": gen.describe(tape), "where": where, "which": lv.label}

    def bad(msg, mech, **kw):
        ctx.violation("params.views", f"[{lv.label}] {msg} (after {where})", case=w, mech=mech, **kw)
        return False
    try:
        M = flat_model(tape)
        n_ops = len(tape.operations)
        pi = tape.par_info
        if len(pi) != len(M):
            return bad(f"par_info has {len(pi)} entries, the circuit has {len(M)} parameters", "views:par_info-length")
        for k, (info, (ci, p, v)) in enumerate(zip(pi, M)):
            holder = tape.operations[ci] if ci < n_ops else tape.measurements[ci - n_ops].obs
            if info["op_idx"] != ci or info["p_idx"] != p or info["op"] is not holder:
                return bad(f"par_info[{k}] = (op_idx {info['op_idx']}, p_idx {info['p_idx']}) but parameter {k} is data[{p}] of circuit element {ci}",
                           "views:par_info-entry")
        allv = [v for _, _, v in M]
        if not same_list(tape.get_parameters(trainable_only=False), allv) or not same_list(tape.data, allv):
            return bad("get_parameters(trainable_only=False)/data differ from the parameters in order of appearance", "views:all")
        opsv = [v for ci, _, v in M if ci < n_ops]
        if not same_list(tape.get_parameters(trainable_only=False, operations_only=True), opsv):
            return bad("get_parameters(trainable_only=False, operations_only=True) differs from the operations' parameters", "views:ops-only")
        tr = list(range(len(M))) if lv.trainable is None else list(lv.trainable)
        ctx.ev("params.trainable")
        if list(tape.trainable_params) != tr:
            ctx.violation("params.trainable", f"[{lv.label}] trainable_params = {list(tape.trainable_params)}, expected {tr} (after {where})", case=w,
                          mech=f"trainable:{where.split('(')[0].split(':')[0]}", observed=list(tape.trainable_params), expected=tr)
            return False
        if not same_list(tape.get_parameters(), [M[i][2] for i in tr]):
            return bad("get_parameters() differs from the model's trainable selection", "views:trainable")
        if not same_list(tape.get_parameters(operations_only=True), [M[i][2] for i in tr if M[i][0] < n_ops]):
            return bad("get_parameters(operations_only=True) differs from the model's trainable selection among operations", "views:trainable-ops-only")
        if tape.num_params != len(tr):
            return bad(f"num_params {tape.num_params} != {len(tr)}", "views:num_params")
        for j, i in enumerate(tr[:6]):
            op, oi, p = tape.get_operation(j)
            holder = tape.operations[M[i][0]] if M[i][0] < n_ops else tape.measurements[M[i][0] - n_ops].obs
            if oi != M[i][0] or p != M[i][1] or op is not holder:
                return bad(f"get_operation({j}) = (.., {oi}, {p}), model says element {M[i][0]} data[{M[i][1]}]", "views:get_operation")
    except Exception as e:  # noqa: BLE001
        return bad(f"a parameter view raised {type(e).__name__}: {e}", f"views:raise:{type(e).__name__}")
    return True


def replace_value(v, tagger):
    """A fresh tagged value of the same shape/kind as v."""
    a = np.asarray(v)
    if a.ndim == 0:
        return tagger() * (1j if np.iscomplexobj(a) else 1.0)
    return np.asarray(a) + tagger() * 1e-3   # keeps unitarity/normalisation irrelevant: data only


def history_case(ctx, qp, gen, num, rng, gi):
    from pv.gen.circ import tape_struct

    cnt = [0]

    def tagger():
        cnt[0] += 1
        return float(np.round(0.1 + 0.017 * cnt[0] + 0.0003 * gi % 0.01, 6))
    try:
        tape, feats = gen_tape(qp, rng, gen, num, tagger)
    except Exception as e:  # noqa: BLE001
        ctx.inconclusive_case(f"generator: {type(e).__name__}: {e}")
        return
    log = ["create:" + type(tape).__name__]
    live = [Live(tape, None, tape_struct(tape), "t0")]
    if not check_views(ctx, gen, live[0], log, "create"):
        return
    nsteps = int(rng.integers(4, 14))
    proper = False
    for step in range(nsteps):
        lv = live[int(rng.integers(len(live)))]
        t = lv.tape
        M = flat_model(t)
        n = len(M)
        op = ["set_trainable", "set_trainable", "set_invalid", "copy", "copy_deep", "copy_update", "bind_all", "bind_subset", "bind_subset",
              "bind_bad", "wiremap", "pycopy"][int(rng.integers(12))]
        where = op
        w = {"history": log[-20:], "tape": gen.describe(t), "which": lv.label}
        try:
            if op == "set_trainable":
                k = int(rng.integers(0, n + 1))
                idx = [int(i) for i in rng.choice(n, size=k, replace=False)] if n else []
                raw = idx + ([idx[0]] if idx and rng.random() < 0.3 else [])
                arg = set(raw) if rng.random() < 0.3 else list(raw)
                log.append(f"{lv.label}.trainable_params = {arg!r}")
                t.trainable_params = arg
                lv.trainable = sorted(set(idx))
                lv.struct = tape_struct(t)
                proper = proper or (0 < len(lv.trainable) < n)
            elif op == "set_invalid":
                badv = [[-1], [n], [n + 3], [0.5], ["0"]][int(rng.integers(5))]
                log.append(f"{lv.label}.trainable_params = {badv!r} (invalid, {n} parameters)")
                ctx.ev("params.trainable")
                before = list(t.trainable_params)
                try:
                    t.trainable_params = badv
                    ctx.violation("params.trainable", f"trainable_params = {badv} accepted on a circuit with {n} parameters (valid indices 0..{n - 1})",
                                  case=w, mech="trainable-setter:accepts-index-equal-num-params" if badv == [n] else "trainable-setter:accepts-invalid")
                    t.trainable_params = before
                except ValueError:
                    ctx.reject("invalid-trainable-index")
            elif op in ("copy", "copy_deep", "pycopy"):
                c = t.copy() if op == "copy" else t.copy(copy_operations=True) if op == "copy_deep" else pycopy.copy(t)
                log.append(f"c{len(live)} = {lv.label}.{op}")
                ctx.ev("copy.independent")
                nl = Live(c, None if lv.trainable is None else list(lv.trainable), lv.struct, f"c{len(live)}")
                if tape_struct(c) != lv.struct or type(c) is not type(t) or c.shots != t.shots:
                    ctx.violation("copy.independent", f"{op} of {lv.label} is not structurally equal to the original", case=w, mech=f"copy:{op}:unequal")
                    return
                if c.operations is t.operations or c.measurements is t.measurements:
                    ctx.violation("copy.independent", f"{op} shares the operations/measurements list object with the original", case=w, mech=f"copy:{op}:shared-list")
                    return
                if op != "copy" and any(a is b for a, b in zip(c.operations, t.operations)):
                    ctx.violation("copy.independent", f"{op} (copy_operations=True) shares operator objects", case=w, mech=f"copy:{op}:shared-ops")
                    return
                if len(live) < 6:
                    live.append(nl)
                # independence: retargeting the copy's trainable set must not leak into the original (checked by compare-all below)
                if flat_model(c) and rng.random() < 0.7:
                    k = int(rng.integers(0, len(flat_model(c)) + 1))
                    idx = sorted(int(i) for i in rng.choice(len(flat_model(c)), size=k, replace=False))
                    c.trainable_params = idx
                    nl.trainable = idx
                    nl.struct = tape_struct(c)
                    log.append(f"{nl.label}.trainable_params = {idx}")
            elif op == "copy_update":
                kind = ["shots", "trainable_params", "measurements", "operations"][int(rng.integers(4))]
                log.append(f"c{len(live)} = {lv.label}.copy({kind}=...)")
                ctx.ev("copy.independent")
                if kind == "shots":
                    c = t.copy(shots=7)
                    nl = Live(c, None if lv.trainable is None else list(lv.trainable), None, f"c{len(live)}")
                    okc = c.shots.total_shots == 7
                elif kind == "trainable_params":
                    idx = sorted(int(i) for i in rng.choice(n, size=int(rng.integers(0, n + 1)), replace=False)) if n else []
                    c = t.copy(trainable_params=idx)
                    nl = Live(c, idx, None, f"c{len(live)}")
                    okc = True
                elif kind == "measurements":
                    c = t.copy(measurements=[qp.expval(qp.Z(t.wires[0] if len(t.wires) else 0))])
                    nl = Live(c, None, None, f"c{len(live)}")     # documented: trainable indices are recomputed
                    okc = len(c.measurements) == 1
                else:
                    c = t.copy(operations=list(t.operations)[::-1])
                    nl = Live(c, None, None, f"c{len(live)}")
                    okc = len(c.operations) == len(t.operations)
                nl.struct = tape_struct(c)
                if not okc:
                    ctx.violation("copy.independent", f"copy({kind}=...) did not apply the update", case=w, mech=f"copy-update:{kind}")
                    return
                if len(live) < 6:
                    live.append(nl)
                elif not check_views(ctx, gen, nl, log, where):
                    return
            elif op == "bind_all":
                cur = t.get_parameters(trainable_only=False)
                log.append(f"{lv.label}.bind_new_parameters(current, all)")
                ctx.ev("bind.identity")
                b = t.bind_new_parameters(cur, list(range(n)))
                okb = tape_struct(b) == tape_struct(t) and len(b.circuit) == len(t.circuit)
                try:
                    okb = okb and all(qp.equal(x, y) for x, y in zip(b.circuit, t.circuit))
                except Exception:  # noqa: BLE001
                    pass
                if not okb or list(b.trainable_params) != list(t.trainable_params) or b.shots != t.shots:
                    ctx.violation("bind.identity", "binding the current parameters does not reproduce an equal circuit", case={**w, "rebound": gen.describe(b)},
                                  mech="bind:identity")
                    return
            elif op == "bind_subset":
                if not n:
                    continue
                k = int(rng.integers(0, n + 1))
                idx = [int(i) for i in rng.choice(n, size=k, replace=False)]   # deliberately unsorted
                if rng.random() < 0.4:
                    idx = sorted(idx)
                newv = [replace_value(M[i][2], tagger) for i in idx]
                log.append(f"{lv.label}.bind_new_parameters(new, {idx})")
                ctx.ev("bind.exact")
                try:
                    b = t.bind_new_parameters(newv, idx)
                except Exception as e:  # noqa: BLE001
                    order = sorted(range(len(idx)), key=lambda q: idx[q])
                    try:
                        t.bind_new_parameters([newv[q] for q in order], [idx[q] for q in order])
                        sorted_ok = idx != sorted(idx)
                    except Exception:  # noqa: BLE001
                        sorted_ok = False
                    ctx.violation("bind.exact", f"bind_new_parameters(new, {idx}) raised {type(e).__name__}: {e}"
                                  + (" - the same pairs given in ascending index order are accepted (values are matched to the SORTED indices)" if sorted_ok else ""),
                                  case={**w, "indices": idx}, mech="bind:unsorted-indices" if sorted_ok else f"raise:bind_subset:{type(e).__name__}")
                    if sorted_ok:
                        continue
                    return
                Mb = flat_model(b)
                exp = [v for _, _, v in M]
                for i, v in zip(idx, newv):
                    exp[i] = v
                got = [v for _, _, v in Mb]
                shape_ok = [(type(x).__name__, tuple(x.wires)) for x in b.operations] == [(type(x).__name__, tuple(x.wires)) for x in t.operations] and \
                    [type(m).__name__ for m in b.measurements] == [type(m).__name__ for m in t.measurements]
                if len(got) != len(exp) or not shape_ok or not all(same_val(np.asarray(g, dtype=complex), np.asarray(e, dtype=complex)) or
                                                                  np.allclose(np.asarray(g, dtype=complex), np.asarray(e, dtype=complex), rtol=0, atol=1e-12)
                                                                  for g, e in zip(got, exp)):
                    wrong = [i for i, (g, e) in enumerate(zip(got, exp)) if not np.allclose(np.asarray(g, dtype=complex), np.asarray(e, dtype=complex), rtol=0, atol=1e-12)] \
                        if len(got) == len(exp) else None
                    is_perm = idx != sorted(idx) and wrong is not None and set(wrong) <= set(idx)
                    ctx.violation("bind.exact", f"bind_new_parameters(new, {idx}) did not put params[i] at indices[i] and leave the rest alone "
                                  f"(wrong positions {wrong}; indices sorted: {idx == sorted(idx)})", case={**w, "indices": idx},
                                  mech="bind:unsorted-indices" if is_perm else "bind:subset", observed=[np.asarray(g).tolist() for g in got][:12],
                                  expected=[np.asarray(e).tolist() for e in exp][:12])
                    if is_perm:
                        continue
                    return
                if list(b.trainable_params) != list(t.trainable_params) or b.shots != t.shots:
                    ctx.violation("bind.exact", "bind_new_parameters changed trainable_params or shots", case=w, mech="bind:metadata")
                    return
                if len(live) < 6 and rng.random() < 0.4:
                    live.append(Live(b, None if lv.trainable is None else list(lv.trainable), tape_struct(b), f"b{len(live)}"))
            elif op == "bind_bad":
                log.append(f"{lv.label}.bind_new_parameters(1 value, 2 indices)")
                ctx.ev("bind.exact")
                try:
                    t.bind_new_parameters([0.5], [0, 1])
                    ctx.violation("bind.exact", "mismatching numbers of values and indices accepted", case=w, mech="bind:length-mismatch-accepted")
                except ValueError:
                    ctx.reject("bind-length-mismatch")
            elif op == "wiremap":
                log.append(f"m = {lv.label}.map_to_standard_wires()")
                ctx.ev("wiremap.preserves")
                mt = t.map_to_standard_wires()
                Mm = flat_model(mt)
                if not same_list([v for _, _, v in Mm], [v for _, _, v in M]) or [(i, p) for i, p, _ in Mm] != [(i, p) for i, p, _ in M]:
                    ctx.violation("wiremap.preserves", "map_to_standard_wires changed the parameters", case=w, mech="wiremap:params")
                    return
                if list(mt.trainable_params) != list(t.trainable_params):
                    ctx.violation("wiremap.preserves", f"map_to_standard_wires changed trainable_params {list(t.trainable_params)} -> {list(mt.trainable_params)} "
                                  f"(wires {list(t.wires)})", case=w, mech="map_to_standard_wires:trainable-reset",
                                  observed=list(mt.trainable_params), expected=list(t.trainable_params))
                if mt.shots != t.shots:
                    ctx.violation("wiremap.preserves", "map_to_standard_wires changed shots", case=w, mech="wiremap:shots")
                    return
        except Exception as e:  # noqa: BLE001
            ctx.ev("params.views")
            ctx.violation("params.views", f"{log[-1] if log else op} raised {type(e).__name__}: {e}", case=w, mech=f"raise:{op}:{type(e).__name__}")
            return
        # every live tape: still equal to its fingerprint (nobody else's operation leaked in) and consistent with its model
        for other in live:
            if other.struct is not None and tape_struct(other.tape) != other.struct:
                ctx.ev("copy.independent")
                ctx.violation("copy.independent", f"[{other.label}] changed although the operation was {log[-1]}", case={"history": log[-20:]},
                              mech=f"leak:{op}")
                return
            if not check_views(ctx, gen, other, log, where):
                return
    n0 = len(flat_model(tape))
    ctx.case(fingerprint("hist", repr(tape_struct(tape)), log), nontrivial=n0 >= 3 and proper and bool(feats & {"obs", "nested"}),
             cls="history/" + type(tape).__name__, sample={"tape": gen.describe(tape), "history": log[:12]})


# ----------------------------------------------------------------------------- expansion keeps trainability (perturbation provenance)
def build_expand_tape(qp, pnp, vals, flags, recipe):
    """Rebuild the same circuit from argument values (so that perturbed twins can be made)."""
    A = [pnp.array(v, requires_grad=bool(f)) for v, f in zip(vals, flags)]
    it = iter(A)
    ops = []
    for kind, ws in recipe:
        if kind == "RX":
            ops.append(qp.RX(next(it), ws[0]))
        elif kind == "adjRY":
            ops.append(qp.adjoint(qp.RY(next(it), ws[0])))
        elif kind == "ctrlRZ":
            ops.append(qp.ctrl(qp.RZ(next(it), ws[0]), control=ws[1]))
        elif kind == "Rot":
            ops.append(qp.Rot(next(it), next(it), next(it), ws[0]))
        elif kind == "BEL":
            ops.append(qp.BasicEntanglerLayers(pnp.stack([pnp.stack([next(it), next(it)])]), wires=ws[:2]))
        elif kind == "powRX":
            ops.append(qp.pow(qp.RX(next(it), ws[0]), 2))
        elif kind == "CRX":
            ops.append(qp.CRX(next(it), ws[:2]))
        elif kind == "CNOT":
            ops.append(qp.CNOT(ws[:2]))
        elif kind == "U3":
            ops.append(qp.U3(next(it), next(it), next(it), ws[0]))
        elif kind == "AE":
            ops.append(qp.AngleEmbedding(pnp.stack([next(it), next(it)]), wires=ws[:2]))
        elif kind == "IsingXX":
            ops.append(qp.IsingXX(next(it), ws[:2]))
    t = qp.tape.QuantumScript(ops, [qp.expval(qp.Z(0) @ qp.Z(1))])
    t.trainable_params = qp.math.get_trainable_indices(t.get_parameters(trainable_only=False))
    return t


NARGS = {"RX": 1, "adjRY": 1, "ctrlRZ": 1, "Rot": 3, "BEL": 2, "powRX": 1, "CRX": 1, "CNOT": 0, "U3": 3, "AE": 2, "IsingXX": 1}


def expand_case(ctx, qp, pnp, rng, gi):
    kinds = list(NARGS)
    recipe = []
    for _ in range(int(rng.integers(2, 7))):
        k = kinds[int(rng.integers(len(kinds)))]
        ws = [int(x) for x in rng.permutation(2)]
        recipe.append((k, ws))
    na = sum(NARGS[k] for k, _ in recipe)
    if na == 0:
        return
    vals = [float(np.round(0.2 + 0.071 * (i + 1) + 0.013 * (gi % 7), 5)) for i in range(na)]
    flags = [bool(rng.random() < 0.5) for _ in range(na)]
    pos = 0
    for k, _ in recipe:      # arguments stacked into ONE array parameter share one requires_grad flag
        if k in ("BEL", "AE"):
            flags[pos + 1] = flags[pos]
        pos += NARGS[k]
    if not any(flags):
        flags = [True] * na
    which = "param_shift" if rng.random() < 0.7 else "hadamard_grad"
    expand = getattr(qp.gradients, which).expand_transform
    w = {"recipe": [[k, ws] for k, ws in recipe], "values": vals, "requires_grad": flags, "expand": which}

    def run_expand(v):
        t = build_expand_tape(qp, pnp, v, flags, recipe)
        out, _ = expand(t)
        if len(out) != 1:
            return None
        e = out[0]
        return e, [np.asarray(x, dtype=complex) for x in e.get_parameters(trainable_only=False)], list(e.trainable_params)
    try:
        base = run_expand(vals)
    except Exception as e:  # noqa: BLE001 - documented rejections of the gradient expansion (unsupported operation)
        ctx.reject(f"expand:{type(e).__name__}")
        return
    if base is None:
        return
    etape, p0, tr0 = base
    ctx.ev("expand.trainable")
    moved_by_trainable = set()
    for i in range(na):
        v2 = list(vals)
        v2[i] += 0.0137
        r = run_expand(v2)
        if r is None or len(r[1]) != len(p0):
            ctx.inconclusive_case("expansion structure depends on the value")
            return
        changed = {k for k, (a, b) in enumerate(zip(p0, r[1])) if a.shape != b.shape or not np.allclose(a, b, rtol=0, atol=1e-12)}
        if flags[i]:
            moved_by_trainable |= changed
            if changed and not changed <= set(tr0):
                ctx.violation("expand.trainable", f"{which}.expand_transform: parameters {sorted(changed - set(tr0))} of the expanded circuit depend on trainable "
                              f"argument {i} but are not marked trainable (trainable_params = {tr0})", case={**w, "expanded": [repr(o) for o in etape.operations]},
                              mech=f"expand:{which}:trainability-lost", observed=tr0, expected=sorted(set(tr0) | changed))
                return
    spurious = set(tr0) - moved_by_trainable
    if spurious:
        ctx.violation("expand.trainable", f"{which}.expand_transform marks parameters {sorted(spurious)} trainable although no trainable argument reaches them "
                      f"(trainable_params = {tr0})", case={**w, "expanded": [repr(o) for o in etape.operations]}, mech=f"expand:{which}:spurious-trainable",
                      observed=tr0, expected=sorted(moved_by_trainable))
        return
    expanded = len(etape.operations) != len(recipe) or any(type(a).__name__ != k for a, (k, _) in zip(etape.operations, recipe))
    ctx.case(fingerprint("expand", recipe, flags, which), nontrivial=expanded and not all(flags), cls=f"expand/{which}",
             sample={**w, "expanded_ops": len(etape.operations), "trainable_after": tr0})


def run(ctx):
    import pennylane as qp
    from pennylane import numpy as pnp
    from pv.gen import circ as gen
    from pv.gen import num

    warnings.filterwarnings("ignore")
    # keep a complete list of violation mechanisms in evidence (the bus stores only the first witnesses)
    _orig_violation = ctx.violation

    def _violation(monitor, message, case=None, mech=None, observed=None, expected=None):
        ctx.note_add("violation_mechs", f"{monitor}|{mech}", cap=150)
        ctx.count(f"violations.{mech}")
        return _orig_violation(monitor, message, case=case, mech=mech, observed=observed, expected=expected)
    ctx.violation = _violation
    N = ctx.n(700, 24000)
    indices = range(ctx.shard, N * ctx.nshards, ctx.nshards)
    if ctx.only_case is not None:
        indices = [ctx.only_case]
    for n_done, gi in enumerate(indices):
        if n_done and n_done % 16 == 0 and not ctx.more():
            break
        ctx.case_index = gi
        rng = ctx.case_rng(gi)
        if gi % 5 == 4:
            expand_case(ctx, qp, pnp, rng, gi)
        else:
            history_case(ctx, qp, gen, num, rng, gi)
