"""C02 — Named gates implement their documented unitaries.

Deciding monitor: post-condition on the real ``qp.matrix(op)`` / ``op.matrix()`` / ``Cls.compute_matrix`` for every
tabulated named gate: equals R-GATES (documented formula, first wire most significant) and is unitary.  Batched
(broadcast) matrices are compared slice-wise with the table and with the scalar calls.  Also compares the matrix under
a permuted ``wire_order`` with the R-EMBED re-indexing of the table matrix.
"""
import numpy as np

from pv.ctx import fingerprint

META = {
    "id": "C02",
    "level": "exploration",
    "technique": "runtime post-condition on qp.matrix of generated gate instances vs. an independently written table of documented unitaries (reference-model monitor)",
    "level_text": "Every tabulated named-gate class is instantiated with hostile parameters (random, boundary, 2πk±ε, broadcast batches, "
                  "different containers, arbitrary wire labels) and the matrix returned by the real code is compared with a table written "
                  "from the documented formulas, plus a unitarity test; held on the instances observed.",
    "level_note": "Trusts numpy/scipy (expm) and the transcription of the documented formulas in pv/ref/gates.py; classes without an "
                  "unambiguous documented closed form are left to C01's pairwise consistency.",
    "shards": {"quick": 2, "thorough": 16},
    "budget_s": {"quick": 60, "thorough": 420},
    "min_evals": {"quick": 1500, "thorough": 40000},
    "deciding": ["matrix.table", "matrix.unitary"],
    "rule": "case = (gate class, parameter point, hyper-parameters, wire labels); distinct = distinct (class, rounded params, hyper); "
            "non-trivial = parametrised gate at a parameter that is not a multiple of 2π, or a non-parametrised gate with >= 2 wires or a hyper-parameter",
    "assumptions": ["reference table transcribes the documented formulas faithfully"],
}

TOL = 1e-9


def _cmp(ctx, M, R, info, what, mon="matrix.table"):
    ctx.ev(mon)
    M = np.asarray(M)
    if M.shape != R.shape:
        ctx.violation(mon, f"{info['name']}: {what}: shape {M.shape} != {R.shape}", case=info, mech=f"shape:{info['name']}")
        return False
    err = float(np.max(np.abs(M - R)))
    if not err < TOL:
        ctx.violation(mon, f"{info['name']}: {what} differs from documented unitary by {err:.3e}", case=info,
                      observed=M, expected=R, mech=f"table:{info['name']}")
        return False
    return True


def run(ctx):
    import pennylane as qp

    from pv.gen import num, ops
    from pv.ref import gates as G
    from pv.ref import sv

    names = sorted(ops.NAMED)
    per_class = ctx.n(50, 2400) if ctx.quick else ctx.n(50, 2400)
    rng = ctx.rng
    idx = 0
    for name in names:
        for j in range(per_class):
            if not ctx.more():
                return
            idx += 1
            ctx.case_index = idx
            try:
                op, info = ops.make_named(qp, name, rng)
            except Exception as e:  # noqa: BLE001
                ctx.violation("matrix.table", f"{name}: constructor raised {type(e).__name__}: {e}", case={"name": name}, mech=f"ctor:{name}")
                break
            nw = len(op.wires)
            R = G.ref_matrix(name, info["params"], nw, {"pauli_word": info["hyper"].get("pauli_word"),
                                                        "dimension": info["hyper"].get("dim"),
                                                        "control_values": info["hyper"].get("control_values"),
                                                        "value": info["hyper"].get("value"), "geq": info["hyper"].get("geq", True)})
            if R is None:
                ctx.uncovered(name, "no reference")
                break
            nontriv = (bool(info["params"]) and any(abs((p / (2 * np.pi)) - round(p / (2 * np.pi))) > 1e-6 for p in info["params"])) \
                or (not info["params"] and (nw >= 2 or bool(info["hyper"])))
            ctx.case(fingerprint(name, [round(p, 9) for p in info["params"]], sorted(info["hyper"].items(), key=str)),
                     nontrivial=nontriv, cls=name, sample=info)
            try:
                M = qp.matrix(op)
            except Exception as e:  # noqa: BLE001
                ctx.violation("matrix.table", f"{name}: qp.matrix raised {type(e).__name__}: {e}", case=info, mech=f"raise:{name}")
                continue
            ok = _cmp(ctx, M, R, info, "qp.matrix(op)")
            ctx.ev("matrix.unitary")
            Mn = np.asarray(M)
            if Mn.ndim == 2 and Mn.shape[0] == Mn.shape[1] and not np.linalg.norm(Mn.conj().T @ Mn - np.eye(Mn.shape[0])) < 1e-9 * Mn.shape[0]:
                ctx.violation("matrix.unitary", f"{name}: matrix is not unitary", case=info, mech=f"nonunitary:{name}")
            if not ok:
                continue
            # op.matrix() method and compute_matrix static path
            try:
                _cmp(ctx, op.matrix(), R, info, "op.matrix()", "matrix.method")
            except Exception as e:  # noqa: BLE001
                ctx.violation("matrix.method", f"{name}: op.matrix() raised {type(e).__name__}: {e}", case=info, mech=f"raise-method:{name}")
            # permuted / superset wire order
            if nw >= 1 and j % 3 == 0 and nw <= 4:
                extra = [w for w in ["e0", "e1"][: int(rng.integers(0, 2))]]
                order = list(op.wires) + extra
                order = [order[int(k)] for k in rng.permutation(len(order))]
                try:
                    Mw = qp.matrix(op, wire_order=order)
                    _cmp(ctx, Mw, sv.embed(R, list(op.wires), order), {**info, "wire_order": order}, "qp.matrix(op, wire_order)", "matrix.wire_order")
                except Exception as e:  # noqa: BLE001
                    ctx.violation("matrix.wire_order", f"{name}: qp.matrix(wire_order={order}) raised {type(e).__name__}: {e}",
                                  case={**info, "wire_order": order}, mech=f"raise-wo:{name}")
            # broadcast batch
            npar = ops.NAMED[name][0]
            if npar and j % 4 == 0 and name not in ("GlobalPhase",):
                try:
                    supports = type(op) in qp.ops.qubit.attributes.supports_broadcasting or name in qp.ops.qubit.attributes.supports_broadcasting
                except Exception:  # noqa: BLE001
                    supports = False
                if supports:
                    B = int(rng.integers(1, 5))
                    batch = [[num.angle(rng) for _ in range(B)] for _ in range(npar)]
                    # one parameter batched, others scalar — or all batched
                    allb = rng.random() < 0.5
                    args = []
                    for k in range(npar):
                        args.append(np.array(batch[k]) if (allb or k == 0) else batch[k][0])
                    binfo = {**info, "batch": batch, "all_batched": bool(allb)}
                    try:
                        kw = {}
                        if name == "PauliRot":
                            bop = qp.PauliRot(args[0], info["hyper"]["pauli_word"], wires=info["wires"])
                        elif name == "PCPhase":
                            bop = qp.PCPhase(args[0], dim=info["hyper"]["dim"], wires=info["wires"])
                        else:
                            bop = getattr(qp, name)(*args, wires=info["wires"], **kw)
                        MB = np.asarray(qp.matrix(bop))
                        ctx.ev("matrix.broadcast")
                        if MB.ndim != 3 or MB.shape[0] != B:
                            ctx.violation("matrix.broadcast", f"{name}: batched matrix has shape {MB.shape}, batch {B}", case=binfo, mech=f"bshape:{name}")
                        else:
                            for b in range(B):
                                pb = [batch[k][b] if (allb or k == 0) else batch[k][0] for k in range(npar)]
                                Rb = G.ref_matrix(name, pb, nw, {"pauli_word": info["hyper"].get("pauli_word"), "dimension": info["hyper"].get("dim")})
                                if not _cmp(ctx, MB[b], Rb, {**binfo, "slice": b}, f"batched slice {b}", "matrix.broadcast"):
                                    break
                    except Exception as e:  # noqa: BLE001
                        ctx.violation("matrix.broadcast", f"{name}: broadcast raised {type(e).__name__}: {e}", case=binfo, mech=f"braise:{name}")
    # exhaustive small sub-spaces: MultiControlledX all control strings up to 4 controls, PauliRot all words <= 3
    if ctx.shard == 0:
        import itertools
        for nc in range(1, 5):
            for cv in itertools.product([0, 1], repeat=nc):
                op = qp.MultiControlledX(wires=list(range(nc + 1)), control_values=list(cv))
                info = {"name": "MultiControlledX", "params": [], "wires": list(range(nc + 1)), "hyper": {"control_values": list(cv)}}
                ctx.case(fingerprint("MCX", cv), True, cls="MultiControlledX")
                _cmp(ctx, qp.matrix(op), G.controlled(G.X, nc, list(cv)), info, "qp.matrix")
        for n in range(1, 4):
            for w in itertools.product("IXYZ", repeat=n):
                word = "".join(w)
                th = num.angle(rng, special=0.0)
                op = qp.PauliRot(th, word, wires=list(range(n)))
                info = {"name": "PauliRot", "params": [th], "wires": list(range(n)), "hyper": {"pauli_word": word}}
                ctx.case(fingerprint("PR", word, round(th, 9)), True, cls="PauliRot")
                _cmp(ctx, qp.matrix(op), G.ref_matrix("PauliRot", [th], n, {"pauli_word": word}), info, "qp.matrix")
