"""C20 — Measurement splitting and diagonalisation preserve results.

Translation validation of every (batch of tapes, post-processing function) the real transforms return; the post-condition
sits on ``Transform.tape_transform`` so nested / pipeline uses are validated too:

* ``pipeline.result``   expected = reference (R-SV) results of the ORIGINAL tape, measurement by measurement (broadcast tapes: slice
                        by slice, stacked); observed = the REAL post-processing applied to the results of the PRODUCED tapes, which
                        are evaluated by the same independent reference in the documented result layout
                        (results[tape][shot copy][measurement][batch]).  Values, order and structure must agree to 1e-9.
* ``pipeline.device``   for a fraction of the cases the produced tapes are also executed on ``default.qubit`` (realistic result
                        containers) and post-processed; must agree as well.  Sample/counts cases use basis-state circuits with
                        Z-type measurements (deterministic outcomes) and are decided on this path against the device's results of
                        the original tape.
* ``split.commuting``   split_non_commuting: the observables measured together in one produced tape pairwise commute
                        (dense commutator by the reference); ``None`` strategy: one measurement per tape.
* ``diag.basis``        diagonalize_measurements: every produced observable only contains supported base observables (Z / Identity
                        by default, or eigvals+wires with to_eigvals=True).
* ``pipeline.accepts``  inputs in the documented domain are not rejected; documented rejections are counted; a rejected-class
                        input that returns numbers is judged by ``pipeline.result`` like any other.
"""
import warnings

import numpy as np

from pv.ctx import fingerprint

META = {
    "id": "C20",
    "level": "translation_validation",
    "technique": "translation validation of measurement transforms: reference results of the original tape vs. the real post-processing applied "
                 "to reference (and default.qubit) results of every produced tape; dense-commutator and basis-membership post-conditions",
    "level_text": "Every batch produced by split_non_commuting (default/wires/qwc/None, Hamiltonians with cached grouping, shot vectors, "
                  "broadcast tapes), split_to_single_terms, diagonalize_measurements (all supported_base_obs subsets, to_eigvals), sign_expand "
                  "(analytic), broadcast_expand, batch_params and batch_input on generated circuits with hostile measurement lists (identity "
                  "and constant terms, duplicated / overlapping / zero-coefficient observables, Hermitian / Projector, mixed expval/var/probs/"
                  "sample/counts) is recombined by the real post-processing and compared with the independent reference of the original.",
    "level_note": "Trusted: numpy and the documented gate/observable tables (pv/ref). Shot-vector cases feed the post-processing exact "
                  "(infinite-shot) values in the shot-vector layout: the layout bookkeeping is what is decided, not sampling statistics; "
                  "shot_dist strategies only through their effect on tape.shots (sum and positivity). sample/counts only on deterministic "
                  "basis-state circuits (decided through default.qubit, which is then trusted for the sample container format). sign_expand "
                  "circuit=True (QSP approximation, not exact) and the variance mode (documented as an estimator variance) are out of scope.",
    "shards": {"quick": 4, "thorough": 16},
    "budget_s": {"quick": 75, "thorough": 420},
    "min_evals": {"quick": 500, "thorough": 5000},
    "deciding": ["pipeline.result", "pipeline.accepts"],
    "rule": "case = (transform, options, circuit, measurement list); distinct = fingerprint of (transform, options, deep tape structure); "
            "non-trivial = the transform produced more than one tape or changed the measurement list / appended gates",
    "assumptions": ["post-processing functions are pure functions of the documented result layout"],
    "allow_rejections": True,
}

TOL = 1e-9
NAMES = ("split_non_commuting", "split_to_single_terms", "diagonalize_measurements", "sign_expand", "broadcast_expand", "batch_params", "batch_input")


# ----------------------------------------------------------------------------- reference execution
def slice_ops(ops, b, only_idx=None):
    """Operators of batch item b: every parameter that carries a leading batch axis is indexed (built from operator data only).
    ``only_idx``: set of flat parameter indices ([p for op in ops for p in op.data]) that are batched (batch_params / batch_input)."""
    out = []
    k = 0
    for o in ops:
        data = list(o.data)
        nd = list(getattr(o, "ndim_params", [0] * len(data)))
        new = []
        changed = False
        for d, n in zip(data, nd):
            a = np.asarray(d)
            batched = (k in only_idx) if only_idx is not None else (a.ndim > n)
            if batched:
                new.append(a[b])
                changed = True
            else:
                new.append(d)
            k += 1
        out.append(type(o)(*new, wires=o.wires) if changed else o)
    return out


def ref_exec(tape, tv, batch=None, only_idx=None):
    """Reference 'execution' of a tape in the documented result layout (analytic values)."""
    wires = list(tape.wires)
    ms = list(tape.measurements)

    def one(ops):
        psi, _ = tv.state(ops, wires)
        return [tv.measure(psi, wires, m) for m in ms]

    bs = batch if batch is not None else tape.batch_size
    if bs is None:
        vals = one(list(tape.operations))
    else:
        per = [one(slice_ops(list(tape.operations), b, only_idx)) for b in range(bs)]
        vals = [np.stack([np.asarray(p[i]) for p in per]) for i in range(len(ms))]
    vals = [np.float64(v) if np.ndim(v) == 0 else np.asarray(v) for v in vals]
    res = tuple(vals) if len(vals) != 1 else vals[0]
    if tape.shots and tape.shots.has_partitioned_shots:
        return tuple(res for _ in range(tape.shots.num_copies))
    return res


def compare(got, exp, tol=TOL, path=""):
    """Structural + numerical comparison.  Returns None if equal else a description."""
    if isinstance(exp, dict) or isinstance(got, dict):
        if not (isinstance(exp, dict) and isinstance(got, dict)):
            return f"{path}: dict vs {type(got).__name__}"
        g = {str(k): int(v) for k, v in got.items()}
        e = {str(k): int(v) for k, v in exp.items()}
        return None if g == e else f"{path}: counts {g} != {e}"
    if isinstance(exp, (tuple, list)):
        if not isinstance(got, (tuple, list)) and not (hasattr(got, "shape") and np.ndim(got) >= 1 and len(got) == len(exp)):
            return f"{path}: expected a sequence of {len(exp)}, got {type(got).__name__}"
        if len(got) != len(exp):
            return f"{path}: length {len(got)} != {len(exp)}"
        for i, (g, e) in enumerate(zip(got, exp)):
            r = compare(g, e, tol, f"{path}[{i}]")
            if r:
                return r
        return None
    try:
        g = np.asarray(got)
        e = np.asarray(exp)
        if g.dtype == object:
            return f"{path}: ragged / object result"
        g = g.astype(complex) if np.iscomplexobj(g) or np.iscomplexobj(e) else g.astype(float)
    except Exception as ex:  # noqa: BLE001
        return f"{path}: not numeric ({type(ex).__name__})"
    if g.shape != e.shape:
        return f"{path}: shape {g.shape} != {e.shape}"
    err = float(np.max(np.abs(g - e))) if e.size else 0.0
    scale = max(1.0, float(np.max(np.abs(e))) if e.size else 1.0)
    if not err <= tol * scale:
        return f"{path}: values differ by {err:.3e} (got {np.round(g.reshape(-1)[:4], 6).tolist()}, expected {np.round(e.reshape(-1)[:4], 6).tolist()})"
    return None


class Validator:
    def __init__(self, ctx, qp, dev):
        self.ctx, self.qp, self.dev = ctx, qp, dev
        self.info = {}

    def witness(self, name, tape, tapes, kwargs, extra=None):
        from pv.gen import circ
        w = {"transform": name, "options": {k: repr(v)[:160] for k, v in kwargs.items()}, "input": circ.describe(tape),
             "n_out": len(tapes), "out_measurements": [[repr(m) for m in t.measurements][:12] for t in list(tapes)[:8]],
             "out_shots": [repr(t.shots) for t in list(tapes)[:8]] if tape.shots else None, "driver_case": self.info.get("desc")}
        if tapes and len(tapes) == 1 and len(tapes[0].operations) != len(tape.operations):
            w["appended_ops"] = [repr(o) for o in tapes[0].operations[len(tape.operations):]][:20]
        if extra:
            w.update(extra)
        return w

    def __call__(self, name, tape, args, kwargs, out, depth):
        from pv.mon import c17_tv as tv
        ctx = self.ctx
        if not (isinstance(out, tuple) and len(out) == 2 and callable(out[1])):
            return
        tapes, fn = out
        tapes = list(tapes)
        self._n_out = len(tapes)
        ctx.count("programs", len(tapes))
        ctx.count(f"applications.{name}")
        info = self.info
        mode = info.get("mode", "analytic")
        # ---------- structural post-conditions
        if name == "split_non_commuting":
            ctx.ev("split.commuting")
            strat = kwargs.get("grouping_strategy", "default")
            for ti, t in enumerate(tapes):
                obs = [m.obs for m in t.measurements if m.obs is not None]
                single_grouped_sum = (len(tape.measurements) == 1 and type(tape.measurements[0]).__name__ == "ExpectationMP"
                                      and getattr(tape.measurements[0].obs, "grouping_indices", None) is not None)  # documented exception
                if strat is None and len(t.measurements) != 1 and len(tape.measurements) > 0 and not single_grouped_sum:
                    ctx.violation("split.commuting", f"grouping_strategy=None produced a tape with {len(t.measurements)} measurements",
                                  case=self.witness(name, tape, tapes, kwargs), mech="none-strategy-grouped")
                    return
                # wire-only measurements count as Z on their wires
                mats = []
                try:
                    for m in t.measurements:
                        if m.obs is not None:
                            mats.append(tv.obs_matrix(m.obs))
                        elif len(m.wires):
                            mats.append((np.diag(np.arange(2 ** len(m.wires), dtype=complex)), list(m.wires)))
                    ws = tv.all_wires([type("W", (), {"wires": w})() for _, w in mats]) if mats else []
                    if len(ws) <= 6:
                        from pv.ref import sv
                        full = [sv.embed(M, w, ws) for M, w in mats if w]
                        for i in range(len(full)):
                            for j in range(i + 1, len(full)):
                                c = np.linalg.norm(full[i] @ full[j] - full[j] @ full[i])
                                if c > 1e-9 * max(1.0, np.linalg.norm(full[i]) * np.linalg.norm(full[j])):
                                    ctx.violation("split.commuting", f"produced tape {ti} measures non-commuting observables together: "
                                                                     f"{t.measurements[i]!r} and {t.measurements[j]!r}",
                                                  case=self.witness(name, tape, tapes, kwargs), mech=f"non-commuting-group:{strat}")
                                    return
                except tv.NoRef:
                    pass
            if tape.shots and kwargs.get("shot_dist") is not None and len(tapes) > 0:
                ctx.ev("split.shots")
                tot = [t.shots.total_shots for t in tapes]
                if any((s is None) or s < 0 for s in tot) or (len(tape.measurements) == 1 and sum(tot) != tape.shots.total_shots and info.get("ham_grouped")):
                    ctx.violation("split.shots", f"shot distribution {tot} does not add up to {tape.shots.total_shots}", case=self.witness(name, tape, tapes, kwargs),
                                  mech=f"shot-dist:{kwargs.get('shot_dist')}")
        if name == "diagonalize_measurements" and len(tapes) == 1:
            ctx.ev("diag.basis")
            sup = set(kwargs.get("supported_base_obs", ())) | {self.qp.Z, self.qp.Identity}
            supn = {c.__name__ for c in sup} | {"PauliZ", "Identity", "Z", "I"} | ({"PauliX", "X"} if self.qp.X in sup else set()) | ({"PauliY", "Y"} if self.qp.Y in sup else set())

            def leaves(o):
                if hasattr(o, "operands"):
                    for x in o.operands:
                        yield from leaves(x)
                elif getattr(o, "base", None) is not None and type(o).__name__ in ("SProd",):
                    yield from leaves(o.base)
                elif type(o).__name__ in ("LinearCombination", "Hamiltonian"):
                    for x in o.terms()[1]:
                        yield from leaves(x)
                else:
                    yield o
            for m in tapes[0].measurements:
                if m.obs is None:
                    continue
                for lf in leaves(m.obs):
                    if type(lf).__name__ not in supn and lf.name not in supn and type(lf).__name__ in ("PauliX", "PauliY", "Hadamard", "X", "Y"):
                        ctx.violation("diag.basis", f"produced measurement {m!r} still contains the unsupported base observable {lf!r}",
                                      case=self.witness(name, tape, tapes, kwargs), mech="undiagonalized-observable")
                        return
        # ---------- results
        if mode == "skip":
            return
        if mode == "samples":
            self._device_differential(name, tape, tapes, fn, kwargs)
            return
        try:
            if name in ("batch_params", "batch_input"):
                exp = ref_exec(tape, tv, batch=info["batch"], only_idx=info["only_idx"])
            else:
                exp = ref_exec(tape, tv)
            res = [ref_exec(t, tv) for t in tapes]
        except tv.NoRef as e:
            ctx.inconclusive_case(f"{name}: no reference ({e})")
            return
        if name == "split_non_commuting" and kwargs.get("shot_dist") is not None and tape.shots and len(tape.measurements) == 1 \
                and not tape.shots.has_partitioned_shots and type(tape.measurements[0]).__name__ == "ExpectationMP":
            # documented shot allocation may give a commuting group zero shots; that group is then not measured at all (an estimator
            # decision): the claim that remains is that post-processing works and returns offset + sum over the MEASURED terms
            try:
                cs_, ts_ = tape.measurements[0].obs.terms()
                measured = {hash(m_.obs) for t_ in tapes for m_ in t_.measurements if m_.obs is not None}
                all_terms = {hash(t_) for t_ in ts_ if type(t_).__name__ != "Identity"}
                dropped = all_terms - measured
            except Exception:  # noqa: BLE001
                dropped = set()
            if dropped:
                ctx.count("shot_dist_zero_shot_group_dropped")
                ctx.ev("pipeline.result")
                wires_ = list(tape.wires)
                psi_, _ = tv.state(list(tape.operations), wires_)
                exp_partial = 0.0
                for c_, t_ in zip(cs_, ts_):
                    if type(t_).__name__ == "Identity":
                        exp_partial += float(np.real(complex(np.asarray(c_))))
                    elif hash(t_) in measured:
                        exp_partial += float(np.real(complex(np.asarray(c_)))) * tv.measure(psi_, wires_, self.qp.expval(t_))
                try:
                    got = fn(tuple(res))
                    bad = compare(got, np.float64(exp_partial))
                except Exception as e:  # noqa: BLE001
                    bad = f": post-processing raised {type(e).__name__}: {e}"
                if bad:
                    ctx.violation("pipeline.result", f"{name}: a commuting group received zero shots and was dropped, after which the post-processing "
                                                     f"mis-indexes the remaining groups{bad}", case=self.witness(name, tape, tapes, kwargs),
                                  mech="shot-dist-zero-shot-group-misindexed")
                return
        ctx.ev("pipeline.result")
        try:
            got = fn(tuple(res))
        except Exception as e:  # noqa: BLE001
            mech = f"postprocessing-raises:{name}:{type(e).__name__}"
            if kwargs.get("shot_dist") is not None and tape.shots and tape.shots.has_partitioned_shots:
                mech = "shot-dist-collapses-shot-vector"
            ctx.violation("pipeline.result", f"{name}: post-processing raised {type(e).__name__}: {str(e)[:200]}", case=self.witness(name, tape, tapes, kwargs),
                          mech=mech)
            return
        if name == "sign_expand" and type(tape.measurements[0]).__name__ != "ExpectationMP":
            return
        bad = compare(got, exp)
        if bad:
            ctx.violation("pipeline.result", f"{name}: post-processed results differ from the reference of the original tape at result{bad}",
                          case=self.witness(name, tape, tapes, kwargs), mech=self._mech(name, tape, kwargs, bad), observed=got, expected=exp)
            return
        # ---------- realistic containers: run the produced tapes on default.qubit as well
        if info.get("device_too") and not tape.shots:
            ctx.ev("pipeline.device")
            try:
                with tv.monitors_off():
                    dres = self.qp.execute(tapes, self.dev)
                got2 = fn(dres)
            except Exception as e:  # noqa: BLE001
                ctx.violation("pipeline.device", f"{name}: executing / post-processing the produced tapes on default.qubit raised {type(e).__name__}: {str(e)[:200]}",
                              case=self.witness(name, tape, tapes, kwargs), mech=f"device-path-raises:{name}:{type(e).__name__}")
                return
            bad = compare(got2, exp, tol=1e-8)
            if bad:
                ctx.violation("pipeline.device", f"{name}: default.qubit results of the produced tapes, post-processed, differ from the reference at result{bad}",
                              case=self.witness(name, tape, tapes, kwargs), mech=f"device-path:{name}")

    def _mech(self, name, tape, kwargs, bad):
        """Mechanism classifier over the witness."""
        ms = tape.measurements
        if "shape" in bad and tape.batch_size == 1:
            return f"batch1-dim-dropped:{name}"
        if name == "sign_expand":
            return "sign-expand-constant-dropped"
        if name == "diagonalize_measurements" and kwargs.get("to_eigvals"):
            return "to-eigvals-spectrum-order"
        if name == "diagonalize_measurements":
            for m in ms:
                ob = m.obs
                if ob is not None and type(ob).__name__ in ("Sum", "LinearCombination", "Hamiltonian", "SProd"):
                    try:
                        cs, ts = ob.terms()
                        if any(type(t).__name__ == "Identity" and abs(complex(np.asarray(c)) - 1) > 1e-12 for c, t in zip(cs, ts)):
                            return "diag-identity-coefficient-dropped"
                    except Exception:  # noqa: BLE001
                        pass
        if self._n_out == 0 and tape.shots and tape.shots.has_partitioned_shots:
            return "no-tapes-with-shot-vector"
        if name in ("split_non_commuting", "split_to_single_terms"):
            for m in ms:
                if type(m).__name__ != "ExpectationMP" and m.obs is not None and type(m.obs).__name__ == "Identity":
                    return f"identity-offset-on-non-expval:{type(m).__name__}"
        return f"result:{name}"

    def _device_differential(self, name, tape, tapes, fn, kwargs):
        from pv.mon import c17_tv as tv
        ctx = self.ctx
        ctx.ev("pipeline.result")
        try:
            with tv.monitors_off():
                exp = self.qp.execute([tape], self.dev)[0]
                res = self.qp.execute(tapes, self.dev)
        except Exception as e:  # noqa: BLE001
            ctx.inconclusive_case(f"{name}: device could not execute the sample case: {type(e).__name__}: {e}")
            return
        try:
            got = fn(res)
        except Exception as e:  # noqa: BLE001
            ctx.violation("pipeline.result", f"{name}: post-processing raised {type(e).__name__}: {str(e)[:200]}", case=self.witness(name, tape, tapes, kwargs),
                          mech=f"postprocessing-raises:{name}:{type(e).__name__}")
            return
        bad = compare(got, exp, tol=1e-9)
        if bad:
            ctx.violation("pipeline.result", f"{name}: (deterministic sample case) post-processed results differ from executing the original at result{bad}",
                          case=self.witness(name, tape, tapes, kwargs), mech=f"samples:{name}", observed=got, expected=exp)


# ----------------------------------------------------------------------------- workload
def _pauli(qp, rng, w, letters="XYZ"):
    return getattr(qp, "Pauli" + letters[int(rng.integers(len(letters)))])(w)


def _word(qp, rng, wires, basis=None, max_len=3):
    k = int(rng.integers(1, min(max_len, len(wires)) + 1))
    ws = [wires[int(i)] for i in rng.choice(len(wires), size=k, replace=False)]
    fac = [getattr(qp, "Pauli" + basis[w])(w) if basis else _pauli(qp, rng, w) for w in ws]
    ob = fac[0]
    for f in fac[1:]:
        ob = ob @ f
    return ob


def hostile_obs(qp, rng, wires, basis=None, allow_nonpauli=True):
    """One observable: Pauli words, sums with identity / constant / duplicated / zero-coefficient terms, scalar products,
    Hamiltonians, products that simplify, Hermitian / Projector."""
    r = rng.random()
    W = lambda: _word(qp, rng, wires, basis)  # noqa: E731
    if r < 0.3:
        return W()
    if r < 0.4:
        return float(rng.normal()) * W()
    if r < 0.62:
        terms = [float(rng.normal()) * W() for _ in range(int(rng.integers(2, 5)))]
        x = rng.random()
        if x < 0.35:
            terms.append(float(rng.normal()) * qp.Identity(wires[int(rng.integers(len(wires)))]))
        if 0.2 < x < 0.5:
            terms.append(terms[0])  # duplicated term
        if x > 0.85:
            terms.append(0.0 * W())
        if 0.6 < x < 0.75:
            terms.append(W())
        return qp.sum(*terms)
    if r < 0.72:
        n = int(rng.integers(1, 5))
        obs = [W() for _ in range(n)]
        if rng.random() < 0.4:
            obs.append(qp.Identity(wires[0]))
        return qp.Hamiltonian([float(x) for x in rng.normal(size=len(obs))], obs)
    if r < 0.77:
        return qp.Identity(wires[int(rng.integers(len(wires)))]) if rng.random() < 0.6 else float(rng.normal()) * qp.Identity(wires[0])
    if r < 0.82:
        w = wires[int(rng.integers(len(wires)))]
        a, b = _pauli(qp, rng, w) if not basis else getattr(qp, "Pauli" + basis[w])(w), None
        b = a if rng.random() < 0.5 or basis else _pauli(qp, rng, w)
        return qp.prod(a, b)  # X@X = I, X@Y = iZ (non-hermitian products are avoided below)
    if r < 0.88:
        return qp.sum(W(), 2.0 * qp.Identity(wires[0]), W()) - 1.5
    if not allow_nonpauli:
        return W()
    if r < 0.95:
        k = 1 if len(wires) < 2 or rng.random() < 0.6 else 2
        ws = [wires[int(i)] for i in rng.choice(len(wires), size=k, replace=False)]
        A = rng.normal(size=(2**k, 2**k)) + 1j * rng.normal(size=(2**k, 2**k))
        return qp.Hermitian(A + A.conj().T, wires=ws)
    k = 1 if len(wires) < 2 or rng.random() < 0.6 else 2
    ws = [wires[int(i)] for i in rng.choice(len(wires), size=k, replace=False)]
    return qp.Projector([int(x) for x in rng.integers(0, 2, size=k)], wires=ws)


def _is_hermitian_ok(tv, ob):
    try:
        M, ws = tv.obs_matrix(ob)
    except Exception:  # noqa: BLE001
        return False
    return np.allclose(M, M.conj().T, atol=1e-10)


def hostile_measurements(qp, rng, tv, wires, n=None, basis=None, kinds=("expval", "expval", "expval", "var", "probs"), allow_nonpauli=True):
    n = n or int(rng.integers(1, 6))
    ms = []
    while len(ms) < n:
        k = kinds[int(rng.integers(len(kinds)))]
        if k == "probs":
            m = int(rng.integers(1, len(wires) + 1))
            ms.append(qp.probs(wires=[wires[int(i)] for i in rng.choice(len(wires), size=m, replace=False)]))
            continue
        ob = hostile_obs(qp, rng, wires, basis, allow_nonpauli)
        if not _is_hermitian_ok(tv, ob):
            continue
        if k == "var":
            ms.append(qp.var(ob))
        else:
            ms.append(qp.expval(ob))
        if rng.random() < 0.15:
            ms.append(ms[-1] if rng.random() < 0.5 else qp.expval(ob))  # duplicated measurement
    return ms


def circuit_ops(qp, rng, g17, wires, batched=0):
    ops = g17.biased_ops(qp, rng, wires, int(rng.integers(1, 6)), {"plain": 4, "oneq": 2, "rot": 0.5}, max_w=min(3, len(wires)))
    ops = [o for o in ops if type(o).__name__ not in ("Adjoint2", "Pow2")] or [qp.Hadamard(wires[0])]
    if batched:
        for _ in range(int(rng.integers(1, 3))):
            r = rng.random()
            w = wires[int(rng.integers(len(wires)))]
            if r < 0.6:
                g = [qp.RX, qp.RY, qp.RZ, qp.PhaseShift][int(rng.integers(4))](rng.uniform(-3, 3, size=batched), wires=w)
            elif r < 0.8 and len(wires) >= 2:
                ws = [wires[int(i)] for i in rng.choice(len(wires), size=2, replace=False)]
                g = [qp.CRX, qp.IsingXX, qp.CRZ][int(rng.integers(3))](rng.uniform(-3, 3, size=batched), wires=ws)
            else:
                g = qp.Rot(rng.uniform(-3, 3, size=batched), float(rng.uniform(-3, 3)), rng.uniform(-3, 3, size=batched), wires=w)
            ops.insert(int(rng.integers(0, len(ops) + 1)), g)
    return ops


def basis_state_ops(qp, rng, wires):
    ops = []
    for _ in range(int(rng.integers(1, 7))):
        r = rng.random()
        if r < 0.5 or len(wires) < 2:
            ops.append(qp.PauliX(wires[int(rng.integers(len(wires)))]))
        elif r < 0.8:
            ops.append(qp.CNOT(wires=[wires[int(i)] for i in rng.choice(len(wires), size=2, replace=False)]))
        else:
            ops.append(qp.SWAP(wires=[wires[int(i)] for i in rng.choice(len(wires), size=2, replace=False)]))
    return ops


def run(ctx):
    import pennylane as qp

    from pv.gen import c17_circ as g17
    from pv.gen import circ as gen
    from pv.gen import num
    from pv.mon import c17_tv as tv

    warnings.filterwarnings("ignore")
    _v = ctx.violation

    def violation(monitor, message, case=None, mech=None, observed=None, expected=None):
        return _v(monitor, f"{message} [mech={mech}]", case=case, mech=mech, observed=observed, expected=expected)

    ctx.violation = violation
    dev = qp.device("default.qubit", seed=2024)
    V = Validator(ctx, qp, dev)
    tv.install_pure(ctx)
    tv.install(ctx, {n: V for n in NAMES})
    T = qp.transforms

    kinds = [("split_non_commuting", 34), ("split_non_commuting.ham", 12), ("split_non_commuting.shots", 8), ("split_non_commuting.samples", 8),
             ("split_to_single_terms", 12), ("diagonalize_measurements", 22), ("sign_expand", 5), ("broadcast_expand", 8), ("batch_params", 6),
             ("batch_input", 5), ("split_non_commuting.batched", 6)]
    import os
    only = [x for x in os.environ.get("PV_ONLY", "").split(",") if x]
    scale = 8 if ctx.quick else 220
    work = []
    for k, wgt in kinds:
        if only and k.split(".")[0] not in only and k not in only:
            continue
        work += [(k, j) for j in range(wgt * scale)]
    order = np.random.default_rng([ctx.seed, 20]).permutation(len(work))
    mine = ctx.my([work[int(i)] for i in order])

    for kind, j in mine:
        if not ctx.more():
            break
        idx = int(fingerprint(kind, j), 16) % (2**31)
        if ctx.only_case is not None and idx != ctx.only_case:
            continue
        ctx.case_index = idx
        rng = ctx.case_rng(idx)
        name = kind.split(".")[0]
        V.info = {"mode": "analytic", "device_too": rng.random() < 0.3}
        kw = {}
        try:
            nw = int(rng.integers(1, 5))
            wires = num.wire_labels(rng, nw)
            shots = None
            if kind == "split_non_commuting":
                ops = circuit_ops(qp, rng, g17, wires)
                ms = hostile_measurements(qp, rng, tv, wires)
                kw = {"grouping_strategy": ["default", "wires", "qwc", None][int(rng.integers(4))]} if rng.random() < 0.85 else {}
            elif kind == "split_non_commuting.batched":
                ops = circuit_ops(qp, rng, g17, wires, batched=int(rng.integers(1, 4)))
                ms = hostile_measurements(qp, rng, tv, wires, kinds=("expval", "expval", "var", "probs"))
                kw = {"grouping_strategy": ["default", "wires", "qwc", None][int(rng.integers(4))]}
            elif kind == "split_non_commuting.ham":
                ops = circuit_ops(qp, rng, g17, wires)
                n_t = int(rng.integers(1, 7))
                obs = [_word(qp, rng, wires) for _ in range(n_t)]
                if rng.random() < 0.4:
                    obs.insert(int(rng.integers(0, len(obs) + 1)), qp.Identity(wires[0]))
                if rng.random() < 0.3:
                    obs.append(obs[0])
                coeffs = [float(x) for x in rng.normal(size=len(obs))]
                r = rng.random()
                if r < 0.5:
                    H = qp.Hamiltonian(coeffs, obs)
                else:
                    H = qp.sum(*[c * o for c, o in zip(coeffs, obs)])
                if rng.random() < 0.5:
                    H.compute_grouping(grouping_type=["qwc", "commuting"][int(rng.integers(2))])
                    V.info["ham_grouped"] = True
                ms = [qp.expval(H)]
                kw = {"grouping_strategy": ["default", "wires", "qwc", None][int(rng.integers(4))]} if rng.random() < 0.7 else {}
                if rng.random() < 0.5:
                    shots = [int(rng.integers(10, 200)), (int(rng.integers(5, 50)), int(rng.integers(5, 50)))][int(rng.integers(2))]
                    if rng.random() < 0.7:
                        kw["shot_dist"] = ["uniform", "weighted", "weighted_random"][int(rng.integers(3))]
                        kw["seed"] = int(rng.integers(1000))
            elif kind == "split_non_commuting.shots":
                ops = circuit_ops(qp, rng, g17, wires)
                ms = hostile_measurements(qp, rng, tv, wires, kinds=("expval", "expval", "var", "probs"))
                shots = [(7, 9), (5, 5, 5), 11, ((3, 2), 8)][int(rng.integers(4))]
                kw = {"grouping_strategy": ["default", "wires", "qwc", None][int(rng.integers(4))]}
            elif kind == "split_non_commuting.samples":
                ops = basis_state_ops(qp, rng, wires)
                ms = []
                for _ in range(int(rng.integers(2, 5))):
                    r = rng.random()
                    sub = [wires[int(i)] for i in rng.choice(len(wires), size=int(rng.integers(1, len(wires) + 1)), replace=False)]
                    zword = qp.Z(sub[0])
                    for w in sub[1:]:
                        zword = zword @ qp.Z(w)
                    if r < 0.25:
                        ms.append(qp.sample(wires=sub))
                    elif r < 0.45:
                        ms.append(qp.counts(wires=sub))
                    elif r < 0.6:
                        ms.append(qp.sample(zword))
                    elif r < 0.7:
                        ms.append(qp.counts(zword))
                    elif r < 0.85:
                        ms.append(qp.expval(zword if rng.random() < 0.5 else qp.sum(0.5 * zword, 1.5 * qp.Identity(sub[0]), qp.Z(sub[-1]))))
                    else:
                        ms.append(qp.probs(wires=sub))
                shots = int(rng.integers(3, 12))
                V.info["mode"] = "samples"
                kw = {"grouping_strategy": ["default", "wires", "qwc", None][int(rng.integers(4))]}
            elif kind == "split_to_single_terms":
                bt = int(rng.integers(1, 4)) if rng.random() < 0.25 else 0
                ops = circuit_ops(qp, rng, g17, wires, batched=bt)
                ms = hostile_measurements(qp, rng, tv, wires, kinds=("expval", "expval", "expval", "var", "probs"))
                if rng.random() < 0.2:
                    shots = [(7, 9), (4, 4)][int(rng.integers(2))]
            elif kind == "diagonalize_measurements":
                ops = circuit_ops(qp, rng, g17, wires)
                commuting = rng.random() < 0.85
                basis = {w: "XYZ"[int(rng.integers(3))] for w in wires}
                r = rng.random()
                sup = [[], [qp.X], [qp.Y], [qp.X, qp.Y], [qp.Hadamard], [qp.X, qp.Z, qp.Identity], [qp.X, qp.Y, qp.Z, qp.Hadamard]][int(rng.integers(7))] if r < 0.5 else None
                ms = hostile_measurements(qp, rng, tv, wires, basis=basis if commuting else None, kinds=("expval", "expval", "var", "expval"), allow_nonpauli=False)
                if not commuting and rng.random() < 0.6:
                    # a set whose ONLY basis clash is Z against X / Y / Hadamard on one wire (everything else qubit-wise commuting):
                    # must be rejected with the documented ValueError, or - if accepted - still give the reference results
                    cw = wires[int(rng.integers(len(wires)))]
                    basis2 = dict(basis, **{cw: "Z"})
                    others = [w for w in wires if w != cw]
                    zfac = qp.Z(cw)
                    cfac = [qp.X, qp.Y, qp.Hadamard][int(rng.integers(3))](cw)
                    def _with(f):
                        if others and rng.random() < 0.5:
                            w2 = others[int(rng.integers(len(others)))]
                            return f @ getattr(qp, "Pauli" + basis2[w2])(w2)
                        return f
                    pair = [qp.expval(_with(zfac)) if rng.random() < 0.7 else qp.var(_with(zfac)), qp.expval(_with(cfac))]
                    if rng.random() < 0.5:
                        pair.reverse()
                    extra = [qp.expval(_word(qp, rng, others, basis2))] if others and rng.random() < 0.5 else []
                    ms = pair + extra
                    ctx.count("diag.z_clash_cases")
                if rng.random() < 0.3 and commuting:
                    # Hadamard observable on an otherwise unused-basis wire, and wire-only measurements on Z-basis wires
                    hw = wires[int(rng.integers(len(wires)))]
                    ms = [m for m in ms if hw not in m.wires] + [qp.expval(qp.Hadamard(hw))]
                hws = {w for m in ms if m.obs is not None and type(m.obs).__name__ == "Hadamard" for w in m.wires}
                zw = [w for w in wires if basis[w] == "Z" and commuting and w not in hws]
                if zw and rng.random() < 0.3:
                    ms.append(qp.probs(wires=zw))
                if sup is not None:
                    kw["supported_base_obs"] = sup
                elif rng.random() < 0.4:
                    kw["to_eigvals"] = True
                V.info["commuting"] = commuting
            elif kind == "sign_expand":
                ops = circuit_ops(qp, rng, g17, wires)
                basis = {w: "XYZ"[int(rng.integers(3))] for w in wires}
                terms = [float(rng.normal()) * _word(qp, rng, wires, basis) for _ in range(int(rng.integers(2, 5)))]
                if rng.random() < 0.3:
                    terms.append(float(rng.normal()) * qp.Identity(wires[0]))
                ms = [qp.expval(qp.sum(*terms))]
            elif kind == "broadcast_expand":
                bt = int(rng.integers(1, 5))
                ops = circuit_ops(qp, rng, g17, wires, batched=bt)
                ms = hostile_measurements(qp, rng, tv, wires, kinds=("expval", "var", "probs"))
                if rng.random() < 0.25:
                    shots = [(7, 9), (4, 4, 4)][int(rng.integers(2))]
            else:  # batch_params / batch_input
                bt = int(rng.integers(1, 5))
                ops = [o for o in circuit_ops(qp, rng, g17, wires) if not o.num_params] or [qp.Hadamard(wires[0])]
                flat = []
                nparam_ops = int(rng.integers(2, 5))
                for _ in range(nparam_ops):
                    w = wires[int(rng.integers(len(wires)))]
                    cls = [qp.RX, qp.RY, qp.RZ, qp.PhaseShift, qp.Rot][int(rng.integers(5))]
                    npar = 3 if cls is qp.Rot else 1
                    ops.insert(int(rng.integers(0, len(ops) + 1)), (cls, npar, w))
                # decide which flat parameter indices are batched
                total = sum(o[1] for o in ops if isinstance(o, tuple))
                if name == "batch_params":
                    allop = rng.random() < 0.5
                    chosen = set(range(total)) if allop else set(int(i) for i in rng.choice(total, size=int(rng.integers(1, total + 1)), replace=False))
                    kw = {"all_operations": True} if allop else {}
                else:
                    chosen = set(int(i) for i in rng.choice(total, size=int(rng.integers(1, total + 1)), replace=False))
                built, k = [], 0
                for o in ops:
                    if isinstance(o, tuple):
                        cls, npar, w = o
                        ps = []
                        for _ in range(npar):
                            ps.append(rng.uniform(-3, 3, size=bt) if k in chosen else float(rng.uniform(-3, 3)))
                            k += 1
                        built.append(cls(*ps, wires=w))
                    else:
                        built.append(o)
                ops = built
                ms = hostile_measurements(qp, rng, tv, wires, kinds=("expval", "var", "probs"), allow_nonpauli=False, n=int(rng.integers(1, 4)))
                ms = [m for m in ms if m.obs is None or type(m.obs).__name__ not in ("LinearCombination", "Hamiltonian", "Sum", "SProd")] or [qp.expval(qp.Z(wires[0]))]
                V.info.update(batch=bt, only_idx=chosen)
            tape = qp.tape.QuantumScript(ops, ms, shots=shots)
            if name in ("batch_params", "batch_input"):
                chosen = V.info["only_idx"]
                if name == "batch_params" and not kw.get("all_operations"):
                    tape.trainable_params = sorted(chosen)
                if name == "batch_input":
                    allp = len(tape.get_parameters(trainable_only=False))
                    tape.trainable_params = [i for i in range(allp) if i not in chosen]
                    kw = {"argnum": sorted(chosen)}
        except Exception as e:  # noqa: BLE001
            import traceback
            ctx.inconclusive_case(f"generator failed for {kind}: {type(e).__name__}: {e} @ " + "".join(traceback.format_tb(e.__traceback__)[-1:])[-200:])
            continue
        desc = {"kind": kind, "options": {k: repr(v)[:120] for k, v in kw.items()}, "tape": gen.describe(tape)}
        V.info["desc"] = {"kind": kind, "options": desc["options"]}
        fp = fingerprint(kind, repr(sorted(desc["options"].items())), gen.tape_struct(tape))
        tr = getattr(T, name) if hasattr(T, name) else getattr(qp, name)
        ctx.ev("pipeline.accepts")
        try:
            tapes, fn = tr(tape, **kw)
        except Exception as e:  # noqa: BLE001
            kindr = _documented_rejection(name, e, tape, V.info)
            if kindr:
                ctx.reject(f"{name}:{kindr}")
                ctx.case(fp, nontrivial=False, cls=kind)
            else:
                import traceback
                tb = traceback.extract_tb(e.__traceback__)
                where = next((f"{fr.filename.split('/pennylane/')[-1]}:{fr.name}" for fr in reversed(tb) if "/pennylane/" in fr.filename), "?")
                ctx.case(fp, nontrivial=True, cls=kind, sample=desc)
                ctx.violation("pipeline.accepts", f"{name} raised {type(e).__name__}: {str(e)[:300]} (at {where})", case=desc,
                              mech=f"raises:{name}:{type(e).__name__}:{where.split(':')[-1]}")
            continue
        changed = len(tapes) != 1 or gen.tape_struct(tapes[0]) != gen.tape_struct(tape)
        ctx.case(fp, nontrivial=bool(changed), cls=kind, sample={**desc, "n_out": len(tapes)})


def _documented_rejection(name, e, tape, info):
    t, msg = type(e).__name__, str(e)
    if name in ("split_non_commuting", "split_to_single_terms") and t == "RuntimeError" and "Cannot split up terms in sums" in msg:
        return "non-expval-of-sum"
    if name == "diagonalize_measurements" and t == "ValueError" and ("commut" in msg.lower()):
        return "non-commuting" if not _qwc(tape.measurements) else None
    if name == "diagonalize_measurements" and t == "ValueError" and "to_eigvals" in msg:
        return "eigvals-option"
    if name == "sign_expand" and t == "ValueError" and ("jointly measurable" in msg or "must end in" in msg):
        return "not-jointly-measurable"
    return None


def _qwc(measurements):
    """Harness's own qubit-wise-commutation test of a measurement list: at most one non-identity single-qubit basis per wire
    (wire-only measurements count as Z)."""
    per = {}

    def leaves(o):
        if hasattr(o, "operands"):
            for x in o.operands:
                yield from leaves(x)
        elif type(o).__name__ in ("LinearCombination", "Hamiltonian"):
            for x in o.terms()[1]:
                yield from leaves(x)
        elif getattr(o, "base", None) is not None:
            yield from leaves(o.base)
        else:
            yield o
    for m in measurements:
        if m.obs is None:
            for w in m.wires:
                per.setdefault(w, set()).add("Z")
            continue
        for lf in leaves(m.obs):
            n = {"PauliX": "X", "PauliY": "Y", "PauliZ": "Z", "Hadamard": "H", "Identity": None}.get(type(lf).__name__, "?" + type(lf).__name__)
            if n is None:
                continue
            for w in lf.wires:
                per.setdefault(w, set()).add(n)
    return all(len(v) <= 1 for v in per.values())
