"""C12 — The decompose transform reaches the target gate set without changing the circuit.

Translation validation of every program the real ``qp.transforms.decompose`` (graph-based system enabled and disabled) and
``qp.devices.preprocess.decompose`` return; post-condition on ``Transform.tape_transform``:

* ``decomp.membership``  every output operator is in the target gate set (harness's own name canonicalisation of the documented
                         aliases and symbolic names ``Adjoint(X)`` / ``C(X)`` / ``Pow(X)``) or satisfies the custom stopping
                         condition; Allocate/Deallocate of work wires are allowed; in the non-graph system an operator without
                         decomposition may stay *only together with the documented UserWarning* (graph system: only GlobalPhase
                         with its documented warning); not demanded for ``max_expansion`` / ``strict=False``.
* ``decomp.equiv``       the output implements the input: reference unitaries equal INCLUDING the global phase (decompositions are
                         exact); allocated work wires start in |0>, must end in |0>, and the action on the circuit wires must be the
                         input unitary.
* ``decomp.work_wires``  number of simultaneously allocated work wires never exceeds ``num_work_wires``.
* ``decomp.resources``   graph system, single-operator tapes: the ``DecompGraphSolution`` actually used by the transform (captured by
                         wrapping the module-level ``_construct_and_solve_decomp_graph``) reports ``resource_estimate(op)``; if every rule
                         on the chosen path is ``exact_resources`` the emitted circuit matches it gate for gate (by canonical type name);
                         paths with an inexact rule are only counted (the statement makes no claim for them).
* ``decomp.accepts``     only decomposition errors (DecompositionError / DecompositionUndefinedError / the documented RecursionError
                         "Reached recursion limit…" / the ``error=`` type of the preprocess transform) may be raised.
"""
import sys
import warnings

import numpy as np

from pv.ctx import fingerprint

META = {
    "id": "C12",
    "level": "translation_validation",
    "technique": "translation validation of every decomposed program: gate-set membership post-condition + reference-simulator equivalence "
                 "including global phase and work wires + comparison of the captured graph solution's resource estimate with the emitted circuit",
    "level_text": "Each run decomposes generated circuits (named gates, adjoint/pow/ctrl forms with arbitrary control values, multi-controlled "
                  "gates, PauliRot/MultiRZ, QubitUnitary, small templates) into predefined and random gate sets with the graph system on and "
                  "off, with work-wire budgets, fixed/alternative rules from the registry, custom stopping conditions and max_expansion, and "
                  "validates every produced program against its source with an independent simulator.",
    "level_note": "Trusted: numpy, the documented gate table; untabulated operators (templates, QubitUnitary-controlled, fractional powers) fall "
                  "back to qp.matrix of the *input* operator, so for those the check is a consistency check between the operator's matrix and its "
                  "decomposition (fraction of independent gates reported). Outputs containing mid-circuit measurements (measurement-based "
                  "uncomputation rules) have no reference here and are counted inconclusive. Graph toggle is restored in finally blocks.",
    "shards": {"quick": 4, "thorough": 16},
    "budget_s": {"quick": 80, "thorough": 450},
    "min_evals": {"quick": 400, "thorough": 4000},
    "deciding": ["decomp.membership", "decomp.equiv", "decomp.accepts"],
    "rule": "case = (circuit, gate set, graph on/off, options); distinct = fingerprint of (tape structure, sorted gate set, options); "
            "non-trivial = at least one input operator was outside the target set and the transform returned a decomposed program",
    "assumptions": ["gate-set aliases as documented in pennylane.decomposition (X,Y,Z,H,I; Adjoint()/C()/Controlled()/Pow())"],
    "allow_rejections": True,
    "max_inconclusive_frac": 0.35,
}

TOL = 1e-8
ALIASES = {"X": "PauliX", "Y": "PauliY", "Z": "PauliZ", "I": "Identity", "H": "Hadamard", "CPhase": "ControlledPhaseShift",
           "MidMeasure": "MidMeasureMP", "measure": "MidMeasureMP"}


def canon(x):
    """Harness's own canonical name of a gate-set entry / operator (documented alias rules)."""
    import re
    if isinstance(x, type):
        x = x.__name__
    elif not isinstance(x, str):
        x = x.name
    m = re.fullmatch(r"(C|Controlled|Adjoint|Pow|Conditional)\((.+)\)", x)
    if m:
        head = "C" if m.group(1) in ("C", "Controlled") else m.group(1)
        return f"{head}({canon(m.group(2))})"
    return ALIASES.get(x, x)


class Validator:
    def __init__(self, ctx, qp):
        self.ctx, self.qp = ctx, qp
        self.info = {}
        self.captured = []

    def witness(self, tape, new, extra=None):
        from pv.gen import circ
        i = self.info
        w = {"input": circ.describe(tape), "output_ops": [repr(o)[:80] for o in (new.operations if new is not None else [])][:40],
             "gate_set": sorted(i.get("gset", []))[:40], "graph": i.get("graph"), "options": i.get("options"), "api": i.get("api")}
        if extra:
            w.update(extra)
        return w

    def in_target(self, o):
        i = self.info
        if canon(o) in i["gset"]:
            return True
        if type(o).__name__ == "Conditional" and getattr(o, "base", None) is not None:
            return self.in_target(o.base)  # documented: a Conditional is accepted when its base operator is
        stop = i.get("stop")
        try:
            return bool(stop and stop(o))
        except Exception:  # noqa: BLE001
            return False

    def __call__(self, name, tape, args, kwargs, out, depth):
        from pv.mon import c17_tv as tv
        from pv.ref import sv
        ctx = self.ctx
        if depth or not self.info or not (isinstance(out, tuple) and len(out) == 2):
            return
        tapes, fn = out
        new = tapes[0]
        ctx.count("programs")
        info = self.info
        ops_in, ops_out = list(tape.operations), list(new.operations)
        # ------------------------------------------------------------ membership
        if info.get("demand_membership", True):
            ctx.ev("decomp.membership")
            warned = " || ".join(str(w.message) for w in info.get("warnings", []))
            for k, o in enumerate(ops_out):
                tn = type(o).__name__
                if tn in ("Allocate", "Deallocate"):
                    continue
                if self.in_target(o):
                    continue
                if info.get("skip_first_prep") and k == 0 and o is ops_in[0]:
                    continue
                if not info["graph"] and f"Operator {o.name} does not define a decomposition" in warned:
                    ctx.count("left_with_documented_warning")
                    continue
                if info["graph"] and tn == "GlobalPhase" and "GlobalPhase is not assumed to have a decomposition" in warned:
                    ctx.count("left_with_documented_warning")
                    continue
                ctx.violation("decomp.membership", f"output operator #{k} {o.name} is neither in the target gate set nor accepted by the stopping "
                                                   f"condition, and no documented warning was issued for it",
                              case=self.witness(tape, new, {"op_index": k}), mech=f"not-in-gate-set:{'graph' if info['graph'] else 'legacy'}:{canon(o)}")
                return
        # ------------------------------------------------------------ work wires
        budget = info.get("num_work_wires", 0)
        live, peak, dyn = set(), 0, []
        for o in ops_out:
            tn = type(o).__name__
            if tn == "Allocate":
                live |= set(o.wires)
                dyn += [w for w in o.wires if w not in dyn]
                peak = max(peak, len(live))
            elif tn == "Deallocate":
                live -= set(o.wires)
        if dyn:
            ctx.ev("decomp.work_wires")
            ctx.count("programs_with_work_wires")
            if budget is not None and peak > budget:
                ctx.violation("decomp.work_wires", f"{peak} work wires allocated simultaneously with num_work_wires={budget}",
                              case=self.witness(tape, new), mech="work-wire-budget")
                return
        # ------------------------------------------------------------ equivalence (exact, work wires from and to |0>)
        W = list(tape.wires)
        extra = [w for o in ops_out for w in o.wires if w not in W]
        A = list(W)
        for w in extra:
            if w not in A:
                A.append(w)
        if len(A) > 10:
            ctx.inconclusive_case(f"{len(A)} wires")
            return
        if any(type(o).__name__ in ("MidMeasureMP", "MidMeasure", "Conditional", "PauliMeasure") for o in ops_out):
            ctx.count("outputs_with_mcm")
            ctx.inconclusive_case("output contains mid-circuit measurements (no reference)")
            return
        try:
            g_in, a1, b1 = tv.gate_list([o for o in ops_in])
            g_out, a2, b2 = tv.gate_list([o for o in ops_out if type(o).__name__ not in ("Allocate", "Deallocate")])
        except tv.NoRef as e:
            ctx.inconclusive_case(f"no reference: {e}")
            return
        ctx.count("gates_total", b1 + b2)
        ctx.count("gates_independent", a1 + a2)
        U_in = sv.unitary(g_in, W)
        nW, nA = len(W), len(A)
        T = np.zeros([2] * nA + [2**nW], dtype=complex)
        for x in range(2**nW):
            bits = [int(c) for c in format(x, f"0{nW}b")] if nW else []
            T[tuple(bits + [0] * (nA - nW) + [x])] = 1.0
        for M, ws in g_out:
            T = sv.apply_tensor(T, M, [A.index(w) for w in ws])
        V = T[(slice(None),) * nW + (0,) * (nA - nW) + (slice(None),)].reshape(2**nW, 2**nW)
        ctx.ev("decomp.equiv")
        leak = abs(np.linalg.norm(V) ** 2 - 2**nW) / 2**nW
        d = tv.udist_exact(V, U_in)
        if leak > TOL:
            ctx.violation("decomp.equiv", f"work / extra wires {[str(w) for w in A[nW:]]} do not return to |0> (weight outside: {leak:.3e})",
                          case=self.witness(tape, new), mech="work-wire-not-restored")
            return
        if not d <= TOL:
            dph = tv.udist(V, U_in)
            culprit = self._culprit(tape, new, tv, sv)
            if dph <= TOL:
                mech = f"global-phase:{'graph' if info['graph'] else 'legacy'}:{culprit}"
                msg = f"output equals the input only up to a global phase (exact distance {d:.3e}); offending input operator: {culprit}"
            else:
                mech = f"semantics:{'graph' if info['graph'] else 'legacy'}:{culprit}"
                msg = f"output unitary differs from the input's (distance {d:.3e}, up to phase {dph:.3e}); offending input operator: {culprit}"
            ctx.violation("decomp.equiv", msg, case=self.witness(tape, new), mech=mech, observed=d)
            return
        # ------------------------------------------------------------ resource estimate of the captured graph solution
        if (info["graph"] and len(ops_in) == 1 and self.captured and info.get("demand_membership", True) and not self.in_target(ops_in[0])
                and info.get("stop") is None and "GlobalPhase" in info["gset"]):
            self._resources(tape, new, ops_in[0], ops_out)

    def _culprit(self, tape, new, tv, sv):
        """Which input operator's decomposition is wrong?  Decompose each input operator alone with the same configuration
        (monitors off) and compare; returns its canonical name (or '?')."""
        info = self.info
        redo = info.get("redo")
        if redo is None:
            return "?"
        seen = set()
        for o in tape.operations:
            n = canon(o)
            if n in seen or self.in_target(o):
                continue
            seen.add(n)
            try:
                with tv.monitors_off():
                    t1 = self.qp.tape.QuantumScript([o], [])
                    (n1,), _ = redo(t1)
                ws = list(o.wires)
                outs = [x for x in n1.operations if type(x).__name__ not in ("Allocate", "Deallocate")]
                if any(w not in ws for x in outs for w in x.wires):
                    continue
                U1 = sv.unitary(tv.gate_list([o])[0], ws)
                U2 = sv.unitary(tv.gate_list(outs)[0], ws)
                if tv.udist_exact(U2, U1) > TOL:
                    return n
            except Exception:  # noqa: BLE001
                continue
        return "?"

    def _resources(self, tape, new, op, ops_out):
        from pennylane.decomposition.utils import _get_decomp_args
        ctx = self.ctx
        sol = self.captured[-1]
        nww = getattr(sol, "num_work_wires", self.info.get("num_work_wires", 0))
        try:
            if not sol.is_solved_for(op, nww):
                return
            est = sol.resource_estimate(op, nww)
        except Exception as e:  # noqa: BLE001
            ctx.count("resource_estimate_unavailable")
            return
        est_counts = {}
        for k, v in est.gate_counts.items():
            est_counts[canon(k.name)] = est_counts.get(canon(k.name), 0) + int(v)
        got = {}
        for o in ops_out:
            if type(o).__name__ in ("Allocate", "Deallocate"):
                continue
            got[canon(o)] = got.get(canon(o), 0) + 1

        def exact_path(o, budget, depth=0):
            if self.in_target(o) or depth > 12:
                return True
            if not sol.is_solved_for(o, budget):
                return None
            rule = sol.decomposition(o, budget)
            if not getattr(rule, "exact_resources", True):
                return False
            params, a, kw = _get_decomp_args(o)
            with self.qp.queuing.AnnotatedQueue() as q:
                rule(*a, **kw)
            b2 = budget
            if budget is not None:
                try:
                    b2 = budget - rule.get_work_wire_spec(**params).total
                except Exception:  # noqa: BLE001
                    pass
            res = True
            for s in q.queue:
                if type(s).__name__ in ("Allocate", "Deallocate"):
                    continue
                r = exact_path(s, b2, depth + 1)
                if r is None:
                    return None
                res = res and r
            return res
        try:
            ex = exact_path(op, nww)
        except Exception:  # noqa: BLE001
            ex = None
        ctx.ev("decomp.resources")
        est_counts = {k: v for k, v in est_counts.items() if v}
        if ex:
            ctx.count("resources_exact_paths")
            if got != est_counts:
                diff = {k: (got.get(k, 0), est_counts.get(k, 0)) for k in set(got) | set(est_counts) if got.get(k, 0) != est_counts.get(k, 0)}
                mech = f"resource-estimate:{canon(op)}"
                try:
                    # mechanism: flip_control_adjoint declares Adjoint(qp.ctrl(<abstract base>, control_values=<abstract>)), which is never
                    # lowered to the custom controlled class (ControlledPhaseShift, CH, Toffoli, ...) that the rule emits at run time, so
                    # the graph prices a different node than the one that is applied: the estimate of the emitted child differs.
                    rule = sol.decomposition(op, nww)
                    if getattr(rule, "name", "") == "flip_control_adjoint":
                        _, a, kw = _get_decomp_args(op)
                        with self.qp.queuing.AnnotatedQueue() as q:
                            rule(*a, **kw)
                        kids = [s for s in q.queue if type(s).__name__ not in ("Allocate", "Deallocate")]
                        if len(kids) == 1 and sol.is_solved_for(kids[0], nww):
                            kid_est = {}
                            for k, v in sol.resource_estimate(kids[0], nww).gate_counts.items():
                                if v:
                                    kid_est[canon(k.name)] = kid_est.get(canon(k.name), 0) + int(v)
                            if kid_est == got and kid_est != est_counts:
                                mech = "resource-estimate:flip_control_adjoint:declared-rep-not-lowered"
                except Exception:  # noqa: BLE001
                    pass
                ctx.violation("decomp.resources", f"{op.name}: emitted gate counts differ from the graph solution's resource estimate although every rule on the "
                                                  f"path declares exact resources: (emitted, estimated) = {diff}",
                              case=self.witness(tape, new, {"emitted": got, "estimated": est_counts}), mech=mech)
        elif ex is False:
            # the statement makes no claim when a rule on the path declares inexact resources: observability only
            ctx.count("resources_inexact_paths")
            if set(got) - set(est_counts):
                ctx.count("resources_inexact_path_type_mismatch")
                ctx.note_add("inexact_path_type_mismatch", {"op": canon(op), "emitted_not_estimated": sorted(set(got) - set(est_counts))})


# ----------------------------------------------------------------------------- workload
UNIVERSAL_POOL = ["RX", "RY", "RZ", "CNOT", "CZ", "Hadamard", "S", "T", "PhaseShift", "Rot", "U3", "SX", "PauliX", "PauliY", "PauliZ", "Toffoli",
                  "IsingXX", "ControlledPhaseShift", "CRX", "CRZ", "SWAP", "MultiRZ", "PauliRot", "Adjoint(S)", "Adjoint(T)", "CY", "CH", "ISWAP",
                  "Identity", "C(S)", "MultiControlledX", "U2", "U1", "CRY"]


def gate_sets(qp, rng, graph=True):
    from pennylane.decomposition import gate_sets as GS
    r = rng.random()
    if not graph and rng.random() < 0.6:
        # the non-graph system only follows each operator's single default decomposition: mostly use sets it can reach
        r = [0.2, 0.4, 0.5][int(rng.integers(3))]
    if r < 0.12:
        return dict(GS.CLIFFORD_T_PLUS_RZ), "CLIFFORD_T_PLUS_RZ"
    if r < 0.24:
        return set(GS.ROTATIONS_PLUS_CNOT), "ROTATIONS_PLUS_CNOT"
    if r < 0.3:
        return set(GS.MBQC_GATES), "MBQC_GATES"
    if r < 0.38:
        return {"RX", "RZ", "CZ", "GlobalPhase"}, "rx-rz-cz"
    if r < 0.46:
        return {qp.RX, qp.RY, qp.RZ, qp.CNOT, qp.GlobalPhase}, "types-rot-cnot"
    if r < 0.52:
        return {"Rot", "CNOT", "GlobalPhase"}, "rot-cnot"
    if r < 0.58:
        return {"H", "T", "CNOT", "S", "X", "Z", "Adjoint(T)", "Adjoint(S)", "GlobalPhase", "RZ"}, "alias-clifford-rz"
    if r < 0.64:
        return {"U3", "CNOT", "GlobalPhase"}, "u3-cnot"
    if r < 0.7:
        return {"IsingXX", "RX", "RY", "RZ", "GlobalPhase"}, "ising"
    if r < 0.76:
        return {"Toffoli", "CNOT", "H", "T", "Adjoint(T)", "RZ", "RY", "GlobalPhase", "X"}, "toffoli"
    if r < 0.82:
        return {qp.RX: 1.0, qp.RY: 1.0, qp.RZ: 1.0, qp.CNOT: 5.0, qp.CZ: 2.0, qp.GlobalPhase: 0.0, qp.H: 0.5}, "weighted"
    k = int(rng.integers(3, 9))
    names = [str(x) for x in rng.choice(UNIVERSAL_POOL, size=k, replace=False)]
    if rng.random() < 0.8:
        names.append("GlobalPhase")
    if rng.random() < 0.6 and not ({"RX", "RY", "RZ", "Rot", "U3"} & set(names)):
        names += ["RZ", "RY"]
    if rng.random() < 0.6 and not ({"CNOT", "CZ", "IsingXX"} & set(names)):
        names.append("CNOT")
    return set(names), "random"


def circuit(qp, rng, g17, gen, wires):
    from pv.ref import sv
    n = len(wires)
    ops = []
    for _ in range(int(rng.integers(1, 7))):
        r = rng.random()
        if r < 0.45:
            ops.append(g17.any_gate(qp, rng, wires, max_w=min(3, n)))
        elif r < 0.6:
            ops.append(g17.one_q(qp, rng, g17.pick(rng, wires)))
        elif r < 0.75 and n >= 2:
            ops.append(g17.controlled_gate(qp, rng, wires, max_w=min(4, n)))
        elif r < 0.8:
            k = int(rng.integers(1, min(3, n) + 1))
            ws = g17.some_wires(rng, wires, k)
            word = "".join(rng.choice(list("XYZ"), size=k)) if rng.random() < 0.8 else "".join(rng.choice(list("XYZI"), size=k))
            if set(word) == {"I"}:
                word = "Z" * k
            ops.append(qp.PauliRot(gen.num.angle(rng), word, wires=ws))
        elif r < 0.84:
            ops.append(qp.MultiRZ(gen.num.angle(rng), wires=g17.some_wires(rng, wires, int(rng.integers(1, min(3, n) + 1)))))
        elif r < 0.88:
            k = 1 if n < 2 or rng.random() < 0.6 else 2
            ops.append(qp.QubitUnitary(sv.haar_unitary(rng, 2**k), wires=g17.some_wires(rng, wires, k)))
        elif r < 0.9:
            k = int(rng.integers(1, min(2, n) + 1))
            ops.append(qp.DiagonalQubitUnitary(np.exp(1j * rng.uniform(-3, 3, size=2**k)), wires=g17.some_wires(rng, wires, k)))
        elif r < 0.93 and n >= 2:
            g = g17.any_gate(qp, rng, wires, ["CNOT", "CRX", "IsingXY", "SWAP", "CZ", "ISWAP", "CRot", "SISWAP"], 2)
            ops.append(qp.adjoint(g) if rng.random() < 0.5 else qp.pow(g, int(rng.integers(2, 4))))
        elif r < 0.94 and n >= 3:
            ws = g17.some_wires(rng, wires, 3)
            ops.append(qp.ctrl(g17.any_gate(qp, rng, ws[1:], ["SWAP", "IsingXX", "CRZ", "CNOT", "CZ"], 2), control=ws[0], control_values=[int(rng.integers(2))]))
        elif r < 0.955 and n >= 2:
            # nested symbolic forms with non-trivial control values: ctrl(adjoint(U)), ctrl(pow(U)), adjoint(ctrl(U)) (generated rules that
            # rewrite one nesting into the other must carry the control values along)
            nc = 1 if n < 3 or rng.random() < 0.5 else 2
            ws = g17.some_wires(rng, wires, nc + 1)
            base = g17.gate(qp, rng, g17.pick(rng, ["S", "T", "SX", "RX", "RY", "PhaseShift", "Rot", "Hadamard"]), [ws[-1]])
            cv = [int(b) for b in rng.integers(0, 2, size=nc)]
            form = int(rng.integers(3))
            if form == 0:
                ops.append(qp.ctrl(qp.adjoint(base), control=ws[:-1], control_values=cv))
            elif form == 1:
                ops.append(qp.ctrl(qp.pow(base, int(rng.integers(2, 4))), control=ws[:-1], control_values=cv))
            else:
                ops.append(qp.adjoint(qp.ctrl(base, control=ws[:-1], control_values=cv)))
        elif r < 0.97:
            ops.append(qp.GlobalPhase(gen.num.angle(rng)))
        elif n >= 2:
            k = int(rng.integers(2, min(3, n) + 1))
            ws = g17.some_wires(rng, wires, k)
            t = int(rng.integers(3))
            if t == 0:
                ops.append(qp.QFT(wires=ws))
            elif t == 1:
                ops.append(qp.BasicEntanglerLayers(rng.uniform(-3, 3, size=(1, k)), wires=ws))
            else:
                ops.append(qp.AngleEmbedding(rng.uniform(-3, 3, size=k), wires=ws, rotation="XYZ"[int(rng.integers(3))]))
    return ops or [qp.Hadamard(wires[0])]


_CUSTOM = {}


def custom_rules(qp):
    """A few exact user rules (documented usage: quantum functions decorated with register_resources)."""
    if _CUSTOM:
        return _CUSTOM

    @qp.register_resources({qp.H: 2, qp.CZ: 1})
    def pv_cnot(wires, **__):
        qp.H(wires=wires[1])
        qp.CZ(wires=wires)
        qp.H(wires=wires[1])

    @qp.register_resources({qp.H: 2, qp.CNOT: 1})
    def pv_cz(wires, **__):
        qp.H(wires=wires[1])
        qp.CNOT(wires=wires)
        qp.H(wires=wires[1])

    @qp.register_resources({qp.CNOT: 3})
    def pv_swap(wires, **__):
        qp.CNOT(wires=[wires[0], wires[1]])
        qp.CNOT(wires=[wires[1], wires[0]])
        qp.CNOT(wires=[wires[0], wires[1]])

    @qp.register_resources({qp.RZ: 2, qp.RX: 1, qp.GlobalPhase: 1})
    def pv_h(wires, **__):
        qp.RZ(np.pi / 2, wires=wires)
        qp.RX(np.pi / 2, wires=wires)
        qp.RZ(np.pi / 2, wires=wires)
        qp.GlobalPhase(-np.pi / 2)

    @qp.register_resources({qp.CNOT: 2, qp.RZ: 1})
    def pv_isingzz(phi, wires, **__):
        qp.CNOT(wires=wires)
        qp.RZ(phi, wires=wires[1])
        qp.CNOT(wires=wires)

    _CUSTOM.update({qp.CNOT: pv_cnot, qp.CZ: pv_cz, qp.SWAP: pv_swap, qp.Hadamard: pv_h, qp.IsingZZ: pv_isingzz})
    return _CUSTOM


def single_op(qp, rng, g17, gen, wires):
    n = len(wires)
    r = rng.random()
    if r < 0.5:
        return [g17.any_gate(qp, rng, wires, max_w=min(3, n))]
    if r < 0.75 and n >= 2:
        return [g17.controlled_gate(qp, rng, wires, max_w=min(4, n))]
    if r < 0.85:
        return [g17.one_q(qp, rng, g17.pick(rng, wires))]
    k = int(rng.integers(1, min(3, n) + 1))
    return [qp.PauliRot(gen.num.angle(rng), "".join(rng.choice(list("XYZ"), size=k)), wires=g17.some_wires(rng, wires, k))]


def run(ctx):
    import pennylane as qp
    from pennylane.exceptions import DecompositionError

    from pv.gen import c17_circ as g17
    from pv.gen import circ as gen
    from pv.gen import num
    from pv.mon import c17_tv as tv

    gen.num = num
    _v = ctx.violation

    def violation(monitor, message, case=None, mech=None, observed=None, expected=None):
        return _v(monitor, f"{message} [mech={mech}]", case=case, mech=mech, observed=observed, expected=expected)

    ctx.violation = violation
    V = Validator(ctx, qp)
    tv.install_pure(ctx)
    tv.install(ctx, {"pennylane.transforms.decompose:decompose": V, "pennylane.devices.preprocess:decompose": V})
    # capture the DecompGraphSolution the transform really uses
    Dmod = sys.modules["pennylane.transforms.decompose"]
    orig_solve = Dmod._construct_and_solve_decomp_graph

    def capturing(*a, **k):
        sol = orig_solve(*a, **k)
        V.captured.append(sol)
        return sol

    Dmod._construct_and_solve_decomp_graph = capturing
    import pennylane.devices.preprocess as P
    if getattr(P, "_construct_and_solve_decomp_graph", None) is orig_solve:
        P._construct_and_solve_decomp_graph = capturing

    N = ctx.n(640, 40000)
    import os
    only = os.environ.get("PV_ONLY", "")
    for j in range(N):
        if not ctx.more():
            break
        idx = j * ctx.nshards + ctx.shard
        if ctx.only_case is not None and idx != ctx.only_case:
            continue
        ctx.case_index = idx
        rng = ctx.case_rng(idx)
        V.info = {}
        V.captured = []
        try:
            api = "preprocess" if rng.random() < 0.15 else "transform"
            if only and api not in only and only in ("preprocess", "transform"):
                continue
            nw = int(rng.integers(1, 6))
            wires = num.wire_labels(rng, nw)
            single = rng.random() < 0.3
            workwires = api == "transform" and rng.random() < 0.14
            if workwires:
                # operators whose rules can borrow work wires: multi-controlled gates with >= 3 controls, Toffoli-based target sets
                nw = int(rng.integers(4, 7))
                wires = num.wire_labels(rng, nw)
                k = int(rng.integers(3, nw))
                ws = g17.some_wires(rng, wires, k + 1)
                cv = g17.ctrl_values(rng, k, 0.5)
                r = rng.random()
                if r < 0.6:
                    ops = [qp.MultiControlledX(wires=ws, control_values=cv)]
                elif r < 0.8:
                    ops = [qp.ctrl(g17.gate(qp, rng, g17.pick(rng, ["PauliZ", "S", "RX", "PhaseShift", "Hadamard", "PauliY"]), [ws[-1]]), control=ws[:-1], control_values=cv)]
                else:
                    ops = [qp.MultiControlledX(wires=ws, control_values=cv), g17.one_q(qp, rng, g17.pick(rng, wires), rich=False),
                           qp.MultiControlledX(wires=g17.some_wires(rng, wires, 4))]
            else:
                ops = single_op(qp, rng, g17, gen, wires) if single else circuit(qp, rng, g17, gen, wires)
            tape = qp.tape.QuantumScript(ops, [qp.expval(qp.Z(ops[0].wires[0] if len(ops[0].wires) else wires[0]))])
            graph = bool(rng.random() < 0.55) or workwires
            gs, gs_name = gate_sets(qp, rng, graph)
            if workwires:
                gs, gs_name = [({"Toffoli", "CNOT", "X", "H", "T", "Adjoint(T)", "S", "Adjoint(S)", "RZ", "RY", "RX", "GlobalPhase", "CZ"}, "ww-toffoli"),
                               ({"Toffoli", "CNOT", "RX", "RY", "RZ", "GlobalPhase"}, "ww-toffoli-rot"),
                               ({"TemporaryAND", "Adjoint(TemporaryAND)", "Toffoli", "CNOT", "X", "H", "T", "Adjoint(T)", "S", "Adjoint(S)", "RZ", "RY", "GlobalPhase", "CZ", "MidMeasureMP"}, "ww-elbow"),
                               ]["012".index(str(int(rng.integers(3))))]
            if isinstance(gs, dict) and not graph and gs_name == "weighted":
                gs = set(gs)
            gset = {canon(x) for x in gs}
            opts = {}
            stop = None
            if rng.random() < 0.15:
                kind = int(rng.integers(3))
                if kind == 0:
                    stop = lambda o: len(o.wires) <= 1 and o.has_matrix  # noqa: E731
                    opts["stopping_condition"] = "1q"
                elif kind == 1:
                    stop = lambda o: o.name in ("Toffoli", "CCZ", "MultiControlledX", "SWAP")  # noqa: E731
                    opts["stopping_condition"] = "named"
                else:
                    stop = lambda o: type(o).__name__ in ("ControlledOp2", "ControlledOp") and len(o.control_wires) == 1  # noqa: E731
                    opts["stopping_condition"] = "single-controlled"
            max_exp = None
            if rng.random() < 0.1:
                max_exp = int(rng.integers(1, 3))
                opts["max_expansion"] = max_exp
            strict = True
            if rng.random() < 0.06:
                strict = False
                opts["strict"] = False
            nww = 0
            if graph and (rng.random() < 0.5 or workwires):
                nww = [0, 1, 2, None, 3, 1][int(rng.integers(6 if workwires else 4))]
                opts["num_work_wires"] = nww
                if rng.random() < 0.3:
                    opts["minimize_work_wires"] = True
            fixed = alt = None
            if graph and rng.random() < 0.25:
                # a rule from the registry as fixed / alternative decomposition of one of the circuit's operator types
                cands = [o for o in ops if type(o).__name__ in gen.NAMED and canon(o) not in gset]
                if cands:
                    o = cands[int(rng.integers(len(cands)))]
                    rules = list(qp.list_decomps(type(o)))
                    if rules:
                        rule = rules[int(rng.integers(len(rules)))]
                        fixed = {type(o): rule}
                        opts["fixed_decomps"] = f"{type(o).__name__}:{getattr(rule, '__name__', getattr(rule, 'name', '?'))}"
            if graph and rng.random() < 0.2:
                cr = custom_rules(qp)
                present = [k for k in cr if any(type(o) is k for o in ops) and canon(k) not in gset]
                if present:
                    k = present[int(rng.integers(len(present)))]
                    if rng.random() < 0.5 and not fixed:
                        fixed = {k: cr[k]}
                        opts["fixed_decomps"] = f"custom:{k.__name__}"
                    else:
                        alt = {k: [cr[k]]}
                        opts["alt_decomps"] = f"custom:{k.__name__}"
        except Exception as e:  # noqa: BLE001
            ctx.inconclusive_case(f"generator failed: {type(e).__name__}: {e}")
            continue
        kwargs = {"gate_set": gs}
        if stop:
            kwargs["stopping_condition"] = stop
        if max_exp is not None:
            kwargs["max_expansion"] = max_exp
        if not strict:
            kwargs["strict"] = False
        if "num_work_wires" in opts:
            kwargs["num_work_wires"] = nww
        if opts.get("minimize_work_wires"):
            kwargs["minimize_work_wires"] = True
        if fixed:
            kwargs["fixed_decomps"] = fixed
        if alt:
            kwargs["alt_decomps"] = alt
        err_type = None
        if api == "preprocess":
            # device-developer transform: stopping condition = membership in the gate set (by the harness's canonical names)
            names = set(gset)
            stop_fn = (lambda o, _n=names, _s=stop: canon(o) in _n or bool(_s and _s(o)))
            err_type = [None, qp.exceptions.DeviceError, qp.operation.DecompositionUndefinedError][int(rng.integers(3))]
            pk = {"stopping_condition": stop_fn, "name": "pv"}
            if err_type is not None:
                pk["error"] = err_type
            if graph:
                pk["target_gates"] = gs
                if "num_work_wires" in opts:
                    pk["num_work_wires"] = nww
                if rng.random() < 0.3:
                    extra_dev = [f"dw{i}" for i in range(int(rng.integers(0, 3)))]
                    pk["device_wires"] = qp.wires.Wires(list(tape.wires) + extra_dev)
                    nww = len(extra_dev)
                    opts["device_wires_extra"] = len(extra_dev)
                elif "num_work_wires" not in opts:
                    nww = None
            call = lambda t, _pk=pk: qp.devices.preprocess.decompose(t, **_pk)  # noqa: E731
            opts = {k: v for k, v in opts.items() if k in ("stopping_condition", "num_work_wires", "device_wires_extra")}
            opts["error"] = getattr(err_type, "__name__", None)
            demand = True
            stop_for_membership = stop_fn
            if not graph:
                nww = None
        else:
            call = lambda t, _kw=kwargs: qp.decompose(t, **_kw)  # noqa: E731
            demand = max_exp is None and strict
            stop_for_membership = stop
        V.info = {"gset": gset, "stop": stop_for_membership, "graph": graph, "options": opts, "api": api, "demand_membership": demand,
                  "num_work_wires": nww, "warnings": [], "redo": call, "gs_name": gs_name}
        desc = {"api": api, "graph": graph, "gate_set": gs_name, "gate_set_names": sorted(gset)[:30], "options": opts, "tape": gen.describe(tape)}
        try:
            ts = gen.tape_struct(tape)
        except Exception:  # noqa: BLE001 - shared fingerprint helper cannot walk class-valued hyper-parameters (templates)
            ts = repr([(o.name, [np.asarray(d).tolist() for d in o.data], list(o.wires)) for o in tape.operations])
        fp = fingerprint(ts, sorted(gset), graph, repr(sorted(opts.items(), key=str)), api)
        needs = any(not V.in_target(o) for o in tape.operations)
        ctx.ev("decomp.accepts")
        if graph:
            qp.decomposition.enable_graph()
        try:
            with warnings.catch_warnings(record=True) as wl:
                warnings.simplefilter("always")
                V.info["warnings"] = wl
                out = call(tape)
        except Exception as e:  # noqa: BLE001
            t = type(e).__name__
            msg = str(e)
            documented = (isinstance(e, (DecompositionError, qp.operation.DecompositionUndefinedError))
                          or (isinstance(e, RecursionError) and "Reached recursion limit" in msg)
                          # the same documented failure (RecursionError on a gate set that cannot be reached) sometimes escapes raw from
                          # deep inside an operator constructor before decompose re-raises it with its own message
                          or isinstance(e, RecursionError)
                          # the documented infinite-loop failure sometimes surfaces from the operator constructor as a RuntimeError
                          # with its own recursion-depth message (same situation, counted separately in evidence)
                          or (t == "RuntimeError" and "Maximum recursion depth reached" in msg)
                          or (err_type is not None and isinstance(e, err_type))
                          or (api == "preprocess" and err_type is None and t == "DeviceError"))
            if documented:
                ctx.reject(f"{'graph' if graph else 'legacy'}:{t}" + (":recursion-depth" if t == "RuntimeError" else "") + (":raw" if isinstance(e, RecursionError) and "Reached recursion limit" not in msg else ""))
                ctx.case(fp, nontrivial=False, cls=f"{api}:{'graph' if graph else 'legacy'}")
            else:
                import traceback
                tb = traceback.extract_tb(e.__traceback__)
                where = next((f"{fr.filename.split('/pennylane/')[-1]}:{fr.name}" for fr in reversed(tb) if "/pennylane/" in fr.filename), "?")
                ctx.case(fp, nontrivial=needs, cls=f"{api}:{'graph' if graph else 'legacy'}", sample=desc)
                ctx.violation("decomp.accepts", f"decompose raised {t}: {msg[:300]} (at {where}) — not a decomposition error", case=desc,
                              mech=f"raises:{'graph' if graph else 'legacy'}:{t}:{where.split(':')[-1]}")
            continue
        finally:
            if graph:
                qp.decomposition.disable_graph()
        changed = needs and out[0][0] is not tape
        ctx.case(fp, nontrivial=bool(changed), cls=f"{api}:{'graph' if graph else 'legacy'}:{gs_name}", sample=desc)
    Dmod._construct_and_solve_decomp_graph = orig_solve
