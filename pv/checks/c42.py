"""C42 — Program capture round-trips quantum functions.

Deciding monitors (differential: tape built directly with capture disabled  vs  capture → plxpr → ``plxpr_to_tape``):
* ``capture.roundtrip`` – G-PROG programs (for/while/cond with elifs, loop-carried values, dynamic loop bounds and wires,
  adjoint/ctrl of sub-functions with loops) written with ``qp.for_loop/while_loop/cond/adjoint/ctrl``: tape A = the plain
  Python rendering recorded with capture off; tape B = ``plxpr_to_tape(make_plxpr(f, autograph=False)(x, y, n))``.  Both are
  simulated by R-SV: the final states must be equal (1e-8, global phase included).  Operator-by-operator equality is recorded
  as a diagnostic only (``ctrl`` with zero control values is rendered differently but equivalently).
* ``capture.autograph`` – the same programs emitted as Python source with native ``for/while/if`` (scratch module under
  evidence/.work/C42), captured with ``autograph=True``.
* ``capture.decompose`` – the plxpr implementation of ``decompose`` (``decompose_plxpr_to_plxpr``) vs the tape transform on the
  converted tape: both outputs inside the gate set and with equal states.
* ``capture.mcm``       – functions with mid-circuit measurements (reset/postselect) and ``qp.cond`` on ``m``, ``m == k``, ``m != k``
  with else branches, MCM statistics: the converted tape interpreted by R-BR equals the directly recorded one (density matrix and
  joint MCM distribution).
"""
from __future__ import annotations

import importlib
import os
import sys

import numpy as np

from pv.ctx import fingerprint

META = {
    "id": "C42",
    "level": "exploration",
    "technique": "differential between tape-mode recording and capture→plxpr→tape conversion of the same generated program, "
                 "decided by an independent state-vector / branch simulation of both tapes",
    "level_text": "Every generated structured quantum function is recorded twice (Python control flow without capture; qp control "
                  "flow or autograph under capture) and both circuits are simulated by the reference simulator.",
    "level_note": "Only `decompose` has a plxpr implementation on this tree (other transforms are captured as opaque primitives for "
                  "the compiler), so the transform part covers decompose only. Evaluating plxpr directly (without plxpr_to_tape / a "
                  "device) is not a supported user path and is not driven. plxpr_to_tape supports only ==/!= on measurement values "
                  "(other MCM arithmetic raises a jax TypeError): only those predicates are generated. Subroutine primitives and "
                  "dynamic shapes are not generated. qp.capture.enable()/disable() are paired in try/finally around every capture.",
    "design_ref": "7/C42",
    "shards": {"quick": 3, "thorough": 16},
    "budget_s": {"quick": 70, "thorough": 420},
    "min_evals": {"quick": 70, "thorough": 2500},
    "deciding": ["capture.roundtrip", "capture.autograph", "capture.decompose", "capture.mcm"],
    "rule": "G-PROG programs of depth ≤ 3 with dynamic arguments (x, y: float, n: int); distinct = fingerprint of (program, rendering); "
            "non-trivial = ≥ 1 operator recorded inside a control-flow construct",
    "assumptions": ["the plain-Python rendering recorded without capture is the specification"],
    "max_inconclusive_frac": 0.25,
}

TOL = 1e-8
GATE_SETS = [{"RX", "RY", "RZ", "CNOT", "GlobalPhase"}, {"Rot", "RX", "RY", "RZ", "PhaseShift", "CNOT", "GlobalPhase"},
             {"RX", "RY", "RZ", "CZ", "Hadamard", "GlobalPhase"}]


def tape_state(tape, wires):
    from pv.ref import bridge

    st, frac = bridge.tape_state(tape.operations, wires)
    return st


def ops_equal(ta, tb):
    if len(ta.operations) != len(tb.operations):
        return False
    for a, b in zip(ta.operations, tb.operations):
        if type(a).__name__ != type(b).__name__ or list(a.wires) != list(b.wires) or len(a.data) != len(b.data):
            return False
        if any(not np.allclose(np.asarray(x, dtype=complex), np.asarray(y, dtype=complex), atol=1e-9) for x, y in zip(a.data, b.data)):
            return False
    return True


def all_wires(prog):
    return list(range(prog["n_wires"] + 2))  # + the two possible control wires of ctrl blocks


def compare(ctx, mon, ta, tb, prog, desc, mech_prefix):
    from pv.ref import sv

    wires = all_wires(prog)
    try:
        sa, sb = tape_state(ta, wires), tape_state(tb, wires)
    except Exception as e:  # noqa: BLE001
        ctx.inconclusive_case(f"{mon}: reference simulation failed: {type(e).__name__}: {e}")
        return False
    ctx.ev(mon)
    if ops_equal(ta, tb):
        ctx.count(f"{mon}:ops_identical")
    d = sv.dist(sa, sb)
    if d > TOL:
        k = next((i for i, (a, b) in enumerate(zip(ta.operations, tb.operations)) if repr(a) != repr(b)), min(len(ta.operations), len(tb.operations)))
        kinds = desc.get("kinds", {})
        tag = "+".join(sorted(x for x in kinds if x in ("for", "while", "if", "adjoint", "ctrl")))
        ctx.violation(mon, f"final states differ by {d:.3g}: first differing operator at {k}: tape-mode "
                      f"{ta.operations[k] if k < len(ta.operations) else 'END'} vs capture {tb.operations[k] if k < len(tb.operations) else 'END'} "
                      f"(lengths {len(ta.operations)}/{len(tb.operations)})", case=desc, mech=f"{mech_prefix}:{tag}",
                      observed=[repr(o) for o in tb.operations[max(0, k - 2):k + 3]], expected=[repr(o) for o in ta.operations[max(0, k - 2):k + 3]])
        return False
    return True


def has_static_empty_for(stmts):
    """A for statement whose start and stop are the same constants (qp.for_loop then takes its python fall-back path)."""
    from pv.gen import c43_prog as P

    for s in P.flatten_seq(stmts):
        k = s[0]
        if k == "for":
            _, form, start, stop, step, ivar, carried, body, style = s
            st = ["k", 0] if form == 1 else start
            if st[0] == "k" and stop[0] == "k" and st[1] == stop[1]:
                return True
            if has_static_empty_for(body):
                return True
        elif k == "while":
            if has_static_empty_for(s[3]):
                return True
        elif k == "if":
            if any(has_static_empty_for(b) for _, b in s[1]) or (s[2] and has_static_empty_for(s[2])):
                return True
        elif k in ("adjoint", "ctrl"):
            if has_static_empty_for(s[1]):
                return True
    return False


def capture_tape(qp, fn, args, autograph):
    from pennylane.tape import plxpr_to_tape

    qp.capture.enable()
    try:
        jaxpr = qp.capture.make_plxpr(fn, autograph=autograph)(*args)
        tape = plxpr_to_tape(jaxpr.jaxpr, jaxpr.consts, *args)
        return jaxpr, tape
    finally:
        qp.capture.disable()


def program_case(ctx, qp, rng, idx, workdir):
    from pv.gen import c43_prog as P

    g = P.Gen(rng, capture=True, max_depth=3, allow_symbolic=True)
    prog = g.program()
    a = prog["args"]
    args = (a["x"], a["y"], a["n"])
    kinds = P.count_kinds(prog["stmts"])
    src = P.emit_source(prog, name="f", measurements="return qp.expval(qp.Z(0))")
    desc = {"args": a, "source": src.splitlines()[2:45], "kinds": kinds}
    fp = fingerprint(repr(prog))
    ta = qp.tape.make_qscript(lambda: P.run_python(qp, prog))()
    nontriv = len(ta.operations) > 0 and any(k in kinds for k in ("for", "while", "if"))
    ctx.case(fp, nontrivial=nontriv, cls="program/" + "+".join(sorted(k for k in kinds if k in ("for", "while", "if", "adjoint", "ctrl"))),
             sample={"source": src.splitlines()[2:16], "args": a, "ops": len(ta.operations)})
    ctx.count("programs")

    def f(x, y, n):
        P.run_qp(qp, prog, {"x": x, "y": y, "n": n})
        return qp.expval(qp.Z(0))

    jaxpr = None
    try:
        jaxpr, tb = capture_tape(qp, f, args, autograph=False)
    except Exception as e:  # noqa: BLE001
        ctx.ev("capture.roundtrip")
        ctx.violation("capture.roundtrip", f"capture / plxpr_to_tape raised {type(e).__name__}: {str(e)[:300]}", case=desc,
                      mech=f"roundtrip-raise:{type(e).__name__}")
        tb = None
    if tb is not None:
        compare(ctx, "capture.roundtrip", ta, tb, prog, desc, "roundtrip-state")
    # ---- autograph rendering from source
    if rng.random() < 0.6:
        name = f"c42_{ctx.seed}_{ctx.shard}_{idx}"
        path = os.path.join(workdir, name + ".py")
        with open(path, "w") as fh:
            fh.write(src)
        try:
            importlib.invalidate_caches()
            mod = importlib.import_module(name)
            try:
                _, tc = capture_tape(qp, mod.f, args, autograph=True)
            except Exception as e:  # noqa: BLE001
                ctx.ev("capture.autograph")
                mech = f"autograph-raise:{type(e).__name__}"
                if type(e).__name__ == "AutoGraphError" and has_static_empty_for(prog["stmts"]) and "AutoGraph converted for loop failed" in str(e):
                    mech = "autograph-for-loop-start-equals-stop"
                ctx.violation("capture.autograph", f"autograph capture raised {type(e).__name__}: {str(e)[:300]}", case=desc, mech=mech)
                tc = None
            if tc is not None:
                compare(ctx, "capture.autograph", ta, tc, prog, desc, "autograph-state")
        finally:
            sys.modules.pop(name, None)
            try:
                os.remove(path)
            except OSError:
                pass
    # ---- decompose: plxpr implementation vs tape transform
    if jaxpr is not None and tb is not None and rng.random() < 0.5:
        from pennylane.tape import plxpr_to_tape
        from pennylane.transforms.decompose import decompose_plxpr_to_plxpr

        gs = GATE_SETS[int(rng.integers(len(GATE_SETS)))]
        try:
            (td,), _ = qp.transforms.decompose(ta, gate_set=gs)
        except Exception:  # noqa: BLE001
            ctx.reject("decompose-tape-raises")
            return
        qp.capture.enable()
        try:
            j2 = decompose_plxpr_to_plxpr(jaxpr.jaxpr, jaxpr.consts, [], {"gate_set": gs}, *args)
            tp = plxpr_to_tape(j2.jaxpr, j2.consts, *args)
        except Exception as e:  # noqa: BLE001
            ctx.ev("capture.decompose")
            ctx.violation("capture.decompose", f"plxpr decompose raised {type(e).__name__}: {str(e)[:300]} (the tape transform succeeds)", case={**desc, "gate_set": sorted(gs)},
                          mech=f"decompose-raise:{type(e).__name__}")
            return
        finally:
            qp.capture.disable()

        def leaf_names(t):
            out = set()
            for o in t.operations:
                while getattr(o, "base", None) is not None and type(o).__name__ not in gs:
                    o = o.base
                out.add(o.name if o.name in gs else type(o).__name__)
            return out

        bad = {n for n in leaf_names(tp) if n not in gs and n not in {"Hadamard" if "Hadamard" in gs else ""}}
        bad_t = {n for n in leaf_names(td) if n not in gs}
        if compare(ctx, "capture.decompose", ta, tp, prog, {**desc, "gate_set": sorted(gs)}, "decompose-state") and bad and not bad_t:
            ctx.violation("capture.decompose", f"plxpr decompose leaves {sorted(bad)} outside the gate set {sorted(gs)} (tape transform does not)",
                          case={**desc, "gate_set": sorted(gs)}, mech="decompose-gateset-leak")


def mcm_case(ctx, qp, rng, idx):
    from pv.gen import c21_dyn as D
    from pv.ref import c21_branch as br

    # capture-compatible dynamic circuit: predicates m, m == k, m != k only; integer wires; no nesting
    nwl = int(rng.integers(2, 4))
    prog = D.gen_program(rng, n_wires=nwl, max_mcm=3, nested_prob=0.0, p_postselect=0.2, labels=list(range(nwl)))

    def simplify(stmts, avail):
        out = []
        for s in stmts:
            if s[0] == "m":
                avail.append(s[1])
                out.append(s)
            elif s[0] == "c":
                i = int(avail[int(rng.integers(len(avail)))])
                r = rng.random()
                e = ["m", i] if r < 0.4 else ["bin", "==" if r < 0.7 else "!=", ["m", i], ["k", int(rng.integers(0, 2))]]
                out.append(["c", e, [x for x in s[2] if x[0] == "g"], ([x for x in s[3] if x[0] == "g"] if s[3] else None)])
            else:
                out.append(s)
        return out

    prog = dict(prog, stmts=simplify(prog["stmts"], []))
    wires = prog["wires"]
    fp = fingerprint("mcm", repr(prog))
    desc = {"program": D.describe(prog), "wires": wires}

    as_list = bool(rng.random() < 0.35)

    def f():
        ms = D.run_pennylane(qp, prog)
        if as_list:
            return qp.expval(qp.Z(wires[0])), qp.probs(op=[ms[i] for i in range(prog["n_mcm"])])
        return (qp.expval(qp.Z(wires[0])),) + tuple(qp.expval(ms[i]) for i in range(prog["n_mcm"]))

    ta = qp.tape.make_qscript(f)()
    ctx.case(fp, nontrivial=D.n_conds(prog["stmts"]) > 0, cls="mcm", sample=desc)
    ctx.count("programs")
    try:
        _, tb = capture_tape(qp, f, (), autograph=False)
    except Exception as e:  # noqa: BLE001
        ctx.ev("capture.mcm")
        mech = f"mcm-raise:{type(e).__name__}"
        if as_list and isinstance(e, AttributeError) and "'list' object has no attribute 'measurements'" in str(e):
            mech = "plxpr-to-tape-mcm-list-measurement"
        ctx.violation("capture.mcm", f"capture / plxpr_to_tape raised {type(e).__name__}: {str(e)[:300]}", case={**desc, "mcm_list_measurement": as_list}, mech=mech)
        return
    Ra = br.enumerate_branches(br.program_from_ops(ta.operations), wires)
    Rb = br.enumerate_branches(br.program_from_ops(tb.operations), wires)
    ctx.ev("capture.mcm")
    if not Ra.defined:
        ctx.reject("postselect-zero-probability")
        return
    da = {b.bits(): b.p for b in Ra.branches}
    db = {b.bits(): b.p for b in Rb.branches}
    if set(da) != set(db) or any(abs(da[k] - db[k]) > 1e-9 for k in da) or np.linalg.norm(Ra.density() - Rb.density()) > 1e-8:
        ctx.violation("capture.mcm", f"captured circuit differs from the tape-mode one: histories {sorted(db)[:6]} vs {sorted(da)[:6]}, ‖Δρ‖="
                      f"{np.linalg.norm(Ra.density() - Rb.density()) if set(da) == set(db) else float('nan'):.3g}", case={**desc, "capture_ops": [repr(o) for o in tb.operations][:30]},
                      mech="mcm-semantics")
        return
    # terminal measurements: same kinds, MCM statistic refers to the same measurements in order
    ka, kb = br.measurement_keys(ta.operations), br.measurement_keys(tb.operations)
    def refs(t, keys):
        if as_list:
            return [keys.index(mv.measurements[0]) for mv in t.measurements[1].mv]
        return [keys.index(m.mv.measurements[0]) for m in t.measurements[1:]]

    mva = refs(ta, ka)
    try:
        mvb = refs(tb, kb)
    except Exception as e:  # noqa: BLE001
        ctx.violation("capture.mcm", f"MCM statistic of the converted tape does not refer to its own measurements: {type(e).__name__}: {e}", case=desc, mech="mcm-stat-reference")
        return
    if mva != mvb or [type(m).__name__ for m in ta.measurements] != [type(m).__name__ for m in tb.measurements]:
        ctx.violation("capture.mcm", f"terminal measurements differ: {tb.measurements} vs {ta.measurements}", case=desc, mech="mcm-stat-reference")


def run(ctx):
    import warnings

    import pennylane as qp

    warnings.filterwarnings("ignore")
    workdir = os.path.join(os.path.dirname(os.path.dirname(os.path.dirname(os.path.abspath(__file__)))), "evidence", ".work", "C42")
    os.makedirs(workdir, exist_ok=True)
    if workdir not in sys.path:
        sys.path.insert(0, workdir)
    if qp.capture.enabled():
        qp.capture.disable()
    n = ctx.n(45, 2400)
    nm = ctx.n(30, 1600)
    im = 0
    for i in range(n):
        if not ctx.more():
            break
        ctx.case_index = ctx.shard * 1_000_000 + i
        with ctx.guard("program"):
            program_case(ctx, qp, np.random.default_rng([ctx.seed, 42, ctx.shard, i]), i, workdir)
        if qp.capture.enabled():  # defensive: never leak capture mode into the next case
            qp.capture.disable()
            ctx.inconclusive_case("capture left enabled by a case")
        # interleave the MCM cases so that every monitor is reached even when the time budget cuts the run short
        while im < nm and im * n <= (i + 1) * nm:
            ctx.case_index = ctx.shard * 1_000_000 + 500_000 + im
            with ctx.guard("mcm"):
                mcm_case(ctx, qp, np.random.default_rng([ctx.seed, 4242, ctx.shard, im]), im)
            if qp.capture.enabled():
                qp.capture.disable()
            im += 1
