"""C53 — Fermion-to-qubit mappings are faithful representations.

Deciding monitors (all post-conditions on the real ``qp.jordan_wigner`` / ``qp.parity_transform`` / ``qp.bravyi_kitaev`` and on
``FermiWord`` / ``FermiSentence`` arithmetic):

* ``map.fock``     dense matrix of the image (own kron of the returned PauliSentence data for ``ps=True``; ``qp.matrix`` of the
                   returned operator for ``ps=False``) == P_enc · Fock(op) · P_encᵀ, Fock(op) built from first-principles
                   ladder matrices (pv/ref/c53_fock.py) and P_enc the basis change of the encoding written from its
                   definition (JW identity, parity prefix sums, BK matrix).  This is exact unitary equivalence to the Fock
                   representation, hence of the three mappings with each other.
* ``map.laws``     map(A·B) = map(A)·map(B), map(A+B) = map(A)+map(B), map(A†) = map(A)† on random pairs, evaluated on the real
                   images (PauliSentence arithmetic of the outputs vs the image of the Fermi-side product/sum/adjoint).
* ``map.car``      {a_i, a_j†} = δ_ij, {a_i, a_j} = 0 for ALL i, j < n for each mapping and n (exhaustive per n).
* ``arith.fock``   FermiWord/FermiSentence expression trees (``* + - ** adjoint``, scalars on both sides, FermiC/FermiA,
                   from_string round trip) evaluated by the real classes vs the same tree evaluated on Fock matrices; the
                   real result is turned into a matrix from its *dictionary data* (not by to_mat), and ``to_mat`` is checked too.
* ``shift.fock``   ``FermiWord.shift_operator`` (the repository's normal-ordering primitive; there is no ``normal_order``
                   function on this tree) returns a sentence with the same Fock matrix and the same image.
* ``map.spectrum`` spectra of the Hermitian part of the three images coincide (independent of P_enc).
"""
import numpy as np

from pv.ctx import fingerprint

META = {
    "id": "C53",
    "level": "exploration",
    "technique": "reference-model differential: images of random fermionic words/sentences vs first-principles Fock-space ladder "
                 "matrices conjugated by the encoding's basis change; algebraic-law post-conditions (homomorphism, adjoint, CAR)",
    "level_text": "Random fermionic words (length 0-6, repeated and same-orbital factors) and sentences (1-8 words, complex/real/int "
                  "coefficients) on up to 6 modes (n up to 8 qubits) are mapped by the real jordan_wigner / parity_transform / "
                  "bravyi_kitaev (ps both, random wire maps, tol) and compared entry-wise with the occupation-basis matrices; "
                  "CAR is enumerated for all index pairs for n = 1..8 (1..10 thorough). Held on the inputs observed.",
    "level_note": "Trusts numpy and the transcription of the textbook definitions in pv/ref/c53_fock.py (Fock ladder signs, parity "
                  "prefix sums, BK matrix recursion). For ps=False the operator is densified by qp.matrix (trusted here, decided by "
                  "C03/C51). The tree has no normal_order function; FermiWord.shift_operator is monitored in its place. "
                  "tol is only exercised with its documented meaning (imaginary parts <= tol dropped) on single words.",
    "shards": {"quick": 3, "thorough": 16},
    "budget_s": {"quick": 100, "thorough": 480},
    "min_evals": {"quick": 1000, "thorough": 30000},
    "deciding": ["map.fock", "map.laws", "map.car", "arith.fock", "shift.fock", "map.spectrum"],
    "rule": "case = (fermionic operator description, mapping, n, ps, wire_map, tol); distinct = distinct description; "
            "non-trivial = operator has >= 2 ladder factors or >= 2 words and touches an orbital >= 1",
    "assumptions": ["Fock reference and encoding matrices transcribe the textbook definitions"],
}

TOL = 1e-9
MAPS = ("jw", "parity", "bk")


# ------------------------------------------------------------------------------------------ generators
def gen_word(rng, nmodes, maxlen=6, minlen=0):
    L = int(rng.integers(minlen, maxlen + 1))
    style = rng.random()
    w = []
    for _ in range(L):
        if w and style < 0.25 and rng.random() < 0.5:
            # same-orbital neighbour (number operators, a a, a† a†, a a†)
            orb = w[-1][0]
        else:
            orb = int(rng.integers(0, nmodes))
        w.append((orb, "+" if rng.random() < 0.5 else "-"))
    return tuple(w)


def gen_coeff(rng):
    r = rng.random()
    if r < 0.2:
        return int(rng.integers(-3, 4)) or 1
    if r < 0.5:
        return float(np.round(rng.normal(), 6)) or 0.5
    return complex(np.round(rng.normal(), 6), np.round(rng.normal(), 6))


def gen_sentence(rng, nmodes, maxwords=8, maxlen=6):
    k = int(rng.integers(1, maxwords + 1))
    out = {}
    for _ in range(k):
        w = gen_word(rng, nmodes, maxlen)
        out[w] = gen_coeff(rng)
    return tuple((c, w) for w, c in out.items())


def max_orb(desc):
    kind, body = desc
    if kind == "word":
        return max([o for o, _ in body], default=-1)
    return max([o for _, w in body for o, _ in w], default=-1)


def nfactors(desc):
    kind, body = desc
    if kind == "word":
        return len(body)
    return sum(len(w) for _, w in body)


def gen_wire_map(rng, n):
    r = rng.random()
    if r < 0.35:
        return None
    if r < 0.55:
        perm = [int(x) for x in rng.permutation(n)]
        return {i: perm[i] for i in range(n)}
    if r < 0.8:
        labels = [f"q{int(x)}" for x in rng.permutation(n + 3)[:n]]
        return {i: labels[i] for i in range(n)}
    pool = ["a", "b", 7, 11, "w3", -1, 100, "z", 5, "aux", 42, "k"]
    idx = rng.permutation(len(pool))[:n]
    return {i: pool[int(idx[i])] for i in range(n)}


# ------------------------------------------------------------------------------------------ real-object helpers
def build_word(qp, w):
    from pennylane.fermi import FermiWord
    return FermiWord({(i, o): s for i, (o, s) in enumerate(w)})


def build(qp, desc):
    from pennylane.fermi import FermiSentence
    kind, body = desc
    if kind == "word":
        return build_word(qp, body)
    return FermiSentence({build_word(qp, w): c for c, w in body})


def read_word(fw):
    """FermiWord -> tuple of (orbital, sign) from its dictionary data; checks positions are 0..L-1."""
    items = sorted(dict(fw).items())
    pos = [k[0] for k, _ in items]
    if pos != list(range(len(items))):
        raise ValueError(f"positions of FermiWord are not 0..L-1: {pos}")
    return tuple((int(k[1]), v) for k, v in items)


def read_any(obj):
    """FermiWord / FermiSentence -> sentence description [(coeff, word)] read from the data."""
    from pennylane.fermi import FermiSentence, FermiWord
    if isinstance(obj, FermiWord):
        return [(1.0, read_word(obj))]
    if isinstance(obj, FermiSentence):
        return [(c, read_word(w)) for w, c in dict(obj).items()]
    raise TypeError(f"not a Fermi object: {type(obj)}")


def image_dense(qp, F, img, ps, wire_order):
    if ps:
        return F.pauli_sentence_dense_fast([(dict(pw), c) for pw, c in img.items()], wire_order)
    for w in img.wires:
        if w not in wire_order:
            raise KeyError(f"wire {w!r} of the image is not in the expected wire set {wire_order!r}")
    return np.asarray(qp.matrix(img, wire_order=wire_order))


def call_map(qp, kind, op, n, **kw):
    if kind == "jw":
        return qp.jordan_wigner(op, **kw)
    if kind == "parity":
        return qp.parity_transform(op, n, **kw)
    return qp.bravyi_kitaev(op, n, **kw)


def desc_json(desc):
    kind, body = desc
    if kind == "word":
        return {"word": " ".join(f"{o}{s}" for o, s in body)}
    return {"sentence": [[repr(c), " ".join(f"{o}{s}" for o, s in w)] for c, w in body]}


# ------------------------------------------------------------------------------------------ expression trees (arith.fock)
def gen_expr(rng, nmodes, depth):
    """Returns a nested tuple; leaves: ('W', word) ('S', sentence) ('C', orb) ('A', orb)."""
    if depth <= 0 or rng.random() < 0.25:
        r = rng.random()
        if r < 0.45:
            return ("W", gen_word(rng, nmodes, 3))
        if r < 0.8:
            return ("S", gen_sentence(rng, nmodes, 3, 3))
        return ("C" if rng.random() < 0.5 else "A", int(rng.integers(0, nmodes)))
    op = ["mul", "add", "sub", "pow", "adj", "smul", "rsmul", "cadd", "rcadd", "csub", "rcsub"][int(rng.integers(0, 11))]
    if op in ("mul", "add", "sub"):
        return (op, gen_expr(rng, nmodes, depth - 1), gen_expr(rng, nmodes, depth - 1))
    if op == "pow":
        return (op, gen_expr(rng, nmodes, depth - 2), int(rng.integers(0, 4)))
    if op == "adj":
        return (op, gen_expr(rng, nmodes, depth - 1))
    c = gen_coeff(rng)
    if rng.random() < 0.3:
        c = np.array(c) if rng.random() < 0.5 else np.array([c])
    return (op, gen_expr(rng, nmodes, depth - 1), c)


def expr_size(e):
    """(number of words, max word length) upper bound of the result."""
    t = e[0]
    if t == "W":
        return 1, len(e[1])
    if t == "S":
        return len(e[1]), max([len(w) for _, w in e[1]], default=0)
    if t in ("C", "A"):
        return 1, 1
    if t == "mul":
        a, b = expr_size(e[1]), expr_size(e[2])
        return a[0] * b[0], a[1] + b[1]
    if t in ("add", "sub"):
        a, b = expr_size(e[1]), expr_size(e[2])
        return a[0] + b[0], max(a[1], b[1])
    if t == "pow":
        a = expr_size(e[1])
        return max(1, a[0] ** e[2]), a[1] * e[2]
    a = expr_size(e[1])
    return a[0] + 1, a[1]


def snap(obj):
    """Value snapshot of a Fermi object (words + coefficient values), independent of later in-place changes."""
    return sorted((w, complex(np.asarray(c).reshape(-1)[0])) for c, w in read_any(obj))


def has_array_coeff(obj):
    from pennylane.fermi import FermiSentence
    return isinstance(obj, FermiSentence) and any(isinstance(c, np.ndarray) for c in dict(obj).values())


def eval_real(qp, e, impure=None):
    """Evaluate the expression with the real classes.  ``impure``: list collecting (op, had_array_coeff) for every binary
    operation that changed the value of one of its operands."""
    from pennylane.fermi import FermiA, FermiC
    t = e[0]
    if t == "W":
        return build(qp, ("word", e[1]))
    if t == "S":
        return build(qp, ("sent", e[1]))
    if t == "C":
        return FermiC(e[1])
    if t == "A":
        return FermiA(e[1])
    a = eval_real(qp, e[1], impure)
    before_a = snap(a)
    b = before_b = None
    if t in ("mul", "add", "sub"):
        b = eval_real(qp, e[2], impure)
        before_b = snap(b)
    try:
        if t == "mul":
            return a * b
        if t == "add":
            return a + b
        if t == "sub":
            return a - b
        if t == "pow":
            return a ** e[2]
        if t == "adj":
            return a.adjoint()
        c = e[2]
        return {"smul": lambda: a * c, "rsmul": lambda: c * a, "cadd": lambda: a + c, "rcadd": lambda: c + a,
                "csub": lambda: a - c, "rcsub": lambda: c - a}[t]()
    finally:
        if impure is not None:
            if snap(a) != before_a:
                impure.append((t, has_array_coeff(a)))
            if b is not None and snap(b) != before_b:
                impure.append((t, has_array_coeff(b)))


def eval_fock(F, e, n):
    t = e[0]
    I = np.eye(2**n, dtype=complex)
    if t == "W":
        return F.fermi_word_matrix(e[1], n)
    if t == "S":
        return F.fermi_sentence_matrix(e[1], n)
    if t == "C":
        return F.fermi_annihilators(n)[e[1]].conj().T
    if t == "A":
        return F.fermi_annihilators(n)[e[1]]
    a = eval_fock(F, e[1], n)
    if t == "mul":
        return a @ eval_fock(F, e[2], n)
    if t == "add":
        return a + eval_fock(F, e[2], n)
    if t == "sub":
        return a - eval_fock(F, e[2], n)
    if t == "pow":
        return np.linalg.matrix_power(a, e[2])
    if t == "adj":
        return a.conj().T
    c = complex(np.asarray(e[2]).reshape(-1)[0])
    return {"smul": c * a, "rsmul": c * a, "cadd": a + c * I, "rcadd": a + c * I, "csub": a - c * I, "rcsub": c * I - a}[t]


def expr_json(e):
    if e[0] in ("W",):
        return "W[" + " ".join(f"{o}{s}" for o, s in e[1]) + "]"
    if e[0] == "S":
        return "S[" + " + ".join(f"({c!r})*" + " ".join(f"{o}{s}" for o, s in w) for c, w in e[1]) + "]"
    if e[0] in ("C", "A"):
        return f"Fermi{e[0]}({e[1]})"
    if e[0] in ("mul", "add", "sub"):
        return f"{e[0]}({expr_json(e[1])}, {expr_json(e[2])})"
    if e[0] == "adj":
        return f"adj({expr_json(e[1])})"
    return f"{e[0]}({expr_json(e[1])}, {e[2]!r})"


# ------------------------------------------------------------------------------------------ main
def run(ctx):
    import warnings

    import pennylane as qp
    from pennylane.pauli import PauliSentence, PauliWord

    from pv.ref import c53_fock as F

    warnings.filterwarnings("ignore")
    from pv.ref.c53_limit import limit_repeats
    limit_repeats(ctx)
    rng = ctx.rng
    PERM = {}

    def perm(kind, n):
        if (kind, n) not in PERM:
            PERM[(kind, n)] = F.encoding_permutation(kind, n)
        return PERM[(kind, n)]

    def expected(kind, fock, n):
        P = perm(kind, n)
        return P @ fock @ P.T

    def mism(M, R):
        return M.shape != R.shape or not float(np.max(np.abs(M - R))) < TOL * max(1.0, float(np.max(np.abs(R))))

    # ---------------------------------------------------------------- (1) CAR, exhaustive per n
    if True:
        nmax = 8 if ctx.quick else 10
        jobs = [(kind, n) for n in range(1, nmax + 1) for kind in MAPS]
        for kind, n in ctx.my(jobs):
            if not ctx.more():
                break
            try:
                A = [call_map(qp, kind, build(qp, ("word", ((j, "-"),))), n, ps=True) for j in range(n)]
                Ad = [call_map(qp, kind, build(qp, ("word", ((j, "+"),))), n, ps=True) for j in range(n)]
            except Exception as e:  # noqa: BLE001
                ctx.violation("map.car", f"{kind} n={n}: mapping a single ladder operator raised {type(e).__name__}: {e}",
                              case={"kind": kind, "n": n}, mech=f"raise:{kind}")
                continue
            ident = PauliSentence({PauliWord({}): 1.0})
            for i in range(n):
                for j in range(n):
                    ctx.ev("map.car")
                    ctx.case(fingerprint("car", kind, n, i, j), nontrivial=(n >= 2), cls=f"car:{kind}")
                    ac1 = A[i] @ Ad[j] + Ad[j] @ A[i]
                    ac2 = A[i] @ A[j] + A[j] @ A[i]
                    if i == j:
                        ac1 = ac1 - ident
                    bad = None
                    for nm, acx in (("{a_i,a_j^+}-delta", ac1), ("{a_i,a_j}", ac2)):
                        resid = max([abs(c) for c in acx.values()], default=0.0)
                        if resid > TOL:
                            bad = (nm, resid)
                    if bad:
                        ctx.violation("map.car", f"{kind} n={n}: {bad[0]} != 0 for i={i}, j={j} (residual {bad[1]:.3e})",
                                      case={"kind": kind, "n": n, "i": i, "j": j}, mech=f"car:{kind}")
                        break

    # ---------------------------------------------------------------- (2) images vs Fock, laws, spectrum
    ncases = ctx.n(600, 16000)
    def do_image(ci):
        pass

        gi = ci * ctx.nshards + ctx.shard
        ctx.case_index = gi
        r = ctx.case_rng(gi)
        nmodes = int(r.integers(1, 7))
        if r.random() < 0.5:
            desc = ("word", gen_word(r, nmodes, 6, 0 if r.random() < 0.05 else 1))
        else:
            desc = ("sent", gen_sentence(r, nmodes, 8 if r.random() < 0.5 else 3, 6 if r.random() < 0.5 else 3))
        lo = max_orb(desc) + 1
        n = max(1, lo + (int(r.integers(0, 3)) if r.random() < 0.5 else 0))
        n = min(n, 8)
        nontriv = (nfactors(desc) >= 2) and max_orb(desc) >= 1
        dj = desc_json(desc)
        ctx.case(fingerprint("img", desc), nontrivial=nontriv, cls=desc[0], sample={**dj, "n": n})
        try:
            op = build(qp, desc)
        except Exception as e:  # noqa: BLE001
            ctx.violation("map.fock", f"constructing the operator raised {type(e).__name__}: {e}", case=dj, mech="raise:ctor")
            return
        sent = [(1.0, desc[1])] if desc[0] == "word" else list(desc[1])
        fock = F.fermi_sentence_matrix(sent, n)
        herm_spec = {}
        for kind in MAPS:
            ps = bool(r.random() < 0.5)
            wm = gen_wire_map(r, n)
            tol = None if r.random() < 0.6 else float(10.0 ** -int(r.integers(11, 15)))
            kw = {"ps": ps}
            if wm is not None:
                kw["wire_map"] = wm
            if tol is not None:
                kw["tol"] = tol
            info = {**dj, "map": kind, "n": n, "ps": ps, "wire_map": wm, "tol": tol}
            order = [wm[i] for i in range(n)] if wm else list(range(n))
            ctx.ev("map.fock")
            try:
                img = call_map(qp, kind, op, n, **kw)
                M = image_dense(qp, F, img, ps, order)
            except Exception as e:  # noqa: BLE001
                ctx.violation("map.fock", f"{kind}: raised {type(e).__name__}: {e}", case=info, mech=f"raise:{kind}")
                continue
            ctx.cover(f"{kind}:ps={ps}:wm={'none' if wm is None else 'yes'}")
            R = expected(kind, fock, n)
            if mism(M, R):
                ctx.violation("map.fock", f"{kind} image differs from P·Fock·Pᵀ by {float(np.max(np.abs(M - R))):.3e}", case=info,
                              mech=f"image:{kind}", observed=M, expected=R)
                continue
            H = M + M.conj().T
            herm_spec[kind] = np.linalg.eigvalsh(H)
        if len(herm_spec) == 3:
            ctx.ev("map.spectrum")
            ref = np.linalg.eigvalsh(fock + fock.conj().T)
            for kind, sp in herm_spec.items():
                if not np.max(np.abs(sp - ref)) < 1e-8 * max(1.0, np.max(np.abs(ref))):
                    ctx.violation("map.spectrum", f"spectrum of the Hermitian part of the {kind} image differs from the Fock one",
                                  case={**dj, "n": n}, mech=f"spectrum:{kind}")

        # documented tol semantics on single words: imaginary parts <= tol are discarded
        if desc[0] == "word" and ci % 4 == 0 and len(desc[1]) >= 1:
            kind = MAPS[int(r.integers(0, 3))]
            tolv = [0.3, 0.2, 0.1, 0.05, 1.0][int(r.integers(0, 5))]
            try:
                exact = call_map(qp, kind, op, n, ps=True)
                cut = call_map(qp, kind, op, n, ps=True, tol=tolv)
                ctx.ev("map.tol")
                bad = None
                if set(exact.keys()) != set(cut.keys()):
                    bad = "different Pauli words"
                else:
                    for pw, c in exact.items():
                        want = complex(np.real(c)) if abs(np.imag(c)) <= tolv else complex(c)
                        if abs(complex(cut[pw]) - want) > TOL:
                            bad = f"coefficient of {dict(pw)}: {cut[pw]!r}, documented {want!r}"
                            break
                if bad:
                    ctx.violation("map.tol", f"{kind} tol={tolv}: {bad}", case={**dj, "map": kind, "n": n, "tol": tolv}, mech=f"tol:{kind}")
            except Exception as e:  # noqa: BLE001
                ctx.violation("map.tol", f"{kind} tol={tolv}: raised {type(e).__name__}: {e}", case={**dj, "map": kind, "n": n, "tol": tolv},
                              mech=f"raise-tol:{kind}")

        # ---- laws on a pair (A = this op, B = a second one on the same modes)
        if ci % 2 == 0:
            descB = ("word", gen_word(r, nmodes, 3, 1)) if r.random() < 0.5 else ("sent", gen_sentence(r, nmodes, 3, 3))
            if nfactors(desc) + nfactors(descB) > 40:
                return
            nB = max(n, max_orb(descB) + 1)
            try:
                opB = build(qp, descB)
                for kind in MAPS:
                    iA = call_map(qp, kind, op, nB, ps=True)
                    iB = call_map(qp, kind, opB, nB, ps=True)
                    order = list(range(nB))
                    dA = image_dense(qp, F, iA, True, order)
                    dB = image_dense(qp, F, iB, True, order)
                    pj = {"A": dj, "B": desc_json(descB), "map": kind, "n": nB}
                    # product (real Fermi-side product, then mapped) vs product of the images (PauliSentence @)
                    ctx.ev("map.laws")
                    iAB = call_map(qp, kind, op * opB, nB, ps=True)
                    dAB = image_dense(qp, F, iAB, True, order)
                    dAB2 = image_dense(qp, F, iA @ iB, True, order)
                    if mism(dAB, dA @ dB) or mism(dAB2, dA @ dB):
                        ctx.violation("map.laws", f"{kind}: map(A*B) != map(A) map(B)", case=pj, mech=f"law-prod:{kind}")
                    ctx.ev("map.laws")
                    iS = call_map(qp, kind, op + opB, nB, ps=True)
                    if mism(image_dense(qp, F, iS, True, order), dA + dB):
                        ctx.violation("map.laws", f"{kind}: map(A+B) != map(A)+map(B)", case=pj, mech=f"law-sum:{kind}")
                    ctx.ev("map.laws")
                    iD = call_map(qp, kind, op.adjoint(), nB, ps=True)
                    if mism(image_dense(qp, F, iD, True, order), dA.conj().T):
                        ctx.violation("map.laws", f"{kind}: map(A†) != map(A)†", case=pj, mech=f"law-adj:{kind}")
            except Exception as e:  # noqa: BLE001
                ctx.violation("map.laws", f"raised {type(e).__name__}: {e}", case={"A": dj, "B": desc_json(descB)}, mech="raise:laws")

    # ---------------------------------------------------------------- (3) Fermi arithmetic vs Fock matrices
    nar = ctx.n(450, 12000)
    def do_arith(ci):
        pass

        gi = 10_000_000 + ci * ctx.nshards + ctx.shard
        ctx.case_index = gi
        r = ctx.case_rng(gi)
        nmodes = int(r.integers(1, 6))
        e = gen_expr(r, nmodes, int(r.integers(1, 4)))
        nw, wl = expr_size(e)
        if nw > 300 or wl > 10:
            return
        ej = expr_json(e)
        ctx.case(fingerprint("expr", ej), nontrivial=(e[0] not in ("W", "S", "C", "A")), cls=f"expr:{e[0]}", sample={"expr": ej[:300]})
        ctx.ev("arith.fock")
        try:
            impure = []
            res = eval_real(qp, e, impure)
            got = F.fermi_sentence_matrix(read_any(res), nmodes)
        except Exception as ex:  # noqa: BLE001
            inplace = "ufunc 'add' output" in str(ex) or "ufunc 'subtract' output" in str(ex) or "non-broadcastable output operand" in str(ex)
            ctx.violation("arith.fock", f"raised {type(ex).__name__}: {ex}", case={"expr": ej},
                          mech="inplace-add:array-coeff" if inplace else f"raise-arith:{e[0]}")
            return
        ctx.ev("arith.pure")
        if impure:
            opn, arr = impure[0]
            ctx.violation("arith.pure", f"Fermi arithmetic '{opn}' changed the value of one of its operands"
                          + (" (array-valued coefficient updated in place)" if arr else ""), case={"expr": ej},
                          mech="inplace-add:array-coeff" if arr else f"mutates-operand:{opn}")
            return
        want = eval_fock(F, e, nmodes)
        if mism(got, want):
            ctx.violation("arith.fock", f"Fermi arithmetic result differs from Fock-matrix arithmetic by {float(np.max(np.abs(got - want))):.3e}",
                          case={"expr": ej, "result": repr(res)[:400]}, mech=f"arith:{e[0]}")
            return
        # to_mat (documented: matrix representation, n_orbitals) — skip objects without any ladder operator (max() of empty)
        sent = read_any(res)
        if any(len(w) for _, w in sent):
            ctx.ev("arith.to_mat")
            try:
                nn = nmodes + int(r.integers(0, 2))
                tm = np.asarray(res.to_mat(n_orbitals=nn))
                if tm.ndim == 3 and tm.shape[0] == 1:  # a size-1 array coefficient broadcasts to a batch of one
                    tm = tm[0]
                if mism(tm, F.fermi_sentence_matrix(sent, nn)):
                    ctx.violation("arith.to_mat", "to_mat differs from the Fock matrix", case={"expr": ej, "n_orbitals": nn}, mech="to_mat")
            except Exception as ex:  # noqa: BLE001
                ctx.violation("arith.to_mat", f"to_mat raised {type(ex).__name__}: {ex}", case={"expr": ej}, mech="raise:to_mat")
        # from_string on the two documented formats ('0+ 1-' and OpenFermion-like '0^ 1') vs the dictionary form
        from pennylane.fermi import from_string
        if e[0] == "W" and len(e[1]) > 0:
            ctx.ev("arith.string")
            try:
                s1 = " ".join(f"{o}{sg}" for o, sg in e[1])
                s2 = " ".join(f"{o}^" if sg == "+" else f"{o}" for o, sg in e[1])
                for st in (s1, s2):
                    if read_word(from_string(st)) != tuple(e[1]):
                        ctx.violation("arith.string", f"from_string({st!r}) gives {from_string(st)!r}", case={"expr": ej}, mech="from_string")
            except Exception as ex:  # noqa: BLE001
                ctx.violation("arith.string", f"from_string raised {type(ex).__name__}: {ex}", case={"expr": ej}, mech="raise:string")

    # ---------------------------------------------------------------- (4) shift_operator keeps the operator
    nsh = ctx.n(600, 12000)
    def do_shift(ci):
        pass

        gi = 20_000_000 + ci * ctx.nshards + ctx.shard
        ctx.case_index = gi
        r = ctx.case_rng(gi)
        nmodes = int(r.integers(1, 5))
        w = gen_word(r, nmodes, 7, 2)
        L = len(w)
        i0, i1 = int(r.integers(0, L)), int(r.integers(0, L))
        info = {"word": " ".join(f"{o}{s}" for o, s in w), "from": i0, "to": i1}
        same_orb_crossed = any(w[k][0] == w[i0][0] for k in range(min(i0, i1), max(i0, i1) + 1) if k != i0)
        ctx.case(fingerprint("shift", w, i0, i1), nontrivial=(i0 != i1), cls="shift:" + ("contract" if same_orb_crossed else "plain"), sample=info)
        ctx.ev("shift.fock")
        try:
            fw = build_word(qp, w)
            res = fw.shift_operator(i0, i1)
            sent = read_any(res)
            got = F.fermi_sentence_matrix(sent, nmodes)
        except Exception as ex:  # noqa: BLE001
            ctx.violation("shift.fock", f"shift_operator raised {type(ex).__name__}: {ex}", case=info, mech="raise:shift")
            return
        want = F.fermi_word_matrix(w, nmodes)
        if mism(got, want):
            ctx.violation("shift.fock", f"shift_operator changed the operator (max diff {float(np.max(np.abs(got - want))):.3e})",
                          case={**info, "result": repr(res)[:400]}, mech="shift:" + ("contract" if same_orb_crossed else "plain"))
            return
        # the leading word of the result must really have the operator at its new place (when no contraction removed it)
        if ci % 3 == 0:
            kind = MAPS[int(r.integers(0, 3))]
            try:
                a = image_dense(qp, F, call_map(qp, kind, fw, nmodes, ps=True), True, list(range(nmodes)))
                b = image_dense(qp, F, call_map(qp, kind, res, nmodes, ps=True), True, list(range(nmodes)))
                ctx.ev("shift.image")
                if mism(b, a):
                    ctx.violation("shift.image", f"{kind} image changed by shift_operator", case={**info, "map": kind}, mech=f"shift-image:{kind}")
            except Exception as ex:  # noqa: BLE001
                ctx.violation("shift.image", f"raised {type(ex).__name__}: {ex}", case={**info, "map": kind}, mech="raise:shift-image")


    # round-robin over the three workloads so that any time-limited prefix exercises every monitor
    for ci in range(max(ncases, nar, nsh)):
        if not ctx.more():
            break
        if ci < ncases:
            do_image(ci)
        if ci < nar:
            do_arith(ci)
        if ci < nsh:
            do_shift(ci)
