"""C05 — Result caching never changes results.

Deciding monitors
* ``cache.differential`` (oracle 1, client boundary): the same batch is executed on fresh ``default.qubit`` devices
  with ``cache=False`` (reference) and with a cache (M-CACHE ``RecordingCache(dict)`` / ``RecordingLRU`` passed as
  the user cache, and the library's own ``cache=True`` LRU); every result is compared element-wise.
* ``cache.hit_semantics`` (oracle 2, offline over the M-CACHE event log): ``_cache_transform``'s tape function is
  wrapped so that every ``contains/get/set`` on the user cache is logged together with the tape (as the cache sees
  it, i.e. after device preprocessing) that caused it.  Every *served hit* (a ``get``) pairs the tape that asked with
  the tape whose result is stored; the pair must be result-equivalent for the requested measurements under the
  independent R-SV reference (validated against an individual cache-off execution of each tape; if R-SV has no
  model for the tape, the individual cache-off executions are the reference).  A hit between tapes with different
  reference results is a violation even if this batch's numbers happen to agree.

Mechanism tags (computed from the witness = structural diff of the two tapes that shared a key):
* ``cachekey-angle-mod-2pi``         only differences: top-level RX/RY/RZ/Rot/U3… angles shifted by a multiple of 2π
* ``cachekey-wrapped-angle-mod-2pi`` same, but at least one shifted leaf sits inside a symbolic wrapper
                                     (Adjoint/Pow/Controlled/Prod/…), where the "global" phase becomes observable
* ``cachekey-array-str-elision``     only differences: entries of an array with > 1000 entries at positions that
                                     ``str(ndarray)`` elides ("...")
* ``cachekey-array-str-precision``   only differences: array entries differing below the 8 digits ``str(ndarray)`` prints
* ``cache-lru-eviction-error``       execution with a (small) LRU cache raises because an entry scheduled as a hit was
                                     evicted before its post-processing ran
* ``cachekey-round-1e-10`` (not a violation): the tapes differ only by <= 1e-10 in parameters (documented 10-digit rounding of
  the key); results can then differ only at a discontinuity of the circuit in that parameter — counted and sampled in evidence
* anything else → ``cachekey-collision:<what differs>`` / ``cache-exception:<type>`` / ``cache-result-diff:unexplained``
"""
import math
import warnings
from collections.abc import MutableMapping

import numpy as np

from pv.ctx import fingerprint

META = {
    "id": "C05",
    "level": "exploration",
    "technique": "differential execution cache-on vs cache-off + recorded cache history (contains/get/set with the causing tape) "
                 "checked offline: every served hit pairs result-equivalent tapes (R-SV reference)",
    "level_text": "Generated batches with planted duplicates and near-duplicates (angles congruent mod 2pi/4pi on plain and wrapped "
                  "rotations, 1e-12 perturbations, wire/trainable/measurement/control-value variations, large arrays differing in the "
                  "middle, sub-print-precision array perturbations) are executed with cache off, with a recording user cache, and with "
                  "cache=True; histories reuse one cache across several qp.execute / QNode calls. Results are compared element-wise and "
                  "every served cache hit is judged against an independent state-vector reference of both tapes.",
    "level_note": "Reference = numpy einsum simulator on the tape the cache saw (matrices from the documented-formula table where "
                  "tabulated, otherwise qp.matrix), validated per tape against an individual cache-off execution; tapes it cannot model "
                  "(eigvals measurements, BasisState first, >12 wires) fall back to individual cache-off executions (counters hit_reference.*). "
                  "Only default.qubit, shots=None results are compared (finite-shot tapes only take part in the hit analysis). Tolerance "
                  "1e-9*max(1,|ref|). Pairs that differ only by <= 1e-10 in parameters (the key's documented 10-digit rounding) are accepted "
                  "hits; where their results still differ (fractional matrix power at a branch cut) the case is recorded under "
                  "rounding_hits_at_discontinuity, not as a violation. Witnesses are throttled to 2 per (monitor, mechanism) and shard so "
                  "that frequent known mechanisms cannot crowd out a fresh one; all are counted (counters violations.*). Not driven: "
                  "gradients/hessians computed through the cache (forward results only), BasisState with >= 1000 entries (not "
                  "constructible), devices other than default.qubit.",
    "shards": {"quick": 4, "thorough": 8},
    "budget_s": {"quick": 45, "thorough": 230},
    "min_evals": {"quick": 3000, "thorough": 40000},
    "min_nontrivial": {"quick": 200, "thorough": 2000},
    "deciding": ["cache.differential", "cache.hit_semantics"],
    "rule": "case = one batch (or one history of batches / QNode calls sharing a cache) built from a random base circuit plus planted "
            "variants; distinct = fingerprint of all tapes' deep structure; non-trivial = the recording cache actually served >= 1 hit",
    "assumptions": ["cache-off execution on a fresh default.qubit device is the reference semantics",
                    "device preprocessing maps each input tape to exactly one tape (asserted per case; otherwise the differential oracle alone decides)"],
}

MOD2PI = ("RX", "RY", "RZ", "Rot", "U1", "U2", "U3", "PhaseShift")
TWO_PI = 2 * math.pi


# =============================================================================== M-CACHE
class Recorder:
    """Wraps ``_cache_transform``'s tape function: knows which tape is causing the current cache access."""

    def __init__(self):
        self.cur = None
        self.boundary = []  # tapes seen by the cache transform since last reset (in order)

    def install(self):
        from pennylane.workflow._cache_transform import _cache_transform as ct

        orig = ct._tape_transform  # pylint: disable=protected-access
        rec = self

        def _cache_transform(tape, cache):  # same name: Transform repr/name unchanged
            rec.boundary.append(tape)
            prev, rec.cur = rec.cur, tape
            try:
                tapes, fn = orig(tape, cache)
            finally:
                rec.cur = prev

            def post(results, _fn=fn, _tape=tape):
                p, rec.cur = rec.cur, _tape
                try:
                    return _fn(results)
                finally:
                    rec.cur = p

            return tapes, post

        _cache_transform.__wrapped__ = orig
        _cache_transform.__doc__ = orig.__doc__
        _cache_transform.__module__ = orig.__module__
        ct._tape_transform = _cache_transform  # pylint: disable=protected-access
        self._ct, self._orig = ct, orig

    def uninstall(self):
        self._ct._tape_transform = self._orig  # pylint: disable=protected-access


class RecordingCache(dict):
    """User cache (a real dict) that logs every access with the tape that caused it."""

    def __init__(self, rec):
        super().__init__()
        self.rec = rec
        self.log = []
        self.pos = 0
        self.value_owner = {}

    def __contains__(self, k):
        r = dict.__contains__(self, k)
        self.log.append(("contains", k, r, self.rec.cur))
        return r

    def __getitem__(self, k):
        self.log.append(("get", k, None, self.rec.cur))
        return dict.__getitem__(self, k)

    def __setitem__(self, k, v):
        self.log.append(("set", k, v is None, self.rec.cur))
        dict.__setitem__(self, k, v)


class RecordingLRU(MutableMapping):
    """User cache backed by a real cachetools.LRUCache (eviction!) with the same logging."""

    def __init__(self, rec, maxsize):
        from cachetools import LRUCache

        self.inner = LRUCache(maxsize=maxsize)
        self.maxsize = maxsize
        self.rec = rec
        self.log = []
        self.pos = 0
        self.value_owner = {}

    def __contains__(self, k):
        r = k in self.inner
        self.log.append(("contains", k, r, self.rec.cur))
        return r

    def __getitem__(self, k):
        self.log.append(("get", k, None, self.rec.cur))
        return self.inner[k]

    def __setitem__(self, k, v):
        self.log.append(("set", k, v is None, self.rec.cur))
        self.inner[k] = v

    def __delitem__(self, k):
        del self.inner[k]

    def __iter__(self):
        return iter(self.inner)

    def __len__(self):
        return len(self.inner)


# =============================================================================== reference results (R-SV)
class NoRef(Exception):
    pass


def _obs_matrix(qp, obs):
    from pv.ref import bridge

    name = type(obs).__name__
    if name == "Hermitian":
        return np.asarray(obs.data[0], dtype=complex)
    try:
        M, _ = bridge.op_matrix(obs)
    except bridge.NoReference as e:
        raise NoRef(str(e)) from e
    return M


def ref_results(qp, tape):
    """Independent results of an analytic tape: tuple of numpy arrays (one per measurement)."""
    from pv.ref import bridge, sv

    if tape.shots:
        raise NoRef("finite shots")
    W = list(tape.wires)
    n = len(W)
    if n > 12:
        raise NoRef("too many wires")
    if all(isinstance(w, (int, np.integer)) and not isinstance(w, bool) for w in W) and sorted(W) == list(range(n)):
        W = sorted(W)  # default.qubit convention: labels that already are 0..n-1 are not re-mapped (state/probs() order = 0..n-1)
    ops = list(tape.operations)
    init = None
    if ops and type(ops[0]).__name__ == "StatePrep":
        v = np.asarray(ops[0].data[0])
        sw = list(ops[0].wires)
        if v.ndim != 1 or v.shape[0] != 2 ** len(sw):
            raise NoRef("StatePrep shape")
        rest = [w for w in W if w not in sw]
        T = np.zeros([2] * n, dtype=complex).reshape(2 ** len(sw), -1)
        T[:, 0] = v
        T = T.reshape([2] * n)  # axes: sw..., rest...
        order = sw + rest
        init = np.transpose(T, [order.index(w) for w in W])
        ops = ops[1:]
    gates = []
    for o in ops:
        nm = type(o).__name__
        if nm in ("StatePrep", "BasisState", "AmplitudeEmbedding", "MidMeasure", "MidMeasureMP", "Conditional", "Snapshot", "Allocate", "Deallocate"):
            raise NoRef(nm)
        if nm in ("Barrier", "WireCut"):
            continue
        if getattr(o, "batch_size", None):
            raise NoRef("broadcast")
        try:
            M, _ = bridge.op_matrix(o)
        except bridge.NoReference as e:
            raise NoRef(str(e)) from e
        except Exception as e:  # noqa: BLE001 - no matrix for this op
            raise NoRef(f"{nm}: {type(e).__name__}") from e
        k = len(o.wires)
        if M.shape == (1, 1) or k == 0:
            gates.append((np.asarray(M).reshape(()), []))
        else:
            if M.shape != (2**k, 2**k):
                raise NoRef(f"{nm}: matrix shape {M.shape}")
            gates.append((M, list(o.wires)))
    psi = sv.run(gates, W, init=init)
    out = []
    for mp in tape.measurements:
        t = type(mp).__name__
        if getattr(mp, "mv", None) is not None:
            raise NoRef("mcm measurement")
        if t == "StateMP":
            if len(mp.wires) and list(mp.wires) != W:
                raise NoRef("state with wires")
            out.append(psi)
        elif t == "DensityMatrixMP":
            out.append(sv.reduced_dm(sv.density(psi), W, list(mp.wires)))
        elif t == "ProbabilityMP":
            if mp.obs is not None:
                raise NoRef("probs(op)")
            out.append(sv.probs(psi, W, list(mp.wires) or None))
        elif t in ("ExpectationMP", "VarianceMP"):
            if mp.obs is None:
                raise NoRef("eigvals measurement")
            O = _obs_matrix(qp, mp.obs)
            ow = list(mp.obs.wires)
            if O.shape != (2 ** len(ow), 2 ** len(ow)):
                raise NoRef("obs shape")
            e = sv.expval(psi, O, ow, W).real
            if t == "VarianceMP":
                e2 = sv.expval(psi, O @ O, ow, W).real
                out.append(np.asarray(e2 - e * e))
            else:
                out.append(np.asarray(e))
        elif t == "PurityMP":
            rho = sv.reduced_dm(sv.density(psi), W, list(mp.wires))
            out.append(np.asarray(np.trace(rho @ rho).real))
        elif t == "VnEntropyMP":
            rho = sv.reduced_dm(sv.density(psi), W, list(mp.wires))
            out.append(np.asarray(sv.vn_entropy(rho, base=mp.log_base)))
        elif t == "MutualInfoMP":
            a, b = [list(w) for w in mp._wires]  # pylint: disable=protected-access
            D = sv.density(psi)
            s = lambda ws: sv.vn_entropy(sv.reduced_dm(D, W, ws), base=mp.log_base)  # noqa: E731
            out.append(np.asarray(s(a) + s(b) - s(a + b)))
        else:
            raise NoRef(t)
    return tuple(out)


def _flat(res):
    """Flatten a result (possibly nested tuple/list of arrays) into a list of complex arrays."""
    if isinstance(res, (tuple, list)):
        out = []
        for r in res:
            out.extend(_flat(r))
        return out
    return [np.asarray(res, dtype=complex)]


def res_diff(a, b):
    """(max abs difference, scale) between two results; inf on shape mismatch."""
    fa, fb = _flat(a), _flat(b)
    if len(fa) != len(fb):
        return float("inf"), 1.0
    d, sc = 0.0, 1.0
    for x, y in zip(fa, fb):
        if x.shape != y.shape:
            if x.size == y.size:
                x, y = x.reshape(-1), y.reshape(-1)
            else:
                return float("inf"), 1.0
        if x.size:
            if not (np.all(np.isfinite(x)) and np.all(np.isfinite(y))):
                if np.array_equal(np.isnan(x), np.isnan(y)) and np.allclose(np.nan_to_num(x), np.nan_to_num(y), atol=1e-9):
                    continue
                return float("inf"), 1.0
            d = max(d, float(np.max(np.abs(x - y))))
            sc = max(sc, float(np.max(np.abs(y))))
    return d, sc


def differs(a, b, rel=1e-9):
    d, sc = res_diff(a, b)
    return d > rel * sc, d


# =============================================================================== witness classifier
def _children(op):
    """(child operators, number of leading scalar data) of a symbolic/composite operator, mirroring ``op.data`` layout."""
    ops_ = getattr(op, "operands", None)
    if ops_:
        return list(ops_), 0
    base = getattr(op, "base", None)
    if base is not None and hasattr(base, "data"):
        lead = 1 if hasattr(op, "scalar") and type(op).__name__ not in ("Pow", "Pow2", "PowOperation", "PowOpObs", "PowObs") else 0
        return [base], lead
    return [], 0


def _leaf_of(op, p_idx, depth=0, chain=()):
    """Locate the leaf operator owning ``op.data[p_idx]``: returns (leaf, depth, chain of wrapper class names)."""
    kids, lead = _children(op)
    if not kids:
        return op, depth, chain
    if p_idx < lead:
        return op, depth, chain
    i = p_idx - lead
    for k in kids:
        n = len(k.data)
        if i < n:
            return _leaf_of(k, i, depth + 1, chain + (type(op).__name__,))
        i -= n
    return op, depth, chain


def _skeleton(op, depth=0):
    """Structure of an operator/measurement without numeric data: classes, wires, non-numeric hyper-parameters."""
    if op is None or depth > 12:
        return None
    t = type(op).__name__
    if t.endswith("MP"):
        ev = getattr(op, "_eigvals", None)
        return ("MP", t, _skeleton(op.obs, depth + 1), tuple(op.wires), repr(getattr(op, "mv", None)), None if ev is None else np.shape(ev),
                repr(getattr(op, "log_base", None)), repr(getattr(op, "_wires", None)))
    kids, _ = _children(op)
    hp = []
    try:
        H = dict(op.hyperparameters)
    except Exception:  # noqa: BLE001
        H = {}
    for k in sorted(H, key=str):
        v = H[k]
        if hasattr(v, "wires") and hasattr(v, "name") and not isinstance(v, str):
            continue  # child operator (covered by kids)
        if isinstance(v, (list, tuple)) and v and all(hasattr(e, "wires") and hasattr(e, "name") for e in v):
            continue
        if isinstance(v, np.ndarray) and v.size > 16:
            hp.append((k, "array", v.shape))
        else:
            hp.append((k, repr(v)))
    z = repr(getattr(op, "z", None)) if t.startswith("Pow") else None
    cv = tuple(bool(x) for x in getattr(op, "control_values", ())) if hasattr(op, "control_values") else None
    return (t, getattr(op, "name", None), tuple(getattr(op, "wires", ())), tuple(hp), z, cv, tuple(np.shape(d) for d in op.data),
            tuple(_skeleton(k, depth + 1) for k in kids))


def _visible(idx, shape):
    """Would ``str(ndarray)`` (threshold 1000, edgeitems 3) print the entry at ``idx``?"""
    return all(n <= 6 or i < 3 or i >= n - 3 for i, n in zip(idx, shape))


def _array_kinds(a, b):
    """Set of kinds of entry-wise differences between two arrays: elision / round / precision / value / shape."""
    a, b = np.asarray(a), np.asarray(b)
    if a.shape != b.shape:
        return {"shape"}
    neq = np.argwhere(a != b)
    if not len(neq):
        return set()
    scale = max(float(np.max(np.abs(a))), 1e-300)
    kinds = set()
    for i in neq[:5000]:
        i = tuple(int(x) for x in i)
        d = abs(complex(a[i]) - complex(b[i]))
        if a.size > 1000 and not _visible(i, a.shape):
            kinds.add("elision")
        elif d <= 1e-10:
            kinds.add("round")
        elif d <= 2e-6 * scale:
            kinds.add("precision")
        else:
            kinds.add("value")
    return kinds


def classify(qp, A, B):
    """Mechanism tag for a key collision between tapes A (owner of the stored result) and B (served from it)."""
    try:
        if repr(A.shots) != repr(B.shots):
            return "cachekey-collision:shots"
        if len(A.operations) != len(B.operations) or len(A.measurements) != len(B.measurements):
            return "cachekey-collision:structure"
        for x, y in zip(list(A.operations) + list(A.measurements), list(B.operations) + list(B.measurements)):
            if _skeleton(x) != _skeleton(y):
                nm = type(x).__name__
                return f"cachekey-collision:skeleton:{'measurement' if nm.endswith('MP') else getattr(x, 'name', nm)}"
        if list(A.trainable_params) != list(B.trainable_params):
            return "cachekey-collision:trainable_params"
        kinds = set()
        pa, pb = A.get_parameters(trainable_only=False), B.get_parameters(trainable_only=False)
        if len(pa) != len(pb):
            return "cachekey-collision:structure"
        for i, (x, y) in enumerate(zip(pa, pb)):
            x, y = np.asarray(x), np.asarray(y)
            if x.shape == y.shape and np.array_equal(x, y):
                continue
            info = A.par_info[i]
            top = info["op"]
            leaf, depth, _ = _leaf_of(top, info["p_idx"])
            lname = getattr(leaf, "name", type(leaf).__name__)
            in_meas = i >= sum(len(o.data) for o in A.operations)
            if x.size == 1 and y.size == 1 and x.shape == y.shape:
                d = complex(y.reshape(-1)[0] - x.reshape(-1)[0])
                if abs(d) <= 1e-10:
                    kinds.add("round")
                elif lname in MOD2PI and abs(d.imag) < 1e-12 and abs(d.real / TWO_PI - round(d.real / TWO_PI)) < 1e-9 and round(d.real / TWO_PI) != 0:
                    kinds.add("mod2pi-wrapped" if (depth > 0 or in_meas) else "mod2pi")
                else:
                    kinds.add(f"param:{lname}")
            else:
                for k in _array_kinds(x, y):
                    kinds.add(k if k in ("elision", "precision", "round") else f"array-{k}:{lname}")
        for ma, mb in zip(A.measurements, B.measurements):
            ea, eb = getattr(ma, "_eigvals", None), getattr(mb, "_eigvals", None)
            if ea is not None and eb is not None:
                for k in _array_kinds(ea, eb):
                    kinds.add(k if k in ("elision", "precision", "round") else f"array-{k}:eigvals")
        real = kinds - {"round"}
        if not kinds:
            return "cachekey-collision:no-structural-difference"
        if not real:
            return "cachekey-round-1e-10"
        if real <= {"mod2pi"}:
            return "cachekey-angle-mod-2pi"
        if real <= {"mod2pi", "mod2pi-wrapped"}:
            return "cachekey-wrapped-angle-mod-2pi"
        if real == {"elision"}:
            return "cachekey-array-str-elision"
        if real == {"precision"}:
            return "cachekey-array-str-precision"
        return "cachekey-collision:" + "+".join(sorted(real))
    except Exception as e:  # noqa: BLE001 - classifier must never hide a violation
        return f"cachekey-collision:unclassified:{type(e).__name__}"


# =============================================================================== generators
def _wrap(qp, rng, g, extra_wires):
    """Random symbolic wrapper around gate g (may need control wires from ``extra_wires``)."""
    kind = int(rng.integers(12))
    cw = [w for w in extra_wires if w not in g.wires]
    z = [0.5, 2, 3, -1, 1.5, 1 / 3, -0.5, 0.25][int(rng.integers(8))]

    def ctrl(op):
        if not cw:
            return qp.adjoint(op)
        k = 1 if len(cw) < 2 or rng.random() < 0.6 else 2
        ws = [cw[int(i)] for i in rng.choice(len(cw), size=k, replace=False)]
        cv = [int(v) for v in rng.integers(0, 2, size=k)] if rng.random() < 0.5 else [1] * k
        return qp.ctrl(op, control=ws, control_values=cv)

    if kind == 0:
        return qp.adjoint(g)
    if kind == 1:
        return qp.pow(g, z)
    if kind == 2:
        return ctrl(g)
    if kind == 3:
        return ctrl(qp.adjoint(g))
    if kind == 4:
        return ctrl(qp.pow(g, z))
    if kind == 5:
        return qp.adjoint(qp.pow(g, z))
    if kind == 6:
        return qp.pow(qp.adjoint(g), z)
    if kind == 7:
        others = [w for w in extra_wires if w not in g.wires]
        h = qp.RY(float(rng.uniform(-3, 3)), wires=others[0]) if others else qp.RZ(float(rng.uniform(-3, 3)), wires=g.wires[0])
        return qp.prod(g, h)
    if kind == 8:
        return ctrl(ctrl(g))
    if kind == 9 and cw:
        return qp.ops.op_math.Controlled(g, control_wires=[cw[0]])
    if kind == 10:
        return ctrl(qp.prod(g, qp.S(g.wires[0])))
    return qp.adjoint(qp.adjoint(g)) if rng.random() < 0.3 else qp.pow(g, z)


def gen_measurements(qp, rng, gen, wires, phase_sensitive):
    ms = []
    if phase_sensitive:
        ms.append(qp.state())
    n = int(rng.integers(0 if ms else 1, 3))
    kinds = ("expval", "var", "probs")
    if n:
        ms += gen.random_measurements(qp, rng, wires, n=n, kinds=kinds)
    r = rng.random()
    sub = [wires[int(i)] for i in rng.choice(len(wires), size=int(rng.integers(1, len(wires) + 1)), replace=False)]
    if r < 0.08:
        ms.append(qp.density_matrix(wires=sub))
    elif r < 0.13:
        ms.append(qp.purity(wires=sub))
    elif r < 0.18:
        ms.append(qp.vn_entropy(wires=sub[:1], log_base=[None, 2][int(rng.integers(2))]))
    elif r < 0.22 and len(wires) >= 2:
        ms.append(qp.mutual_info(wires0=[wires[0]], wires1=[wires[1]]))
    return ms


def gen_base(qp, rng, gen, num):
    nw = int(rng.integers(1, 4))
    wires = num.wire_labels(rng, nw)
    extra = [w for w in ["c0", "c1", 11, 12] if w not in wires][:2]
    n_ops = int(rng.integers(1, 8))
    ops = gen.random_ops(qp, rng, wires, n_ops, patterns=0.25)
    if not any(len(o.data) for o in ops):
        ops.append(qp.RX(num.angle(rng), wires=wires[0]))
    wrapped = False
    if rng.random() < 0.6:
        cand = [i for i, o in enumerate(ops) if len(o.data) and type(o).__name__ not in ("Adjoint2", "Pow2")]
        for i in (rng.choice(cand, size=min(len(cand), int(rng.integers(1, 3))), replace=False) if cand else []):
            try:
                ops[int(i)] = _wrap(qp, rng, ops[int(i)], list(wires) + extra)
                wrapped = True
            except Exception:  # noqa: BLE001 - wrapper not constructible for this gate
                pass
    if rng.random() < 0.15:
        th = num.angle(rng)
        w0 = wires[0]
        ops.append([qp.exp(qp.Z(w0), 1j * th), qp.evolve(qp.X(w0), th), qp.ctrl(qp.exp(qp.Z(w0), 1j * th), control=extra[0])][int(rng.integers(3))])
    if rng.random() < 0.3:  # make control wires non-trivial
        for c in extra:
            if any(c in o.wires for o in ops):
                ops.insert(0, qp.Hadamard(c) if rng.random() < 0.7 else qp.RY(float(rng.uniform(0.3, 2.8)), wires=c))
    else:
        for c in extra:
            if any(c in o.wires for o in ops):
                ops.insert(0, qp.RY(float(rng.uniform(0.3, 2.8)), wires=c))
    allw = list(wires) + [c for c in extra if any(c in o.wires for o in ops)]
    ms = gen_measurements(qp, rng, gen, allw, phase_sensitive=rng.random() < 0.45)
    return qp.tape.QuantumScript(ops, ms), allw, wrapped


DELTAS = [TWO_PI, -TWO_PI, 2 * TWO_PI, -2 * TWO_PI, 3 * TWO_PI, math.pi, -math.pi, math.pi / 2, 1e-12, -1e-12, 3e-11, 1e-3, 1e-7]


def _rebuild(qp, tape, ops=None, ms=None, shots="same", trainable=None):
    t = qp.tape.QuantumScript(list(tape.operations) if ops is None else ops, list(tape.measurements) if ms is None else ms,
                              shots=tape.shots if shots == "same" else shots)
    if trainable is not None:
        t.trainable_params = trainable
    elif list(tape.trainable_params) != list(t.trainable_params):
        t.trainable_params = list(tape.trainable_params)
    return t


def variant(qp, rng, base, wires, kind):
    """One planted variant of ``base``.  Returns (tape, tag) or None."""
    params = base.get_parameters(trainable_only=False)
    scalars = [i for i, p in enumerate(params) if np.ndim(p) == 0 and not np.iscomplexobj(p)]
    if kind == "dup":
        return _rebuild(qp, base), "dup"
    if kind == "angle" and scalars:
        k = 1 if rng.random() < 0.75 else 2
        idx = [int(i) for i in rng.choice(scalars, size=min(k, len(scalars)), replace=False)]
        d = [DELTAS[int(rng.integers(len(DELTAS)))] for _ in idx]
        new = [type(params[i])(params[i] + dd) if isinstance(params[i], float) else np.asarray(params[i]) + dd for i, dd in zip(idx, d)]
        t = base.bind_new_parameters(new, idx)
        t.trainable_params = list(base.trainable_params)
        return t, "angle"
    if kind == "array":
        arrs = [i for i, p in enumerate(params) if np.ndim(p) >= 1 and np.size(p) > 1]
        if not arrs:
            return None
        i = int(arrs[int(rng.integers(len(arrs)))])
        a = np.array(params[i], copy=True)
        d = [1e-3, 1e-12, 0.5][int(rng.integers(3))]
        idx = tuple(int(rng.integers(n)) for n in a.shape)
        if a.dtype.kind in "iub":  # Projector basis state / BasisState bits: flip one
            a[idx] = 1 - a[idx]
        elif a.ndim == 2 and a.shape[0] == a.shape[1]:  # keep Hermitian matrices Hermitian
            a[idx] += d
            if idx[0] != idx[1]:
                a[idx[::-1]] += d
        else:
            a[idx] += d
        t = base.bind_new_parameters([a], [i])
        t.trainable_params = list(base.trainable_params)
        return t, "array"
    if kind == "wires":
        ops = list(base.operations)
        cand = [i for i, o in enumerate(ops) if len(o.wires) >= 1]
        if not cand or len(wires) < 2:
            return None
        i = int(cand[int(rng.integers(len(cand)))])
        o = ops[i]
        if len(o.wires) >= 2:
            a, b = o.wires[0], o.wires[1]
            wm = {a: b, b: a}
        else:
            other = [w for w in wires if w not in o.wires]
            if not other:
                return None
            wm = {o.wires[0]: other[int(rng.integers(len(other)))]}
        ops[i] = qp.map_wires(o, wm)
        return _rebuild(qp, base, ops=ops), "wires"
    if kind == "trainable" and params:
        npar = len(params)
        k = int(rng.integers(0, npar + 1))
        tr = sorted(int(i) for i in rng.choice(npar, size=k, replace=False))
        if tr == list(base.trainable_params):
            return None
        return _rebuild(qp, base, trainable=tr), "trainable"
    if kind == "meas":
        ms = list(base.measurements)
        j = int(rng.integers(len(ms)))
        m = ms[j]
        t = type(m).__name__
        if t == "ProbabilityMP" and len(m.wires) >= 2:
            ms[j] = qp.probs(wires=list(m.wires)[::-1])
        elif t == "ExpectationMP" and m.obs is not None:
            r = rng.random()
            if r < 0.3:
                ms[j] = qp.var(m.obs)
            elif r < 0.6:
                ms[j] = qp.expval(qp.s_prod([1.0 + 1e-3, -1.0, 2.0, 1.0 + 1e-12][int(rng.integers(4))], m.obs))
            else:
                ms[j] = qp.expval(m.obs + 0.5 * qp.Identity(m.obs.wires[0]))
        elif t == "VarianceMP" and m.obs is not None:
            ms[j] = qp.expval(m.obs)
        elif t == "StateMP":
            ms[j] = qp.density_matrix(wires=wires)
        elif t in ("DensityMatrixMP", "PurityMP", "VnEntropyMP") and len(m.wires) >= 1 and len(wires) >= 2:
            other = [w for w in wires if w not in m.wires] or [w for w in wires if w != m.wires[0]]
            ws = [other[0]] + list(m.wires)[1:]
            ms[j] = {"DensityMatrixMP": qp.density_matrix, "PurityMP": qp.purity, "VnEntropyMP": qp.vn_entropy}[t](wires=ws)
        else:
            ms.append(qp.expval(qp.Z(wires[0])))
        return _rebuild(qp, base, ms=ms), "meas"
    if kind == "cv":
        ops = list(base.operations)
        cand = [i for i, o in enumerate(ops) if type(o).__name__ in ("ControlledOp2", "ControlledOp", "Controlled") and len(o.control_wires)]
        if not cand:
            return None
        i = int(cand[int(rng.integers(len(cand)))])
        o = ops[i]
        cv = [bool(v) for v in o.control_values]
        f = int(rng.integers(len(cv)))
        cv[f] = not cv[f]
        ops[i] = qp.ctrl(o.base, control=list(o.control_wires), control_values=cv)
        return _rebuild(qp, base, ops=ops), "cv"
    if kind == "shots":
        if any(type(m).__name__ not in ("ExpectationMP", "VarianceMP", "ProbabilityMP") for m in base.measurements):
            return None
        return _rebuild(qp, base, shots=int(rng.integers(5, 50))), "shots"
    if kind == "hyper":
        ops = list(base.operations)
        cand = [i for i, o in enumerate(ops) if type(o).__name__ == "Pow2"]
        if not cand:
            return None
        i = int(cand[int(rng.integers(len(cand)))])
        o = ops[i]
        ops[i] = qp.pow(o.base, float(o.z) + [1.0, 2.0, -1.0, 0.5][int(rng.integers(4))])
        return _rebuild(qp, base, ops=ops), "hyper"
    return None


def gen_batch_case(qp, rng, gen, num):
    """A batch built from 1–2 bases and planted variants. Returns (tapes, tags)."""
    tapes, tags = [], []
    for _ in range(1 if rng.random() < 0.7 else 2):
        base, wires, wrapped = gen_base(qp, rng, gen, num)
        if any(type(m).__name__ == "StateMP" for m in base.measurements) and rng.random() < 0.1:
            pass
        fam = [("angle",), ("angle", "dup"), ("angle", "dup", "wires", "trainable", "meas", "cv", "hyper", "shots", "array")][int(rng.integers(3))]
        tapes.append(base)
        tags.append("base")
        for _k in range(int(rng.integers(1, 5))):
            kind = fam[int(rng.integers(len(fam)))]
            try:
                v = variant(qp, rng, base, wires, kind)
            except Exception:  # noqa: BLE001 - variant not constructible
                v = None
            if v is not None:
                tapes.append(v[0])
                tags.append(v[1])
    order = rng.permutation(len(tapes))
    return [tapes[int(i)] for i in order], [tags[int(i)] for i in order]


def gen_array_case(qp, rng, gen, num):
    """Large-array / sub-print-precision family: variants of one base differing only inside one array."""
    from pv.ref import sv

    kind = ["stateprep", "unitary", "hermitian", "eigvals", "small-stateprep", "small-unitary", "small-hermitian"][int(rng.integers(7))]
    big = not kind.startswith("small")
    tapes, tags = [], []
    EPS = [4e-9, 1e-12, 1e-5]
    if big:  # one family per case: variants differ from the base either at elided positions or below print precision, never both
        prec_family = rng.random() < 0.25
    else:
        prec_family = True

    def pick(r):
        """Map a uniform draw to a variant kind of this case's family."""
        if prec_family:
            return "eps" if r < 0.7 else "edge" if r < 0.85 else "dup"
        return "middle" if r < 0.6 else "edge" if r < 0.85 else "dup"

    def perturb(a, where, eps):
        b = np.array(a, copy=True)
        if where == "middle":
            idx = tuple(int(rng.integers(4, n - 4)) if n > 8 else int(rng.integers(n)) for n in b.shape)
        elif where == "edge":
            idx = tuple(int([0, 1, 2, n - 1, n - 2][int(rng.integers(5))]) for n in b.shape)
        else:
            idx = tuple(int(rng.integers(n)) for n in b.shape)
        return b, idx

    if kind in ("stateprep", "small-stateprep"):
        n = 10 if big else int(rng.integers(1, 3))
        v = rng.normal(size=2**n)
        if np.iscomplexobj(v) or rng.random() < 0.4:
            v = v + 1j * rng.normal(size=2**n)
        v = v / np.linalg.norm(v)
        ws = list(range(n))
        tail = [qp.RX(num.angle(rng), wires=0), qp.CNOT([0, n - 1])] if n > 1 else [qp.RY(num.angle(rng), wires=0)]
        tail = tail[: int(rng.integers(0, len(tail) + 1))]
        ms = [[qp.probs(wires=ws)], [qp.expval(qp.Z(0) @ qp.Z(n - 1) if n > 1 else qp.Z(0))], [qp.state()], [qp.expval(qp.X(0)), qp.probs(wires=[0])]][int(rng.integers(4))]
        mk = lambda vec: qp.tape.QuantumScript([qp.StatePrep(vec, wires=ws)] + tail, ms)  # noqa: E731
        tapes.append(mk(v))
        tags.append("base")
        for _ in range(int(rng.integers(1, 4))):
            r = pick(rng.random())
            w = np.array(v, copy=True)
            if r == "middle":  # swap two middle entries (norm preserved)
                i, j = [int(x) for x in rng.choice(np.arange(4, 2**n - 4), size=2, replace=False)]
                w[i], w[j] = w[j], w[i]
                tg = "array-middle"
            elif r == "edge":  # swap two edge entries (printed -> different key)
                i, j = (0, 1) if rng.random() < 0.5 else (2**n - 1, 2**n - 2)
                w[i], w[j] = w[j], w[i]
                tg = "array-edge"
            elif r == "eps":  # tiny rotation between two printed entries
                i, j = 0, 1
                eps = EPS[int(rng.integers(3))]
                c, s = math.cos(eps), math.sin(eps)
                w[i], w[j] = c * v[i] - s * v[j], s * v[i] + c * v[j]
                tg = f"array-eps{eps:g}"
            else:
                tg = "dup"
            tapes.append(mk(w))
            tags.append(tg)
    elif kind in ("unitary", "small-unitary"):
        n = 5 if big else int(rng.integers(1, 3))
        U = sv.haar_unitary(rng, 2**n)
        ws = list(range(n))
        ms = [[qp.probs(wires=ws)], [qp.expval(qp.Z(0))], [qp.state()], [qp.expval(qp.X(n - 1)), qp.var(qp.Z(0))]][int(rng.integers(4))]
        pre = [qp.Hadamard(w) for w in ws[: int(rng.integers(0, n + 1))]]
        mk = lambda M: qp.tape.QuantumScript(pre + [qp.QubitUnitary(M, wires=ws)], ms)  # noqa: E731
        tapes.append(mk(U))
        tags.append("base")
        for _ in range(int(rng.integers(1, 4))):
            r = pick(rng.random())
            if r == "middle":  # conjugate by a permutation of two middle basis states -> only middle rows/cols change
                i, j = [int(x) for x in rng.choice(np.arange(4, 2**n - 4), size=2, replace=False)]
                P = np.eye(2**n)
                P[[i, j]] = P[[j, i]]
                V, tg = P @ U @ P.T, "array-middle"
            elif r == "edge":
                P = np.eye(2**n)
                P[[0, 1]] = P[[1, 0]]
                V, tg = P @ U @ P.T, "array-edge"
            elif r == "eps":
                eps = EPS[int(rng.integers(3))]
                ph = np.ones(2**n, dtype=complex)
                ph[-1] = np.exp(1j * eps)
                V, tg = U @ np.diag(ph), f"array-eps{eps:g}"
            else:
                V, tg = U.copy(), "dup"
            tapes.append(mk(V))
            tags.append(tg)
    elif kind in ("hermitian", "small-hermitian"):
        n = 5 if big else int(rng.integers(1, 3))
        scale = [1.0, 1.0, 1e3][int(rng.integers(3))]
        A = rng.normal(size=(2**n, 2**n))
        if rng.random() < 0.5:
            A = A + 1j * rng.normal(size=(2**n, 2**n))
        A = scale * (A + A.conj().T) / 2
        ws = list(range(n))
        ops = [qp.RY(float(rng.uniform(0.2, 2.9)), wires=w) for w in ws] + ([qp.CNOT([0, n - 1])] if n > 1 else [])
        kindm = int(rng.integers(2))
        mk = lambda H: qp.tape.QuantumScript(ops, [qp.expval(qp.Hermitian(H, wires=ws)) if kindm == 0 else qp.var(qp.Hermitian(H, wires=ws))])  # noqa: E731
        tapes.append(mk(A))
        tags.append("base")
        for _ in range(int(rng.integers(1, 4))):
            r = pick(rng.random())
            B = np.array(A, copy=True)
            if r == "middle":
                i = int(rng.integers(4, 2**n - 4))
                B[i, i] += scale * float(rng.uniform(0.5, 2.0))
                tg = "array-middle"
            elif r == "edge":
                B[0, 0] += scale * float(rng.uniform(0.5, 2.0))
                tg = "array-edge"
            elif r == "eps":
                eps = EPS[int(rng.integers(3))]
                B[0, 0] += scale * eps
                tg = f"array-eps{eps:g}"
            else:
                tg = "dup"
            tapes.append(mk(B))
            tags.append(tg)
    else:  # eigvals of a diagonal measurement on 10 wires
        from pennylane.measurements import ExpectationMP, VarianceMP

        n = 10
        ws = list(range(n))
        ev = rng.normal(size=2**n)
        ops = [qp.RY(float(rng.uniform(0.2, 2.9)), wires=w) for w in ws]
        cls = ExpectationMP if rng.random() < 0.6 else VarianceMP
        mk = lambda e: qp.tape.QuantumScript(ops, [cls(eigvals=e, wires=ws)])  # noqa: E731
        tapes.append(mk(ev))
        tags.append("base")
        for _ in range(int(rng.integers(1, 3))):
            e2 = np.array(ev, copy=True)
            if rng.random() < 0.7:
                e2[int(rng.integers(4, 2**n - 4))] += float(rng.uniform(50, 200))
                tg = "array-middle"
            else:
                e2[0] += 1.0
                tg = "array-edge"
            tapes.append(mk(e2))
            tags.append(tg)
    order = rng.permutation(len(tapes))
    return [tapes[int(i)] for i in order], [tags[int(i)] for i in order]


# =============================================================================== the check
PER_MECH = 2  # witnesses kept per (monitor, mechanism) and shard; every violation is still counted (counters "violations.*")


def report(ctx, monitor, message, mech, case=None, observed=None, expected=None):
    """ctx.violation throttled per (monitor, mechanism) so that frequent known mechanisms can never crowd a fresh one
    out of the bounded witness list."""
    if mech == "cachekey-round-1e-10":
        # The two tapes differ only by <= 1e-10 in parameters: the key's documented 10-digit rounding merges them on purpose.
        # Their results can only differ where the circuit is discontinuous in the parameter (fractional matrix power at a
        # branch cut, e.g. Pow(CRZ(2pi +- 1e-12), 0.5)): ill-conditioned input, recorded but not a violation of C05.
        ctx.count("rounding_hits_at_discontinuity")
        served = (case or {}).get("served_tape") or {}
        ctx.note_add("rounding_hits_at_discontinuity_samples",
                     {"monitor": monitor, "message": message[:160], "case": (case or {}).get("case"),
                      "served_tape_ops": [f"{o.get('op')}{o.get('params')}" for o in served.get("ops", [])][:8]}, cap=4)
        return
    ctx.count(f"violations.{monitor}.{mech}")
    if ctx.counters[f"violations.{monitor}.{mech}"] <= PER_MECH:
        ctx.violation(monitor, message, case=case, mech=mech, observed=observed, expected=expected)


class Judge:
    """Offline checker over M-CACHE logs + the differential oracle."""

    def __init__(self, ctx, qp, gen, rec):
        self.ctx, self.qp, self.gen, self.rec = ctx, qp, gen, rec
        self.memo = {}

    def device(self):
        return self.qp.device("default.qubit")

    def reference(self, tape):
        """Reference result of one tape (as the cache saw it): R-SV validated by an individual cache-off execution."""
        key = id(tape)
        if key in self.memo and self.memo[key][0] is tape:
            return self.memo[key][1], self.memo[key][2]
        ctx = self.ctx
        real = None
        try:
            with warnings.catch_warnings():
                warnings.simplefilter("ignore")
                real = self.qp.execute([tape], self.device(), cache=False)[0]
        except Exception as e:  # noqa: BLE001
            ctx.count("ref_real_failed")
            ctx.note_add("ref_real_errors", f"{type(e).__name__}: {str(e)[:100]}")
        ref, how = None, None
        try:
            ref = ref_results(self.qp, tape)
            if len(tape.measurements) == 1:
                ref = ref[0]
        except NoRef as e:
            ctx.count("ref_no_model")
            ctx.note_add("ref_no_model_reasons", str(e)[:60])
        except Exception as e:  # noqa: BLE001 - harness reference failed: fall back, never judge with it
            ctx.count("ref_error")
            ctx.note_add("ref_errors", f"{type(e).__name__}: {str(e)[:100]}")
        if ref is not None and real is not None:
            bad, d = differs(ref, real, rel=1e-8)
            if bad:
                ctx.count("ref_disagrees_real")
                ctx.note_add("ref_disagrees_real_samples", {"tape": self.gen.describe(tape), "diff": d})
                ref, how = real, "real"
            else:
                how = "rsv"
        elif ref is not None:
            how = "rsv-unvalidated"
            ref = None  # never judge with an unvalidated reference
        elif real is not None:
            ref, how = real, "real"
        self.memo[key] = (tape, ref, how)
        if len(self.memo) > 4000:
            self.memo.clear()
        return ref, how

    def consume(self, cache, case):
        """Process new log entries of a recording cache; returns {id(tape): (owner tape, mech or None)} for served hits."""
        ctx = self.ctx
        served = {}
        log = cache.log
        while cache.pos < len(log):
            kind, key, flag, tape = log[cache.pos]
            cache.pos += 1
            ctx.event(f"cache.{kind}", key=str(key)[-8:], flag=flag, case=case.get("case"), step=case.get("step"),
                      tape=None if tape is None else fingerprint(self.gen.tape_struct(tape)) if len(ctx.events) < 200 else None)
            if kind == "set" and not flag:
                cache.value_owner[key] = tape
            elif kind == "contains":
                ctx.count("cache_lookups")
                if flag:
                    ctx.count("cache_contains_true")
            elif kind == "get":
                owner = cache.value_owner.get(key)
                if owner is None or tape is None:
                    ctx.count("get_without_owner")
                    continue
                ctx.count("cache_hits_served")
                served[id(tape)] = (owner, self.judge_pair(owner, tape, case))
        return served

    def judge_pair(self, owner, tape, case):
        ctx, gen = self.ctx, self.gen
        ctx.ev("cache.hit_semantics")
        if owner is tape:
            ctx.count("hits_same_object")
            return None
        try:
            same = gen.tape_struct(owner) == gen.tape_struct(tape)
        except Exception:  # noqa: BLE001
            same = False
        if same:
            ctx.count("hits_identical_structure")
            return None
        if repr(owner.shots) != repr(tape.shots):
            mech = classify(self.qp, owner, tape)
            report(ctx, "cache.hit_semantics", "cache hit between tapes with different shots", mech,
                   case={**case, "owner": gen.describe(owner), "served": gen.describe(tape)})
            return mech
        if tape.shots:
            ctx.count("hits_finite_shots_not_judged")
            return None
        r1, how1 = self.reference(owner)
        r2, how2 = self.reference(tape)
        if r1 is None or r2 is None:
            ctx.inconclusive_case("no reference for a hit pair")
            return None
        ctx.count(f"hit_reference.{how1 if how1 == how2 else 'mixed'}")
        bad, d = differs(r2, r1)
        if not bad:
            ctx.count("hits_equivalent_nonidentical")
            return None
        mech = classify(self.qp, owner, tape)
        report(ctx, "cache.hit_semantics",
               f"cache served the stored result of a semantically different tape (reference results differ by {d:.3g}) [{mech}]", mech,
               case={**case, "owner_of_stored_result": gen.describe(owner), "served_tape": gen.describe(tape),
                     "owner_hash": owner.hash, "served_hash": tape.hash, "reference": how1 if how1 == how2 else f"{how1}/{how2}"},
               observed=_head(r1), expected=_head(r2))
        return mech


def _head(res, n=6):
    out = []
    for a in _flat(res):
        out.append([complex(z) if abs(z.imag) > 0 else float(z.real) for z in a.reshape(-1)[:n]])
    return out


def _exec(qp, tapes, dev, **kw):
    with warnings.catch_warnings():
        warnings.simplefilter("ignore")
        return qp.execute(tapes, dev, **kw)


def _same_hash(a, b):
    try:
        return a.hash == b.hash
    except Exception:  # noqa: BLE001
        return False


def _n_distinct_keys(tapes):
    try:
        return len({t.hash for t in tapes})
    except Exception:  # noqa: BLE001
        return len(tapes)


def run_batch(ctx, qp, gen, J, tapes, tags, mode, case):
    """Differential oracle on one batch. mode: ('dict',) | ('lru', maxsize) ; plus a cache=True run. Returns #hits served."""
    rec = J.rec
    analytic = [not t.shots for t in tapes]
    try:
        r_off = _exec(qp, tapes, J.device(), cache=False)
    except Exception as e:  # noqa: BLE001 - the batch itself is not executable: generator's problem, not the cache's
        ctx.reject(f"uncached-execution:{type(e).__name__}")
        ctx.note_add("uncached_rejections", f"{type(e).__name__}: {str(e)[:100]}")
        return None
    hits = 0
    runs = []
    if mode[0] == "dict":
        runs.append(("user-dict", RecordingCache(rec)))
    elif mode[0] == "lru":
        runs.append((f"user-lru", RecordingLRU(rec, mode[1])))
    elif mode[0] == "shared":
        runs.append(("shared", mode[1]))
    runs.append(("cache=True", None))
    mech_by_index = {}
    for label, cache in runs:
        rec.boundary = []
        kw = {"cache": cache} if cache is not None else {"cache": True, "cachesize": mode[2] if len(mode) > 2 else 10000}
        size = getattr(cache, "maxsize", None) if cache is not None else kw["cachesize"]
        try:
            r_on = _exec(qp, tapes, J.device(), **kw)
        except Exception as e:  # noqa: BLE001
            ctx.ev("cache.differential")
            nd = _n_distinct_keys(tapes)
            if isinstance(e, (KeyError, RuntimeError)) and size is not None and size < nd and (cache is None or isinstance(cache, RecordingLRU)):
                mech = "cache-lru-eviction-error"
            else:
                mech = f"cache-exception:{type(e).__name__}"
            report(ctx, "cache.differential", f"execution with {label} (size {size}) raised {type(e).__name__}: {str(e)[:120]} while cache=False succeeds [{mech}]",
                   mech, case={**case, "mode": label, "cachesize": size, "tapes": [gen.describe(t) for t in tapes][:8], "tags": tags,
                               "hashes": [t.hash for t in tapes]})
            if cache is not None:
                cache.pos = len(cache.log)
            continue
        served = {}
        boundary = list(rec.boundary)
        if cache is not None:
            served = J.consume(cache, case)
            hits += len(served)
            if len(boundary) == len(tapes):
                for i, bt in enumerate(boundary):
                    if id(bt) in served:
                        mech_by_index[i] = served[id(bt)][1]
            else:
                ctx.count("boundary_not_one_to_one")
        for i, (a, b) in enumerate(zip(r_off, r_on)):
            if not analytic[i]:
                continue
            ctx.ev("cache.differential")
            bad, d = differs(b, a)
            if bad:
                mech = mech_by_index.get(i) if cache is not None else None
                if not mech:  # explain from the batch itself: whose (cache-off) result was served under the same key?
                    for j, tj in enumerate(tapes):
                        if j != i and analytic[j] and _same_hash(tj, tapes[i]) and not differs(b, r_off[j])[0]:
                            mech = classify(qp, tj, tapes[i])
                            break
                mech = mech or "cache-result-diff:unexplained"
                report(ctx, "cache.differential", f"{label}: result of tape {i} ({tags[i]}) differs from cache=False by {d:.3g} [{mech}]", mech,
                       case={**case, "mode": label, "index": i, "tags": tags, "tapes": [gen.describe(t) for t in tapes][:8]},
                       observed=_head(b), expected=_head(a))
    return hits


def case_batch(ctx, qp, gen, num, J, rng, idx):
    arr = rng.random() < 0.22
    tapes, tags = (gen_array_case if arr else gen_batch_case)(qp, rng, gen, num)
    r = rng.random()
    nd = _n_distinct_keys(tapes)
    if r < 0.7:
        mode = ("dict", None, 10000)
    elif r < 0.85:
        mode = ("lru", int(rng.integers(max(1, nd), nd + 4)), 10000)  # big enough: eviction-free by construction
    else:
        mode = ("dict", None, int(rng.integers(1, 4)))  # cache=True with a tiny cachesize
    case = {"kind": "array-batch" if arr else "batch", "case": idx}
    hits = run_batch(ctx, qp, gen, J, tapes, tags, mode, case)
    if hits is None:
        return
    fp = fingerprint(*[gen.tape_struct(t) for t in tapes])
    ctx.case(fp, nontrivial=hits > 0, cls=case["kind"], sample={"kind": case["kind"], "tags": tags, "hits": hits,
                                                                  "tapes": [gen.describe(t) for t in tapes][:3]})
    for t in set(tags):
        ctx.cover(f"variant:{t}")


def case_history(ctx, qp, gen, num, J, rng, idx):
    """2–6 executions sharing one user cache; later batches re-use / perturb earlier tapes."""
    arr = rng.random() < 0.15
    pool, tags = (gen_array_case if arr else gen_batch_case)(qp, rng, gen, num)
    if rng.random() < 0.5 and not arr:
        p2, t2 = gen_batch_case(qp, rng, gen, num)
        pool, tags = pool + p2, tags + t2
    lru = rng.random() < 0.3
    shared = RecordingLRU(J.rec, int(rng.integers(len(pool) + 1, len(pool) + 6))) if lru else RecordingCache(J.rec)
    steps = int(rng.integers(2, 7))
    hits_total = 0
    structs = []
    for s in range(steps):
        k = int(rng.integers(1, 5))
        ids = [int(i) for i in rng.integers(0, len(pool), size=k)]
        batch = [pool[i].copy() if rng.random() < 0.3 else pool[i] for i in ids]
        btags = [tags[i] for i in ids]
        case = {"kind": "history", "case": idx, "step": s, "cache": "lru" if lru else "dict"}
        h = run_batch(ctx, qp, gen, J, batch, btags, ("shared", shared, 10000), case)
        if h is None:
            continue
        hits_total += h
        structs += [gen.tape_struct(t) for t in batch]
    if structs:
        ctx.case(fingerprint(*structs), nontrivial=hits_total > 0, cls="history",
                 sample={"kind": "history", "steps": steps, "hits": hits_total, "pool_tags": tags})


def case_derived(ctx, qp, gen, num, J, rng, idx):
    """History: a tape is executed with a cache (so its ``hash`` has been computed on that very object), then tapes are DERIVED
    from it with the public API (``tape.copy(measurements=...)``, ``copy(trainable_params=...)``, ``split_non_commuting``) and
    executed with the same cache.  A derived tape must never be served the source tape's (or a sibling's) result."""
    base, wires, _wrapped = gen_base(qp, rng, gen, num)
    base = _rebuild(qp, base, ms=[m for m in base.measurements if type(m).__name__ != "StateMP"] or [qp.expval(qp.Z(wires[0]))], shots=None)
    shared = RecordingCache(J.rec)
    case = {"kind": "derived", "case": idx, "step": 0}
    if run_batch(ctx, qp, gen, J, [base], ["base"], ("shared", shared, 10000), case) is None:
        return
    _ = base.hash  # the hash of an executed tape is computed (cached property) - derived tapes must get their own
    derived, dtags = [], []
    for _k in range(int(rng.integers(2, 5))):
        ms = [m for m in gen_measurements(qp, rng, gen, wires, False) if type(m).__name__ != "StateMP"]
        if ms:
            derived.append(base.copy(measurements=ms))
            dtags.append("derived:copy-measurements")
    w0 = wires[0]
    multi = base.copy(measurements=[qp.expval(qp.X(w0)), qp.expval(qp.Z(w0)), qp.expval(qp.Y(w0)) if rng.random() < 0.5 else qp.var(qp.X(w0))])
    if run_batch(ctx, qp, gen, J, [multi], ["derived:multi"], ("shared", shared, 10000), dict(case, step=1)) is not None:
        _ = multi.hash
        try:
            tapes, _fn = qp.transforms.split_non_commuting(multi)
            derived += list(tapes)
            dtags += ["derived:split_non_commuting"] * len(tapes)
        except Exception:  # noqa: BLE001
            pass
    if not derived:
        return
    h = run_batch(ctx, qp, gen, J, derived, dtags, ("shared", shared, 10000), dict(case, step=2))
    ctx.count("derived_histories")
    ctx.case(fingerprint(gen.tape_struct(base), [gen.tape_struct(t) for t in derived]), nontrivial=True, cls="derived",
             sample={"kind": "derived", "n_derived": len(derived), "tags": dtags, "hits": h})


def case_qnode(ctx, qp, gen, num, J, rng, idx):
    """QNode calls sharing one user cache vs the same QNode with cache=False."""
    nw = int(rng.integers(1, 3))
    wrapk = int(rng.integers(5))
    ret = int(rng.integers(4))
    dev = J.device()

    def body(x, y):
        if wrapk == 0:
            qp.RX(x, wires=0)
        elif wrapk == 1:
            qp.Hadamard(0)
            qp.pow(qp.RZ(x, wires=0), 0.5)
        elif wrapk == 2:
            qp.Hadamard("c")
            qp.ctrl(qp.adjoint(qp.RX(x, wires=0)), control="c")
        elif wrapk == 3:
            qp.Rot(x, y, 0.3, wires=0)
        else:
            qp.U3(x, y, 0.2, wires=0)
        if nw > 1:
            qp.CNOT([0, 1])
            qp.RY(y, wires=1)
        if ret == 0:
            return qp.state()
        if ret == 1:
            return qp.expval(qp.X("c") if wrapk == 2 else qp.X(0))
        if ret == 2:
            return qp.probs(wires=[0]), qp.expval(qp.Z(0))
        return qp.density_matrix(wires=[0])

    shared = RecordingCache(J.rec)
    diff = [None, "parameter-shift", "backprop"][int(rng.integers(3))]
    f_on = qp.QNode(body, dev, cache=shared, diff_method=diff)
    f_off = qp.QNode(body, J.device(), cache=False, diff_method=diff)
    x0, y0 = num.angle(rng), float(rng.uniform(-3, 3))
    seq = [(x0, y0)]
    for _ in range(int(rng.integers(2, 6))):
        d = [0.0, TWO_PI, -TWO_PI, 2 * TWO_PI, math.pi, 1e-12, 0.1][int(rng.integers(7))]
        seq.append((x0 + d, y0 + (TWO_PI if rng.random() < 0.2 else 0.0)))
    hits = 0
    for s, (x, y) in enumerate(seq):
        case = {"kind": "qnode", "case": idx, "step": s, "wrap": wrapk, "ret": ret, "x": x, "y": y, "x0": x0, "diff_method": diff}
        try:
            with warnings.catch_warnings():
                warnings.simplefilter("ignore")
                a = f_off(x, y)
        except Exception as e:  # noqa: BLE001
            ctx.reject(f"uncached-qnode:{type(e).__name__}")
            return
        J.rec.boundary = []
        try:
            with warnings.catch_warnings():
                warnings.simplefilter("ignore")
                b = f_on(x, y)
        except Exception as e:  # noqa: BLE001
            ctx.ev("cache.differential")
            report(ctx, "cache.differential", f"QNode with a user cache raised {type(e).__name__}: {str(e)[:120]}", f"cache-exception:{type(e).__name__}", case=case)
            continue
        served = J.consume(shared, case)
        hits += len(served)
        mech = next((m for (_, m) in served.values() if m), None)
        ctx.ev("cache.differential")
        bad, d = differs(b, a)
        if bad:
            mech = mech or "cache-result-diff:unexplained"
            report(ctx, "cache.differential", f"QNode(cache=user dict) call {s} differs from cache=False by {d:.3g} [{mech}]", mech,
                   case=case, observed=_head(b), expected=_head(a))
    ctx.case(fingerprint("qnode", wrapk, ret, nw, repr(seq), diff), nontrivial=hits > 0, cls="qnode",
             sample={"kind": "qnode", "wrap": wrapk, "ret": ret, "calls": seq, "hits": hits})


def case_small_lru(ctx, qp, gen, num, J, rng, idx):
    """Batches with duplicates executed with a tiny LRU (library's own and a recording one): eviction paths."""
    k = int(rng.integers(2, 5))
    n = int(rng.integers(3, 9))
    size = int(rng.integers(1, 4))
    bases = [qp.tape.QuantumScript([qp.RX(float(rng.uniform(-3, 3)), wires=0), qp.RY(float(rng.uniform(-3, 3)), wires=0)],
                                   [qp.expval(qp.Z(0))] if rng.random() < 0.7 else [qp.state()]) for _ in range(k)]
    ids = [int(i) for i in rng.integers(0, k, size=n)]
    tapes = [bases[i] for i in ids]
    tags = [f"t{i}" for i in ids]
    case = {"kind": "small-lru", "case": idx, "ids": ids, "cachesize": size}
    mode = ("lru", size, size) if rng.random() < 0.5 else ("dict", None, size)
    hits = run_batch(ctx, qp, gen, J, tapes, tags, mode, case)
    ctx.case(fingerprint("small-lru", ids, size, [gen.tape_struct(t) for t in bases]), nontrivial=bool(hits), cls="small-lru",
             sample=case)


def run(ctx):
    import pennylane as qp

    from pv.gen import circ as gen
    from pv.gen import num

    warnings.filterwarnings("ignore")
    rec = Recorder()
    rec.install()
    J = Judge(ctx, qp, gen, rec)
    N = ctx.n(2000, 80000)
    try:
        for local in range(N):
            idx = local * ctx.nshards + ctx.shard
            if ctx.only_case is not None and idx != ctx.only_case:
                continue
            if not ctx.more():
                break
            ctx.case_index = idx
            rng = ctx.case_rng(idx)
            r = rng.random()
            kind = case_batch if r < 0.58 else case_history if r < 0.76 else case_qnode if r < 0.86 else case_small_lru if r < 0.94 else case_derived
            try:
                kind(ctx, qp, gen, num, J, rng, idx)
            except Exception as e:  # noqa: BLE001 - harness/generator error: inconclusive case, never silent
                import traceback

                ctx.inconclusive_case(f"{kind.__name__}: {type(e).__name__}: {e} @ " + "".join(traceback.format_tb(e.__traceback__)[-2:])[-300:])
    finally:
        rec.uninstall()
