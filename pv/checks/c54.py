"""C54 — Boson-to-qubit mappings represent truncated boson operators.

Deciding monitors (post-conditions on the real ``qp.binary_mapping`` / ``qp.unary_mapping`` / ``qp.christiansen_mapping``):

* ``map.trunc``  M·V = V·T  where M is the dense image (own densification of the returned PauliSentence data for ``ps=True``,
                 ``qp.matrix`` of the returned operator for ``ps=False``), T the *product of truncated ladder matrices in word
                 order* (b|k> = sqrt(k)|k-1> on n_states levels, pv/ref/c53_fock.py) and V the isometry of the mapping's documented
                 state-to-qubit encoding (binary: level k on ceil(log2 d) qubits per mode, least-significant bit on the first
                 qubit of the mode's block — the convention fixed by the docstring example ``binary_mapping(b†, n_states=4)``;
                 unary: one-hot on d qubits per mode; Christiansen: d = 2, level = qubit value).  M·V = V·T is "acts on the
                 encoded subspace as T" (compression V†MV = T *and* no leakage out of the code space).
* ``map.laws``   map(A+B) = map(A)+map(B) and map(A†) = map(A)† as full matrices (sums / Hermitian conjugation preserved).
* ``arith.trunc`` BoseWord/BoseSentence expression trees (``* + - ** adjoint``, scalars both sides) evaluated by the real
                 classes vs the same tree on truncated matrices (word product = concatenation, so this is exact);
                 ``arith.pure``: no binary operation changes the value of an operand.

Auxiliary (not part of the statement, reported as notes only): ``BoseWord.normal_order`` / ``shift_operator`` keep the
operator on the untruncated Fock space (compared on the low-lying columns that no truncation can reach).
"""
import numpy as np

from pv.ctx import fingerprint

META = {
    "id": "C54",
    "level": "exploration",
    "technique": "reference-model differential: image of random bosonic words/sentences restricted to the documented code space "
                 "vs products of truncated ladder matrices (intertwining relation M V = V T); linearity/adjoint post-conditions",
    "level_text": "Random bosonic words (length 0-5) and sentences on 1-3 modes with truncations 2-8 (non powers of two included) "
                  "are mapped by the real binary/unary/Christiansen mappings (ps both, wire maps, tol) and compared on the encoded "
                  "subspace with truncated ladder-matrix products; held on the inputs observed.",
    "level_note": "Trusts numpy and the encodings as transcribed from the docstrings (binary bit order is pinned by the docstring "
                  "example). Qubit counts are bounded (binary <= 9, unary <= 10 qubits) so unary with 3 modes only reaches d = 3. "
                  "For ps=False the operator is densified by qp.matrix. normal_order/shift_operator are outside the statement "
                  "and only produce notes (aux.*).",
    "shards": {"quick": 3, "thorough": 16},
    "budget_s": {"quick": 100, "thorough": 480},
    "min_evals": {"quick": 600, "thorough": 15000},
    "deciding": ["map.trunc", "map.laws", "arith.trunc"],
    "rule": "case = (bosonic operator description, mapping, n_states, ps, wire_map); distinct = distinct (description, mapping, n_states); "
            "non-trivial = operator has >= 2 ladder factors or >= 2 words",
    "assumptions": ["truncated ladder matrices and encodings transcribe the documented definitions"],
}

TOL = 1e-9
MAPS = ("binary", "unary", "christiansen")


def build_word(w):
    from pennylane.bose import BoseWord
    return BoseWord({(i, o): s for i, (o, s) in enumerate(w)})


def build(desc):
    from pennylane.bose import BoseSentence
    kind, body = desc
    if kind == "word":
        return build_word(body)
    return BoseSentence({build_word(w): c for c, w in body})


def read_word(bw):
    items = sorted(dict(bw).items())
    pos = [k[0] for k, _ in items]
    if pos != list(range(len(items))):
        raise ValueError(f"positions of BoseWord are not 0..L-1: {pos}")
    return tuple((int(k[1]), v) for k, v in items)


def read_any(obj):
    from pennylane.bose import BoseSentence, BoseWord
    if isinstance(obj, BoseWord):
        return [(1.0, read_word(obj))]
    if isinstance(obj, BoseSentence):
        return [(c, read_word(w)) for w, c in dict(obj).items()]
    raise TypeError(f"not a Bose object: {type(obj)}")


def snap(obj):
    return sorted((w, complex(np.asarray(c).reshape(-1)[0])) for c, w in read_any(obj))


def has_array_coeff(obj):
    from pennylane.bose import BoseSentence
    return isinstance(obj, BoseSentence) and any(isinstance(c, np.ndarray) for c in dict(obj).values())


def eval_real(e, impure):
    t = e[0]
    if t == "W":
        return build(("word", e[1]))
    if t == "S":
        return build(("sent", e[1]))
    if t in ("C", "A"):
        return build(("word", ((e[1], "+" if t == "C" else "-"),)))
    a = eval_real(e[1], impure)
    before_a = snap(a)
    b = before_b = None
    if t in ("mul", "add", "sub"):
        b = eval_real(e[2], impure)
        before_b = snap(b)
    try:
        if t == "mul":
            return a * b
        if t == "add":
            return a + b
        if t == "sub":
            return a - b
        if t == "pow":
            return a ** e[2]
        if t == "adj":
            return a.adjoint()
        c = e[2]
        return {"smul": lambda: a * c, "rsmul": lambda: c * a, "cadd": lambda: a + c, "rcadd": lambda: c + a,
                "csub": lambda: a - c, "rcsub": lambda: c - a}[t]()
    finally:
        if snap(a) != before_a:
            impure.append((t, has_array_coeff(a)))
        if b is not None and snap(b) != before_b:
            impure.append((t, has_array_coeff(b)))


def eval_ref(F, e, nm, d):
    t = e[0]
    I = np.eye(d**nm, dtype=complex)
    if t == "W":
        return F.bose_word_matrix(e[1], nm, d)
    if t == "S":
        return F.bose_sentence_matrix(e[1], nm, d)
    if t in ("C", "A"):
        return F.bose_word_matrix(((e[1], "+" if t == "C" else "-"),), nm, d)
    a = eval_ref(F, e[1], nm, d)
    if t == "mul":
        return a @ eval_ref(F, e[2], nm, d)
    if t == "add":
        return a + eval_ref(F, e[2], nm, d)
    if t == "sub":
        return a - eval_ref(F, e[2], nm, d)
    if t == "pow":
        return np.linalg.matrix_power(a, e[2])
    if t == "adj":
        return a.conj().T
    c = complex(np.asarray(e[2]).reshape(-1)[0])
    return {"smul": c * a, "rsmul": c * a, "cadd": a + c * I, "rcadd": a + c * I, "csub": a - c * I, "rcsub": c * I - a}[t]


def codes_for(kind, d):
    """level k -> tuple of bits on the mode's qubit block (first entry = first wire of the block)."""
    if kind == "binary":
        nq = max(1, int(np.ceil(np.log2(d))))
        return nq, [tuple((k >> j) & 1 for j in range(nq)) for k in range(d)]
    if kind == "unary":
        return d, [tuple(1 if j == k else 0 for j in range(d)) for k in range(d)]
    return 1, [(0,), (1,)]


def run(ctx):
    import warnings

    import pennylane as qp

    from pv.checks.c53 import (desc_json, expr_json, expr_size, gen_coeff, gen_expr, gen_sentence, gen_wire_map, gen_word,
                               max_orb, nfactors)
    from pv.ref import c53_fock as F

    warnings.filterwarnings("ignore")
    from pv.ref.c53_limit import limit_repeats
    limit_repeats(ctx)
    ISO = {}

    def iso(kind, nm, d):
        key = (kind, nm, d)
        if key not in ISO:
            nq, codes = codes_for(kind, d)
            ISO[key] = (nq, F.bose_isometry(codes, nm, d, nq))
        return ISO[key]

    def call(kind, op, d, **kw):
        if kind == "binary":
            return qp.binary_mapping(op, n_states=d, **kw)
        if kind == "unary":
            return qp.unary_mapping(op, n_states=d, **kw)
        return qp.christiansen_mapping(op, **kw)

    def dense(img, ps, order):
        if ps:
            return F.pauli_sentence_dense_fast([(dict(pw), c) for pw, c in img.items()], order)
        for w in img.wires:
            if w not in order:
                raise KeyError(f"wire {w!r} of the image is not in the expected wire set {order!r}")
        return np.asarray(qp.matrix(img, wire_order=order))

    def mism(M, R):
        return M.shape != R.shape or not float(np.max(np.abs(M - R))) < TOL * max(1.0, float(np.max(np.abs(R))))

    def pick_dims(r, kind):
        """(n_modes, d) within the qubit bounds."""
        if kind == "christiansen":
            return int(r.integers(1, 6)), 2
        if kind == "binary":
            maxq = 7 if ctx.quick else 9
            while True:
                nm, d = int(r.integers(1, 4)), int(r.integers(2, 9))
                if nm * max(1, int(np.ceil(np.log2(d)))) <= maxq:
                    return nm, d
        maxq = 8 if ctx.quick else 10
        while True:
            nm, d = int(r.integers(1, 4)), int(r.integers(2, 9))
            if nm * d <= maxq:
                return nm, d

    # ------------------------------------------------------------------ images
    def do_image(ci):
        gi = ci * ctx.nshards + ctx.shard
        ctx.case_index = gi
        r = ctx.case_rng(gi)
        kind = MAPS[int(r.integers(0, 3)) if r.random() < 0.8 else int(r.integers(0, 2))]
        nm, d = pick_dims(r, kind)
        maxlen = 5 if (kind != "binary" or nm * int(np.ceil(np.log2(d))) <= 6) else 3
        if r.random() < 0.5:
            desc = ("word", gen_word(r, nm, maxlen, 0 if r.random() < 0.05 else 1))
        else:
            desc = ("sent", gen_sentence(r, nm, 5 if r.random() < 0.5 else 2, maxlen if r.random() < 0.5 else 3))
        dj = desc_json(desc)
        nq, V = iso(kind, nm, d)
        nqt = nq * nm
        ps = bool(r.random() < 0.5)
        wm = gen_wire_map(r, nqt)
        tol = None if r.random() < 0.6 else float(10.0 ** -int(r.integers(11, 15)))
        kw = {"ps": ps}
        if wm is not None:
            kw["wire_map"] = wm
        if tol is not None:
            kw["tol"] = tol
        info = {**dj, "map": kind, "n_states": d, "n_modes": nm, "ps": ps, "wire_map": wm, "tol": tol}
        ctx.case(fingerprint("img", desc, kind, d), nontrivial=nfactors(desc) >= 2, cls=f"{kind}:d={d}", sample=info)
        order = [wm[i] for i in range(nqt)] if wm else list(range(nqt))
        sent = [(1.0, desc[1])] if desc[0] == "word" else list(desc[1])
        T = F.bose_sentence_matrix(sent, nm, d)
        ctx.ev("map.trunc")
        try:
            op = build(desc)
            img = call(kind, op, d, **kw)
            M = dense(img, ps, order)
        except Exception as e:  # noqa: BLE001
            ctx.violation("map.trunc", f"{kind}: raised {type(e).__name__}: {e}", case=info, mech=f"raise:{kind}")
            return
        L, Rr = M @ V, V @ T
        if mism(L, Rr):
            comp = V.conj().T @ M @ V
            what = "compression V†MV differs from the truncated product" if mism(comp, T) else "image leaks out of the code space"
            ctx.violation("map.trunc", f"{kind} n_states={d}: {what} (max |MV - VT| = {float(np.max(np.abs(L - Rr))):.3e})", case=info,
                          mech=f"trunc:{kind}", observed=V.conj().T @ M @ V, expected=T)
            return
        # laws on a pair
        if ci % 2 == 0:
            descB = ("word", gen_word(r, nm, 3, 1)) if r.random() < 0.5 else ("sent", gen_sentence(r, nm, 3, 3))
            pj = {"A": dj, "B": desc_json(descB), "map": kind, "n_states": d}
            try:
                opB = build(descB)
                o2 = list(range(nqt))
                dA = dense(call(kind, op, d, ps=True), True, o2)
                dB = dense(call(kind, opB, d, ps=True), True, o2)
                ctx.ev("map.laws")
                if mism(dense(call(kind, op + opB, d, ps=True), True, o2), dA + dB):
                    ctx.violation("map.laws", f"{kind}: map(A+B) != map(A)+map(B)", case=pj, mech=f"law-sum:{kind}")
                ctx.ev("map.laws")
                if mism(dense(call(kind, op.adjoint(), d, ps=True), True, o2), dA.conj().T):
                    ctx.violation("map.laws", f"{kind}: map(A†) != map(A)†", case=pj, mech=f"law-adj:{kind}")
                ctx.ev("map.laws")
                c = gen_coeff(r)
                if mism(dense(call(kind, c * op - opB, d, ps=True), True, o2), c * dA - dB):
                    ctx.violation("map.laws", f"{kind}: map(c·A-B) != c·map(A)-map(B)", case={**pj, "c": repr(c)}, mech=f"law-lin:{kind}")
            except Exception as e:  # noqa: BLE001
                ctx.violation("map.laws", f"{kind}: raised {type(e).__name__}: {e}", case=pj, mech=f"raise-laws:{kind}")

    # ------------------------------------------------------------------ arithmetic
    def do_arith(ci):
        gi = 10_000_000 + ci * ctx.nshards + ctx.shard
        ctx.case_index = gi
        r = ctx.case_rng(gi)
        nm = int(r.integers(1, 4))
        d = int(r.integers(2, 5)) if nm > 1 else int(r.integers(2, 8))
        e = gen_expr(r, nm, int(r.integers(1, 4)))
        nw, wl = expr_size(e)
        if nw > 300 or wl > 10:
            return
        ej = expr_json(e)
        ctx.case(fingerprint("expr", ej), nontrivial=(e[0] not in ("W", "S", "C", "A")), cls=f"expr:{e[0]}", sample={"expr": ej[:300]})
        ctx.ev("arith.trunc")
        impure = []
        try:
            res = eval_real(e, impure)
            got = F.bose_sentence_matrix(read_any(res), nm, d)
        except Exception as ex:  # noqa: BLE001
            inplace = "ufunc 'add' output" in str(ex) or "ufunc 'subtract' output" in str(ex) or "non-broadcastable output operand" in str(ex)
            ctx.violation("arith.trunc", f"raised {type(ex).__name__}: {ex}", case={"expr": ej},
                          mech="inplace-add:array-coeff" if inplace else f"raise-arith:{e[0]}")
            return
        ctx.ev("arith.pure")
        if impure:
            opn, arr = impure[0]
            ctx.violation("arith.pure", f"Bose arithmetic '{opn}' changed the value of one of its operands"
                          + (" (array-valued coefficient updated in place)" if arr else ""), case={"expr": ej},
                          mech="inplace-add:array-coeff" if arr else f"mutates-operand:{opn}")
            return
        want = eval_ref(F, e, nm, d)
        if mism(got, want):
            ctx.violation("arith.trunc", f"Bose arithmetic result differs from truncated-matrix arithmetic by {float(np.max(np.abs(got - want))):.3e}",
                          case={"expr": ej, "n_states": d, "result": repr(res)[:400]}, mech=f"arith:{e[0]}")

    # ------------------------------------------------------------------ auxiliary: normal ordering on the untruncated space
    def do_aux(ci):
        gi = 20_000_000 + ci * ctx.nshards + ctx.shard
        r = ctx.case_rng(gi)
        nm = int(r.integers(1, 3))
        w = gen_word(r, nm, 5, 2)
        L = len(w)
        d = L + 3
        keep = [col for col in range(d**nm) if all(((col // d**(nm - 1 - m)) % d) <= d - 1 - L for m in range(nm))]
        want = F.bose_word_matrix(w, nm, d)[:, keep]
        bw = build_word(w)
        info = {"word": " ".join(f"{o}{s}" for o, s in w)}
        try:
            ctx.ev("aux.normal_order")
            got = F.bose_sentence_matrix(read_any(bw.normal_order()), nm, d)[:, keep]
            if mism(got, want):
                ctx.count("aux.normal_order.mismatch")
                ctx.note_add("aux_findings", {"what": "normal_order changes the operator", **info})
            i0, i1 = int(r.integers(0, L)), int(r.integers(0, L))
            ctx.ev("aux.shift")
            got = F.bose_sentence_matrix(read_any(bw.shift_operator(i0, i1)), nm, d)[:, keep]
            if mism(got, want):
                ctx.count("aux.shift.mismatch")
                ctx.note_add("aux_findings", {"what": "shift_operator changes the operator", **info, "from": i0, "to": i1}, cap=8)
        except Exception as ex:  # noqa: BLE001
            ctx.count("aux.raise")
            ctx.note_add("aux_findings", {"what": f"raised {type(ex).__name__}: {ex}", **info}, cap=8)

    nimg, nar, naux = ctx.n(700, 24000), ctx.n(450, 12000), ctx.n(150, 3000)
    for ci in range(max(nimg, nar, naux)):
        if not ctx.more():
            break
        if ci < nimg:
            do_image(ci)
        if ci < nar:
            do_arith(ci)
        if ci < naux:
            do_aux(ci)
