"""C24 — Circuit cutting reconstructs the uncut result.

Deciding monitors:

* ``cut.value``      post-condition on the real ``qp.cut_circuit`` (tape form with ``device_wires`` and QNode form): the fragment tapes are
                     executed on default.qubit, the returned post-processing is applied and the value is compared (1e-8) with the expectation
                     value of the *uncut* circuit computed by the independent state-vector reference (pv.ref.sv / pv.ref.bridge, observable
                     matrices built here from the generated Pauli description)
* ``cut.fragments``  structural post-condition: WireCut never survives into a fragment tape, every fragment tape fits ``device_wires`` when the
                     automatic cutter was given that budget (documented), every fragment tape measures expectation values only
* ``mc.expectation`` ``qp.cut_circuit_mc`` with a ``classical_processing_fn``: the Monte-Carlo estimate is an average of ``shots`` terms bounded by
                     4^K (K cuts), so |estimate − exact| <= 4^K sqrt(2 ln(2/alpha)/shots) with probability 1 − alpha (Hoeffding, alpha = 1e-9);
                     a rejection is re-run with a fresh seed and 8x the shots, only two consecutive rejections are a violation
* ``mc.samples``     sample mode: result has shape (shots, number of sampled wires) and only contains bits
"""
import math
import warnings

import numpy as np

from pv.ctx import fingerprint

META = {
    "id": "C24",
    "level": "exploration",
    "technique": "reference-model monitor on qp.cut_circuit (reconstructed expectation value vs. independent state-vector simulation of the uncut "
                 "circuit) + Hoeffding-bounded two-stage statistical oracle on qp.cut_circuit_mc",
    "level_text": "Random 2-6 wire circuits with 1-3 manually placed WireCut operations (any position, adjacent cuts, multi-wire cuts, cuts before "
                  "the first / after the last gate, arbitrary wire labels) and automatically placed cuts (kahypar, random device_wires budgets), "
                  "Pauli-word, scaled and sum observables, tape and QNode entry points; held on the circuits observed.",
    "level_note": "Trusts numpy and the gate table of pv/ref. Observable matrices come from the generated Pauli description, not from PennyLane. "
                  "The Monte-Carlo oracle uses a distribution-free (Hoeffding) bound, so it only sees biases larger than 26.2*4^(K-1)/sqrt(shots); "
                  "cut_circuit_mc's sample mode has no documented distribution (raw fragment samples under random settings) and is only checked "
                  "structurally. opt_einsum is used when importable.",
    "shards": {"quick": 3, "thorough": 16},
    "budget_s": {"quick": 110, "thorough": 300},
    "min_evals": {"quick": 150, "thorough": 1500},
    "min_nontrivial": {"quick": 60, "thorough": 500},
    "deciding": ["cut.value", "cut.fragments", "mc.expectation"],
    "rule": "case = (circuit, cut placement, observable, entry point, cutter); distinct = distinct structural fingerprint of the tape; non-trivial = the "
            "cut(s) split the circuit into >= 2 fragments (more tapes than a single fragment's configurations) and the observable is not the identity",
    "assumptions": ["independent state-vector reference is correct", "Hoeffding bound (terms bounded by 4^K as in Eq. 35 of Peng et al.)"],
}

ALPHA = 1e-9
PAULI = {
    "I": np.eye(2, dtype=complex),
    "X": np.array([[0, 1], [1, 0]], dtype=complex),
    "Y": np.array([[0, -1j], [1j, 0]], dtype=complex),
    "Z": np.array([[1, 0], [0, -1]], dtype=complex),
}
POOL = ["PauliX", "Hadamard", "S", "T", "SX", "RX", "RY", "RZ", "PhaseShift", "Rot", "U3", "CNOT", "CZ", "CY", "SWAP", "CRX", "CRY", "CRZ",
        "IsingXX", "IsingZZ", "ControlledPhaseShift", "Toffoli", "CSWAP"]


def hoeffding(K, shots):
    return (2 * 4**K) * math.sqrt(math.log(2 / ALPHA) / (2 * shots))


def run(ctx):
    warnings.filterwarnings("ignore")
    import time as _time

    import pennylane as qp

    from pv.gen import circ, num
    from pv.ref import bridge, sv

    _t0 = _time.monotonic()

    def more():
        return (_time.monotonic() - _t0 < ctx.budget_s) or ctx.more()

    try:
        import opt_einsum  # noqa: F401
        have_oe = True
    except ImportError:
        have_oe = False

    seen = {}

    def viol(mon, msg, case, mech, **kw):
        seen[mech] = seen.get(mech, 0) + 1
        ctx.count(f"viol/{mech}")
        if seen[mech] <= 3:
            ctx.violation(mon, msg, case=case, mech=mech, **kw)

    dev = qp.device("default.qubit")

    # ------------------------------------------------------------------ generators
    def gen_word(rng, wires, allow_identity=True):
        k = int(rng.integers(1, min(len(wires), 4) + 1))
        ws = [wires[int(i)] for i in rng.permutation(len(wires))[:k]]
        letters = ["XYZ"[int(rng.integers(3))] for _ in ws]
        if allow_identity and k > 1 and rng.random() < 0.15:
            letters[int(rng.integers(k))] = "I"
        return list(zip(letters, ws))

    def build_word(word):
        fac = [{"I": qp.Identity, "X": qp.PauliX, "Y": qp.PauliY, "Z": qp.PauliZ}[p](w) for p, w in word]
        ob = fac[0]
        for f_ in fac[1:]:
            ob = ob @ f_
        return ob

    def word_matrix(word, wires):
        M = np.eye(1, dtype=complex)
        d = dict((w, p) for p, w in word)
        for w in wires:
            M = np.kron(M, PAULI[d.get(w, "I")])
        return M

    def gen_obs(rng, wires):
        """(PennyLane observable, description, dense matrix on all wires)."""
        r = rng.random()
        if r < 0.6:
            word = gen_word(rng, wires)
            return build_word(word), {"kind": "word", "word": word}, word_matrix(word, wires)
        if r < 0.75:
            word = gen_word(rng, wires)
            c = float(rng.normal())
            return c * build_word(word), {"kind": "sprod", "coeff": c, "word": word}, c * word_matrix(word, wires)
        nt = int(rng.integers(2, 4))
        words = [gen_word(rng, wires, allow_identity=False) for _ in range(nt)]
        cs = [float(rng.normal()) for _ in range(nt)]
        M = sum(c * word_matrix(w, wires) for c, w in zip(cs, words))
        if rng.random() < 0.5:
            ob = qp.Hamiltonian(cs, [build_word(w) for w in words])
            kind = "hamiltonian"
        else:
            ob = qp.sum(*[c * build_word(w) for c, w in zip(cs, words)])
            kind = "sum"
        return ob, {"kind": kind, "coeffs": cs, "words": words}, M

    def gen_circuit(rng, nw, n_ops, n_cuts, manual=True):
        wires = num.wire_labels(rng, nw, mode=["range", "range", "str", "noncontig", "perm"][int(rng.integers(5))])
        ops = circ.random_ops(qp, rng, wires, n_ops, pool=POOL, patterns=0.15)
        # make sure the circuit is entangling along a chain so that cuts actually separate something
        for a, b in zip(wires[:-1], wires[1:]):
            if rng.random() < 0.7:
                ops.insert(int(rng.integers(0, len(ops) + 1)), [qp.CNOT, qp.CZ][int(rng.integers(2))](wires=[a, b]))
        cuts = []
        if manual:
            for _ in range(n_cuts):
                pos = int(rng.integers(0, len(ops) + 1))
                if rng.random() < 0.12 and nw >= 2:
                    cw = [wires[int(i)] for i in rng.permutation(nw)[:2]]
                else:
                    cw = [wires[int(rng.integers(nw))]]
                ops.insert(pos, qp.WireCut(wires=cw))
                cuts.append((pos, cw))
                if rng.random() < 0.1:  # adjacent cut on the same wire
                    ops.insert(pos, qp.WireCut(wires=cw[:1]))
                    cuts.append((pos, cw[:1]))
        return wires, ops, cuts

    def gen_revisit(rng):
        """Designed family: a wire leaves the main fragment through a cut and re-enters it through a later cut ("out and back") after another
        wire of the same fragment was already cut, so one fragment holds two MeasureNodes and a later PrepareNode (3 cuts, integer labels)."""
        nw = int(rng.integers(3, 5))
        wires = num.wire_labels(rng, nw, mode=["range", "range", "noncontig", "perm"][int(rng.integers(4))])
        if not all(isinstance(w, (int, np.integer)) for w in wires):
            wires = list(range(nw))
        hub, a, b = [wires[int(i)] for i in rng.permutation(nw)[:3]]
        rest = [w for w in wires if w not in (hub, a, b)]
        rot = lambda w: [qp.RX, qp.RY, qp.RZ][int(rng.integers(3))](float(rng.uniform(0.3, 2.8)), wires=w)  # noqa: E731
        ent = lambda u, v: [qp.CNOT, qp.CZ][int(rng.integers(2))](wires=[u, v])  # noqa: E731
        ops = [rot(hub), rot(a), ent(hub, a), rot(b), ent(hub, b), qp.WireCut(wires=a)]
        ops += [rot(a)] + ([ent(a, rest[0]), rot(rest[0])] if rest and rng.random() < 0.7 else [])
        ops += [qp.WireCut(wires=b), rot(b)] + ([rot(b)] if rng.random() < 0.4 else []) + [qp.WireCut(wires=b), ent(hub, b) if rng.random() < 0.5 else ent(b, hub)]
        if rng.random() < 0.5:
            ops.append(rot(hub))
        return wires, ops

    def reference(ops, wires, M):
        st, frac = bridge.tape_state([o for o in ops if o.name != "WireCut"], wires)
        return float(np.real(np.vdot(st, M @ st))), frac

    def n_cut_wires(ops):
        return sum(len(o.wires) for o in ops if o.name == "WireCut")

    # ------------------------------------------------------------------ cut_circuit cases
    def cut_case(rng, idx):
        auto = rng.random() < 0.22
        nw = int(rng.integers(2, 6 if ctx.quick else 7))
        max_cuts = 2 if ctx.quick else 3
        n_cuts = 0 if auto else int(rng.integers(1, max_cuts + 1))
        wires, ops, cuts = gen_circuit(rng, nw, int(rng.integers(2, 11)), n_cuts, manual=not auto)
        revisit = (not auto) and rng.random() < 0.2
        if revisit:
            wires, ops = gen_revisit(rng)
            nw = len(wires)
            ctx.count("cut.revisit_cases")
        if n_cut_wires(ops) > max(3, max_cuts + 1):
            return
        ob, odesc, M = gen_obs(rng, wires)
        # the automatic cutter may place a dozen cuts (4^cuts contraction): its cases go through the tape entry where the number of fragment
        # tapes is visible before anything is executed
        entry = "qnode" if (rng.random() < 0.3 and not auto) else "tape"
        kw = {}
        if have_oe and rng.random() < 0.25:
            kw["use_opt_einsum"] = True
        if auto:
            budget = int(rng.integers(max(2, (nw + 1) // 2), nw)) if nw > 2 else 2
            kw["auto_cutter"] = True
            dwires = list(range(budget))
        else:
            # a cut that does not disconnect the circuit adds a wire to its fragment: the device must offer one extra wire per cut
            dwires = list(range(nw + n_cut_wires(ops) + (1 if rng.random() < 0.3 else 0)))
            if rng.random() < 0.2:
                dwires = [f"d{i}" for i in dwires]
        tape = qp.tape.QuantumScript(ops, [qp.expval(ob)])
        info = {"tape": circ.describe(tape), "wires": wires, "obs": odesc, "entry": entry, "auto": auto, "device_wires": dwires,
                "kw": {k: v for k, v in kw.items()}}
        try:
            want, frac = reference(ops, wires, M)
        except Exception as e:  # noqa: BLE001
            ctx.inconclusive_case(f"reference failed: {type(e).__name__}: {e}")
            return
        fp = fingerprint("cut", circ.tape_struct(tape), repr(odesc), entry, auto, len(dwires))
        # ---- run the real transform
        try:
            if entry == "tape":
                tapes, fn = qp.cut_circuit(tape, device_wires=qp.wires.Wires(dwires), **kw)
                if len(tapes) > 400:
                    ctx.count("skipped:too-many-fragment-tapes")
                    return
                res = qp.execute(tapes, dev, diff_method=None)
                got = fn(res)
            else:
                qdev = qp.device("default.qubit", wires=dwires)

                def qfunc():
                    for o in ops:
                        qp.apply(o)
                    return qp.expval(ob)

                node = qp.QNode(qfunc, qdev, diff_method=None)
                cutnode = qp.cut_circuit(node, **kw)
                got = cutnode()
                tapes = None
        except ValueError as e:
            msg = str(e)
            if auto and ("cut" in msg.lower() or "fragment" in msg.lower() or "partition" in msg.lower() or "No WireCut" in msg):
                ctx.reject("auto-cutter:no-cut-found")
                return
            if "No WireCut operations found" in msg:
                ctx.reject("no-wirecut")
                return
            ctx.case(fp, nontrivial=False, cls="cut/raises")
            ctx.ev("cut.value")
            viol("cut.value", f"cut_circuit raised ValueError: {msg[:300]}", info, "cut:raises:ValueError")
            return
        except Exception as e:  # noqa: BLE001
            ctx.case(fp, nontrivial=False, cls="cut/raises")
            ctx.ev("cut.value")
            viol("cut.value", f"cut_circuit raised {type(e).__name__}: {str(e)[:300]}", info, f"cut:raises:{type(e).__name__}")
            return
        ntapes = len(tapes) if tapes is not None else None
        ctx.case(fp, nontrivial=(ntapes is None or ntapes >= 7) and not np.allclose(M, np.eye(len(M)) * M[0, 0]),
                 cls=f"cut/{'auto' if auto else 'manual'}/{entry}/{odesc['kind']}/cuts={n_cut_wires(ops) if not auto else 'auto'}", sample=info)
        ctx.count("fragment_tapes", ntapes or 0)
        # ---- value
        ctx.ev("cut.value")
        try:
            g = float(np.real(np.asarray(got)))
            shape_ok = np.shape(got) == ()
        except Exception:  # noqa: BLE001
            g, shape_ok = float("nan"), False
        if not shape_ok:
            viol("cut.value", f"cut_circuit result is not a scalar: shape {np.shape(got)}", info, "cut:result-shape")
        elif not abs(g - want) <= 1e-8 * max(1.0, float(np.max(np.abs(M)))):
            viol("cut.value", f"reconstructed expectation value {g!r} differs from the uncut circuit's {want!r} (|diff| = {abs(g - want):.3e}, "
                 f"{ntapes} fragment tapes)", info, "cut:value" + ("/auto" if auto else ""), observed=g, expected=want)
        # ---- fragments
        if tapes is not None:
            ctx.ev("cut.fragments")
            bad = []
            for t in tapes:
                if any(o.name == "WireCut" for o in t.operations):
                    bad.append("WireCut survives in a fragment tape")
                if not all(type(m).__name__ == "ExpectationMP" for m in t.measurements):
                    bad.append("fragment tape with a non-expval measurement")
                if auto and not set(t.wires) <= set(dwires):
                    bad.append(f"fragment tape uses wires {list(t.wires)} outside device_wires {dwires} (auto cutter budget)")
                if auto and len(t.wires) > len(dwires):
                    bad.append(f"fragment tape with {len(t.wires)} wires > budget {len(dwires)}")
            if bad:
                viol("cut.fragments", "; ".join(sorted(set(bad))[:3]), info, "cut:fragments")

    # ------------------------------------------------------------------ cut_circuit_mc cases
    mc_state = {"confirmed": 0}

    def mc_case(rng, idx, shots, designed=False):
        nw = int(rng.integers(2, 4))
        wires = list(range(nw))
        K = 1
        if designed:
            # the sampled bit of the first fragment is perfectly correlated with the cut wire: parity of the uncut circuit is exactly +1
            nw = 2 if rng.random() < 0.5 else 3
            wires = list(range(nw))
            ops = [qp.Hadamard(0) if rng.random() < 0.6 else qp.RY(float(rng.uniform(1.0, 2.1)), 0), qp.CNOT([0, 1]), qp.WireCut(1)]
            ops.append([qp.S, qp.T, qp.PauliZ][int(rng.integers(3))](1) if rng.random() < 0.7 else qp.RZ(float(rng.uniform(-3, 3)), 1))
            mw = [0, 1]
            if nw == 3:
                ops.append(qp.CNOT([1, 2]))
                mw = [0, 2]
            if rng.random() < 0.5:
                mw = mw[::-1]
            M = word_matrix([("Z", w) for w in mw], wires)
            want, _f = reference(ops, wires, M)
        for _ in range(0 if designed else 40):  # a circuit with exactly one single-wire cut and a sizeable parity expectation
            _, ops, cuts = gen_circuit(rng, nw, int(rng.integers(2, 7)), 1)
            ops = [o.map_wires(dict(zip(_, wires))) for o in ops]
            if n_cut_wires(ops) != 1:
                continue
            k = int(rng.integers(1, nw + 1))
            mw = [wires[int(i)] for i in rng.permutation(nw)[:k]]
            word = [("Z", w) for w in mw]
            M = word_matrix(word, wires)
            want, _f = reference(ops, wires, M)
            if abs(want) > 0.35:
                break
        else:
            if not designed:
                return
        mode = "fn" if (designed or rng.random() < 0.7) else "samples"
        info = {"tape": [circ.describe_op(o) for o in ops], "sampled_wires": mw, "shots": shots, "mode": mode, "exact_parity": want}
        info["family"] = "correlated-fragment" if designed else "random"
        ctx.case(fingerprint("mc", repr(info["tape"]), mw, mode), nontrivial=True, cls=f"mc/{mode}/{info['family']}", sample=info)

        def fpar(bits):
            return (-1) ** int(np.sum(bits))

        def estimate(n, seed):
            tape = qp.tape.QuantumScript(ops, [qp.sample(wires=mw)], shots=n)
            tapes, fn = qp.cut_circuit_mc(tape, classical_processing_fn=fpar if mode == "fn" else None, device_wires=qp.wires.Wires(list(range(nw))), seed=seed)
            res = qp.execute(tapes, qp.device("default.qubit", seed=seed + 1), diff_method=None)
            return fn(res), len(tapes)

        s1 = int(rng.integers(1, 2**31 - 2))
        try:
            est, ntapes = estimate(shots, s1)
        except Exception as e:  # noqa: BLE001
            ctx.ev("mc.expectation" if mode == "fn" else "mc.samples")
            viol("mc.expectation" if mode == "fn" else "mc.samples", f"cut_circuit_mc raised {type(e).__name__}: {str(e)[:300]}", info, f"mc:raises:{type(e).__name__}")
            return
        if mode == "samples":
            ctx.ev("mc.samples")
            arr = np.asarray(est)
            if arr.shape != (shots, len(mw)) or not set(np.unique(arr).tolist()) <= {0, 1, 0.0, 1.0}:
                viol("mc.samples", f"cut_circuit_mc sample mode returned shape {arr.shape} values {np.unique(arr)[:6]} for shots={shots}, {len(mw)} wires", info, "mc:samples-structure")
            return
        ctx.ev("mc.expectation")
        e1 = float(np.real(np.asarray(est)))
        b1 = hoeffding(K, shots)
        ctx.note_add("mc.estimates", {"exact": want, "estimate": e1, "bound": b1, "shots": shots}, cap=12)
        if abs(e1 - want) <= b1:
            return
        ctx.count("mc.stage1_rejections")
        if mc_state["confirmed"] >= 1:
            ctx.count("mc.stage1_rejections_not_confirmed_again")
            return
        # two-stage confirmation: fresh seed, 8x shots
        n2 = 8 * shots
        s2 = int(np.random.default_rng([s1, 2]).integers(1, 2**31 - 2))
        est2, _ = estimate(n2, s2)
        ctx.ev("mc.expectation")
        e2 = float(np.real(np.asarray(est2)))
        b2 = hoeffding(K, n2)
        if abs(e2 - want) <= b2:
            ctx.count("mc.stage2_accepts")
            return
        mc_state["confirmed"] += 1
        viol("mc.expectation", f"cut_circuit_mc(classical_processing_fn=parity) estimates {e1:+.4f} ({shots} shots) and {e2:+.4f} ({n2} shots, fresh seed) but the uncut "
             f"circuit's parity expectation is {want:+.4f}; distribution-free bounds at alpha=1e-9 are {b1:.3f} and {b2:.3f}", {**info, "estimates": [e1, e2]},
             "mc:estimator-bias", observed=[e1, e2], expected=want)

    # ------------------------------------------------------------------ drive
    n_cut = ctx.n(330, 12000)
    n_mc = ctx.n(3, 24)
    if ctx.quick and ctx.shard > 1:
        n_mc = 0  # the confirmation stage (8x shots, one tape per shot) is expensive: two Monte-Carlo cases per quick run
    mc_shots = 2000
    mc_at = set(5 + 31 * k for k in range(n_mc))  # early positions: a time-limited shard still reaches the Monte-Carlo monitor
    for j in range(n_cut):
        if not more():
            break
        gi = ctx.shard + j * ctx.nshards
        ctx.case_index = gi
        rng = ctx.case_rng(gi)
        cut_case(rng, gi)
        if j in mc_at:
            ctx.case_index = gi + 10**7
            designed = (ctx.shard + len([x for x in mc_at if x < j])) % 2 == 0
            mc_case(ctx.case_rng(gi + 10**7), gi, 1500 if designed else mc_shots, designed=designed)
