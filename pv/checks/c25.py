"""C25 — Noise insertion and error mitigation follow their definitions.

Deciding monitors (post-conditions on the REAL functions, each against an independent model):

* ``fold.unitary``  – ``fold_global(tape, λ)``: unitary of the output operator list == unitary of the input (R-SV via the
  documented gate table, exact including global phase).
* ``fold.structure``– the output is ``U (U†U)^n  L_d†…L_s† L_s…L_d`` in exactly that order with n = ⌊(λ−1)/2⌋ and a number of
  partially folded gates k with |k − f·d/2| < 1 (f = (λ−1) mod 2, d = #gates), and k = f·d/2 exactly whenever that is an
  integer; total gate count d·(1+2n) + 2k.
* ``noise.positions`` – ``add_noise`` / ``insert``: the output operator list equals the list predicted by a plain-Python
  model (conditions re-implemented from their docstrings: op_eq, op_in, wires_in, wires_eq, and/or/not; positions all /
  start / end / operator lists, before/after; readout noise via meas_eq splitting the tape per measurement).
* ``noise.results``  – executing the noisy tapes (zero-strength channels or unitary "noise") and post-processing gives the
  reference result of the predicted circuit (for zero strength: the noiseless result).
* ``extrap.exact``   – richardson / poly / exponential extrapolation on exact model data return f(0).
* ``zne.noiseless``  – ``mitigate_with_zne`` end-to-end on a noiseless device returns the exact expectation value(s).
"""
import warnings

import numpy as np

from pv.ctx import fingerprint

META = {
    "id": "C25",
    "level": "exploration",
    "technique": "post-conditions vs independent models: R-SV unitary equivalence + structural folding formula for fold_global; plain-Python placement model for add_noise/insert (conditionals re-implemented from their docstrings); closed-form model data for the extrapolators; end-to-end ZNE on a noiseless device",
    "level_text": "Random circuits, integer and fractional scale factors, random noise models (1-4 rules, nested boolean conditions, readout rules), "
                  "all insert positions, random polynomial / exponential data sets in several interfaces; held on the cases observed.",
    "level_note": "Extrapolation tolerance is 50·eps·cond(V)^2·scale with a floor of 1e-9·scale (the implementation solves the normal equations with a "
                  "pseudo-inverse, so its error grows with the squared condition number of the column-scaled Vandermonde matrix V). QNode-level "
                  "`level=` placement of add_noise is checked for the documented levels top/user/device only by position of the transform in the pipeline.",
    "shards": {"quick": 3, "thorough": 9},
    "budget_s": {"quick": 110, "thorough": 180},
    "min_evals": {"quick": 800, "thorough": 8000},
    "deciding": ["fold.unitary", "fold.structure", "noise.positions", "noise.results", "extrap.exact", "zne.noiseless"],
    "rule": "case = (function, generated input); distinct = content fingerprint; non-trivial = folding actually adds gates (λ > 1) / at least one "
            "noise operation is predicted / polynomial of degree >= 1 with non-zero leading coefficient",
    "assumptions": ["reference gate table transcribes the documented formulas", "conditional semantics as stated in the docstrings of pennylane.noise"],
}

TOL = 1e-9
POOL = ["PauliX", "PauliY", "PauliZ", "Hadamard", "S", "T", "SX", "RX", "RY", "RZ", "PhaseShift", "Rot", "U3", "CNOT", "CZ", "CY", "SWAP", "CRX", "CRZ",
        "IsingXX", "IsingZZ", "Toffoli", "CSWAP", "ControlledPhaseShift", "ISWAP"]


def sig(op):
    """Structural signature of an operator (class name through adjoint wrappers, parameters, wires)."""
    from pv.ref import c26_ref as R
    name = type(op).__name__
    base = getattr(op, "base", None)
    if name.startswith("Adjoint") and base is not None:
        return ("adj", sig(base))
    return (getattr(op, "name", name), tuple(tuple(np.round(R._np(d).astype(complex).ravel(), 12).tolist()) for d in op.data), tuple(op.wires))


def rand_circuit(qp, gen, rng, nw=None, n_ops=None, labels=None):
    nw = nw or int(rng.integers(1, 5))
    wires = labels or gen.labels(rng, nw)
    n_ops = n_ops if n_ops is not None else int(rng.integers(1, 11))
    specs = []
    while len(specs) < n_ops:
        name = POOL[int(rng.integers(len(POOL)))]
        k = gen.NW.get(name, {"Toffoli": 3, "CSWAP": 3}.get(name, 1))
        if k > nw:
            continue
        s = gen.named_spec(rng, name, [wires[int(i)] for i in rng.choice(nw, size=k, replace=False)])
        if rng.random() < 0.12:
            s = {"t": "adj", "base": s}
        specs.append(s)
    return wires, specs


# ----------------------------------------------------------------------------- fold_global
def part_fold(ctx, qp, gen, n_cases):
    from pv.ref import c26_ref as R
    from pv.ref import sv
    for i in range(n_cases):
        if not ctx.more():
            break
        rng = ctx.case_rng(100000 + i * ctx.nshards + ctx.shard)
        wires, specs = rand_circuit(qp, gen, rng)
        d = len(specs)
        r = rng.random()
        if r < 0.35:
            lam = float(rng.integers(1, 8))
        elif r < 0.8:
            lam = float(np.round(rng.uniform(1.0, 6.9), int(rng.integers(1, 4))))
        else:
            lam = float([1.0, 2.0, 1.5, 2.5, 3.0, 1 + 2 / max(d, 1), 1 + 1 / max(d, 1), 2.999999999, 3.0000000001, 1.0000001][int(rng.integers(10))])
        ops = gen.build_ops(qp, specs)
        ms = [qp.expval(qp.PauliZ(wires[0]))]
        tape = qp.tape.QuantumScript(ops, ms)
        info = {"wires": wires, "ops": gen.describe({"wires": wires, "dev_wires": None, "batch": None, "ops": specs, "meas": []})["ops"], "scale_factor": lam}
        ctx.case(fingerprint("fold", repr(info)), nontrivial=lam > 1 + 1e-9, cls="fold_global", sample=info)
        try:
            (out,), fn = qp.noise.fold_global(tape, lam)
        except Exception as e:  # noqa: BLE001
            ctx.ev("fold.structure")
            ctx.violation("fold.structure", f"fold_global raised {type(e).__name__}: {str(e)[:200]}", case=info, mech=f"fold:raises:{type(e).__name__}")
            continue
        oo = list(out.operations)
        # ---- structure
        ctx.ev("fold.structure")
        n = int(np.floor((lam - 1) / 2 + 1e-12))
        f = (lam - 1) - 2 * n
        base = [sig(o) for o in ops]
        adj = [("adj", s) if s[0] != "adj" else None for s in base]
        got = [sig(o) for o in oo]

        def same(a, b):
            """signature equality where adjoint(adjoint(x)) may have been simplified to x"""
            if a == b:
                return True
            return a[0] == "adj" and a[1][0] == "adj" and a[1][1] == b

        problems = []
        pos = 0
        if not all(same(x, y) for x, y in zip(got[:d], base)) or len(got) < d:
            problems.append("does not start with the original circuit U")
        pos = d
        for rep in range(n):
            seg = got[pos:pos + 2 * d]
            exp = [("adj", s) for s in base[::-1]] + base
            if len(seg) != 2 * d or not all(same(a, b) or same(b, a) for a, b in zip(seg, exp)):
                problems.append(f"global fold {rep + 1} is not U^dagger U in the documented order")
                break
            pos += 2 * d
        rest = got[pos:]
        k2 = len(rest)
        if k2 % 2:
            problems.append(f"partial fold has odd length {k2}")
        k = k2 // 2
        target = f * d / 2
        if not abs(k - target) < 1 - 1e-9 and not problems:
            problems.append(f"number of partially folded gates k={k} is not within one of (lambda-1 mod 2)*d/2 = {target:.6f}")
        if abs(target - round(target)) < 1e-9 and k != int(round(target)) and not problems:
            problems.append(f"k={k} but (lambda-1 mod 2)*d/2 = {target:.6f} is an integer")
        if not problems and k:
            exp = [("adj", s) for s in base[::-1][:k]] + base[d - k:]
            if not all(same(a, b) or same(b, a) for a, b in zip(rest, exp)):
                problems.append("partial fold is not L_d^dagger..L_s^dagger L_s..L_d in the documented order")
        if not problems and len(got) != d * (1 + 2 * n) + 2 * k:
            problems.append("gate count mismatch")
        if problems:
            ctx.violation("fold.structure", f"fold_global(lambda={lam}, d={d}): " + "; ".join(problems) + f" (output has {len(got)} gates)", case=info,
                          mech="fold:structure:" + problems[0].split(" ")[0])
        # ---- unitary equivalence (exact, including phase)
        ctx.ev("fold.unitary")
        try:
            U0 = sv.unitary([(R.op_matrix(o)[0], list(o.wires)) for o in ops], wires)
            U1 = sv.unitary([(R.op_matrix(o)[0], list(o.wires)) for o in oo], wires)
            err = float(np.max(np.abs(U0 - U1)))
            if not err < 1e-8 * max(1, len(oo) / 10):
                ctx.violation("fold.unitary", f"fold_global(lambda={lam}): unitary of the folded circuit differs from the input's by {err:.3e}", case=info, mech="fold:unitary")
        except Exception as e:  # noqa: BLE001
            ctx.inconclusive_case(f"fold unitary reference failed: {type(e).__name__}: {e}")
        if list(out.measurements) != list(tape.measurements) and [repr(m) for m in out.measurements] != [repr(m) for m in tape.measurements]:
            ctx.violation("fold.structure", "fold_global changed the measurements", case=info, mech="fold:measurements")
    # documented rejection: circuits with channels cannot be folded
    if ctx.shard == 0:
        try:
            qp.noise.fold_global(qp.tape.QuantumScript([qp.Hadamard(0), qp.BitFlip(0.1, 0)], [qp.expval(qp.PauliZ(0))]), 2.0)
            ctx.note("fold_with_channel", "accepted (documented to raise ValueError)")
        except ValueError:
            ctx.count("documented_rejection.fold_channel")


# ----------------------------------------------------------------------------- conditionals model
def rand_cond(rng, wires, depth=0):
    """Random condition AST + builder.  AST: ("op_eq", name) | ("op_in", [names]) | ("wires_in", [w]) | ("wires_eq", [w]) | ("and"/"or", a, b) | ("not", a)."""
    r = rng.random()
    if depth < 2 and r < 0.35:
        kind = ["and", "or", "not"][int(rng.integers(3))]
        if kind == "not":
            return ("not", rand_cond(rng, wires, depth + 1))
        return (kind, rand_cond(rng, wires, depth + 1), rand_cond(rng, wires, depth + 1))
    kind = ["op_eq", "op_in", "wires_in", "wires_eq"][int(rng.integers(4))]
    if kind == "op_eq":
        return ("op_eq", POOL[int(rng.integers(len(POOL)))], ["str", "cls", "inst"][int(rng.integers(3))])
    if kind == "op_in":
        return ("op_in", [POOL[int(i)] for i in rng.choice(len(POOL), size=int(rng.integers(1, 5)), replace=False)], ["str", "cls"][int(rng.integers(2))])
    k = int(rng.integers(1, len(wires) + 1))
    return (kind, [wires[int(i)] for i in rng.choice(len(wires), size=k, replace=False)])


def build_cond(qp, gen, rng, ast):
    N = qp.noise
    k = ast[0]
    if k == "and":
        return build_cond(qp, gen, rng, ast[1]) & build_cond(qp, gen, rng, ast[2])
    if k == "or":
        return build_cond(qp, gen, rng, ast[1]) | build_cond(qp, gen, rng, ast[2])
    if k == "not":
        return ~build_cond(qp, gen, rng, ast[1])

    def rep(name, how):
        if how == "str":
            return name
        if how == "cls":
            return getattr(qp, name)
        nw = gen.NW.get(name, {"Toffoli": 3, "CSWAP": 3}.get(name, 1))
        return gen.build_op(qp, gen.named_spec(rng, name, [f"z{j}" for j in range(nw)]), lambda x: x)
    if k == "op_eq":
        return N.op_eq(rep(ast[1], ast[2]))
    if k == "op_in":
        return N.op_in([rep(n, ast[2]) for n in ast[1]])
    if k == "wires_in":
        return N.wires_in(ast[1])
    return N.wires_eq(ast[1])


def eval_cond(ast, name, wires):
    """Documented semantics: type-based op_eq / op_in (irrespective of wires and parameters); wires_in = subset; wires_eq = set equality."""
    k = ast[0]
    if k == "and":
        return eval_cond(ast[1], name, wires) and eval_cond(ast[2], name, wires)
    if k == "or":
        return eval_cond(ast[1], name, wires) or eval_cond(ast[2], name, wires)
    if k == "not":
        return not eval_cond(ast[1], name, wires)
    if k == "op_eq":
        return name == ast[1]
    if k == "op_in":
        return name in ast[1]
    if k == "wires_in":
        return set(wires) <= set(ast[1])
    return set(wires) == set(ast[1])


NOISE_KINDS = ["PhaseDamping", "AmplitudeDamping", "BitFlip", "DepolarizingChannel", "RX", "PauliX", "RZ"]


def rand_noise(rng):
    """(kind, param, style): style 'each' = custom function applying the 1-qubit noise op on every wire of the evaluated operator;
    'before' = same but queued before re-applying the operator itself; 'partial' = partial_wires (1-wire gates only)."""
    kind = NOISE_KINDS[int(rng.integers(len(NOISE_KINDS)))]
    if kind == "PauliX" and rng.random() < 0.7:  # unitary "noise" identical to a circuit gate is dropped by add_noise (tagged add_noise:noise-equals-gate): keep it rare
        kind = "RZ"
    p = 0.0 if kind not in ("RX", "RZ", "PauliX") else float(rng.uniform(-2, 2))
    return (kind, p, ["each", "each", "before", "partial"][int(rng.integers(4))])


def build_noise(qp, nz):
    kind, p, style = nz
    cls = getattr(qp, kind)

    def apply(w):
        return cls(wires=w) if kind == "PauliX" else cls(p, wires=w)

    if style == "partial":
        return qp.noise.partial_wires(cls) if kind == "PauliX" else qp.noise.partial_wires(cls, p)
    if style == "before":
        def fn(op, **kwargs):
            for w in op.wires:
                apply(w)
            qp.apply(op)
        return fn

    def fn2(op, **kwargs):
        for w in op.wires:
            apply(w)
    return fn2


def noise_sigs(nz, wires):
    kind, p, style = nz
    ps = () if kind == "PauliX" else ((complex(np.round(p, 12)),),)
    if style == "partial":
        return [(kind, ps, tuple(wires))]
    return [(kind, ps, (w,)) for w in wires]


def opname(s):
    return "Adjoint" if s["t"] == "adj" else s["name"]


def part_add_noise(ctx, qp, gen, n_cases):
    from pv.ref import c26_ref as R
    from pv.ref import c28_dm as D
    for i in range(n_cases):
        if not ctx.more():
            break
        rng = ctx.case_rng(200000 + i * ctx.nshards + ctx.shard)
        nw = int(rng.integers(1, 5))
        wires, specs = rand_circuit(qp, gen, rng, nw=nw)
        # add_noise(level="user") first decomposes templates and Adjoint wrappers (documented): keep plain gates here
        specs = [s for s in specs if s["t"] != "adj"] or [gen.named_spec(rng, "Hadamard", [wires[0]])]
        rules = []
        for _ in range(int(rng.integers(1, 5))):
            ast = rand_cond(rng, wires)
            nz = rand_noise(rng)
            if nz[2] == "partial":  # partial_wires puts ONE operator on all wires of the gate: restrict to single-wire gates
                ast = ("and", ast, ("op_in", [n for n in POOL if gen.NW.get(n, 3) == 1], "str"))
            rules.append((ast, nz))
        # readout rules
        mkinds = ["expval", "probs", "var"]
        ms_spec = []
        for _ in range(int(rng.integers(1, 4))):
            mk = mkinds[int(rng.integers(3))]
            w = wires[int(rng.integers(nw))]
            ms_spec.append((mk, w))
        mrules = []
        if rng.random() < 0.5:
            for _ in range(int(rng.integers(1, 3))):
                mrules.append((mkinds[int(rng.integers(3))], [wires[int(j)] for j in rng.choice(nw, size=int(rng.integers(1, nw + 1)), replace=False)],
                               ("PauliX", 0.0, "each") if rng.random() < 0.5 else ("RX", float(rng.uniform(-2, 2)), "each")))
        ops = gen.build_ops(qp, specs)

        def mk_meas(mk, w):
            return {"expval": lambda: qp.expval(qp.PauliZ(w)), "var": lambda: qp.var(qp.PauliX(w)), "probs": lambda: qp.probs(wires=[w])}[mk]()
        ms = [mk_meas(mk, w) for mk, w in ms_spec]
        tape = qp.tape.QuantumScript(ops, ms)
        info = {"wires": wires, "ops": gen.describe({"wires": wires, "dev_wires": None, "batch": None, "ops": specs, "meas": []})["ops"],
                "rules": [[repr(a), list(z)] for a, z in rules], "measurements": ms_spec, "readout_rules": [[a, b, list(c)] for a, b, c in mrules]}
        # ---- model
        try:
            model_map = {}
            for ast, nz in rules:
                model_map[build_cond(qp, gen, rng, ast)] = build_noise(qp, nz)
            meas_map = {}
            for mk, ws, nz in mrules:
                fnm = {"expval": qp.expval, "var": qp.var, "probs": qp.probs}[mk]
                kind, p, _ = nz

                def rfn(mp, kind=kind, p=p, **kwargs):
                    for w in mp.wires:
                        if kind == "PauliX":
                            qp.PauliX(w)
                        else:
                            qp.RX(p, wires=w)
                meas_map[qp.noise.meas_eq(fnm) & qp.noise.wires_in(ws)] = rfn
            nm = qp.NoiseModel(model_map, meas_map=meas_map) if meas_map else qp.NoiseModel(model_map)
        except Exception as e:  # noqa: BLE001
            ctx.inconclusive_case(f"noise model construction failed: {type(e).__name__}: {e}")
            continue
        if len(model_map) != len(rules):  # two random conditions hashed equal: rule dropped by the dict, model would disagree for a harness reason
            ctx.count("skipped.duplicate_condition")
            continue
        expected = []
        n_noise = 0
        self_equal = False  # a requested noise operator that is identical to the gate it follows (tagging only)
        for s, o in zip(specs, ops):
            cur = [sig(o)]
            for ast, nz in rules:
                if eval_cond(ast, opname(s), list(o.wires)):
                    ns = noise_sigs(nz, list(o.wires))
                    self_equal |= sig(o) in ns
                    n_noise += len(ns)
                    # a noise function that re-queues the operator itself places its other operators around the current list
                    cur = (ns + cur) if nz[2] == "before" else (cur + ns)
            expected += cur
        # readout: per measurement list of extra signatures; group identical
        groups = []
        for (mk, w) in ms_spec:
            extra = []
            for rk, ws, nz in mrules:
                if rk == mk and {w} <= set(ws):
                    extra += noise_sigs(nz, [w])
            key = tuple(extra)
            if key not in [g[0] for g in groups]:
                groups.append((key, []))
            [g for g in groups if g[0] == key][0][1].append((mk, w))
        ctx.case(fingerprint("add_noise", repr(info)), nontrivial=n_noise > 0 or bool(mrules), cls="add_noise", sample=info)
        try:
            tapes, fn = qp.add_noise(tape, nm)
        except Exception as e:  # noqa: BLE001
            ctx.ev("noise.positions")
            ctx.violation("noise.positions", f"add_noise raised {type(e).__name__}: {str(e)[:250]}", case=info, mech=f"add_noise:raises:{type(e).__name__}")
            continue
        ctx.ev("noise.positions")
        bad = None
        if len(tapes) != len(groups):
            bad = f"{len(tapes)} output tapes, model predicts {len(groups)} (one per distinct readout-noise list)"
        else:
            for t, (key, mlist) in zip(tapes, groups):
                got = [sig(o) for o in t.operations]
                exp = expected + list(key)
                if got != exp:
                    j = next((q for q, (a, b) in enumerate(zip(got, exp)) if a != b), min(len(got), len(exp)))
                    bad = f"operator list differs from the model at position {j}: got {got[j] if j < len(got) else 'END'}, expected {exp[j] if j < len(exp) else 'END'} ({len(got)} vs {len(exp)} operators)"
                    break
                if len(t.measurements) != len(mlist):
                    bad = f"tape carries {len(t.measurements)} measurements, model predicts {len(mlist)}"
                    break
        if bad:
            ctx.violation("noise.positions", "add_noise: " + bad, case=info,
                          mech="add_noise:" + ("noise-equals-gate" if self_equal else ("tapes" if "output tapes" in bad else "positions")))
            continue
        # ---- results: zero-strength channels + unitary noise -> reference of the predicted circuit, per measurement
        try:
            dev = qp.device("default.mixed", wires=wires)
            res = fn(qp.execute(list(tapes), dev, diff_method=None))
            rr = (res,) if len(ms) == 1 else res
            for k, (mk, w) in enumerate(ms_spec):
                ctx.ev("noise.results")
                key = [g[0] for g in groups if (mk, w) in g[1]][0]
                # reference circuit: original gates + unitary noise ops (channels have zero strength = identity)
                ref_ops = []
                t_ops = [t for t, g in zip(tapes, groups) if g[0] == key][0].operations
                for o in t_ops:
                    if type(o).__mro__[1].__name__ == "Channel" or type(o).__name__ in ("PhaseDamping", "AmplitudeDamping", "BitFlip", "DepolarizingChannel"):
                        continue
                    ref_ops.append(o)
                psi, _ = R.run(ref_ops, wires)
                val, _ = R.measure(mk_meas(mk, w), psi, wires)
                g = R._np(rr[k])
                if g.shape != np.shape(val) or not np.max(np.abs(g - val)) < 1e-8:
                    ctx.violation("noise.results", f"add_noise: result {k} ({mk} on {w!r}) differs from the reference of the predicted circuit"
                                  + (f" by {np.max(np.abs(g - val)):.3e}" if g.shape == np.shape(val) else f" (shape {g.shape} vs {np.shape(val)})"), case=info,
                                  mech="add_noise:results" + (":order" if len(tapes) > 1 else ""), observed=g, expected=val)
        except Exception as e:  # noqa: BLE001
            ctx.inconclusive_case(f"add_noise execution failed: {type(e).__name__}: {str(e)[:150]}")


def part_insert(ctx, qp, gen, n_cases):
    from pv.ref import c26_ref as R
    for i in range(n_cases):
        if not ctx.more():
            break
        rng = ctx.case_rng(300000 + i * ctx.nshards + ctx.shard)
        nw = int(rng.integers(1, 5))
        wires, specs = rand_circuit(qp, gen, rng, nw=nw)
        specs = [s for s in specs if s["t"] != "adj"] or [gen.named_spec(rng, "Hadamard", [wires[0]])]  # insert decomposes Adjoint wrappers (documented in its source comment)
        prep = None
        if rng.random() < 0.3:
            k = int(rng.integers(1, nw + 1))
            prep = {"t": "basis", "bits": [int(x) for x in rng.integers(0, 2, size=k)], "wires": wires[:k]}
        kind = ["PhaseDamping", "AmplitudeDamping", "RX", "BitFlip"][int(rng.integers(4))]
        p = 0.0 if kind != "RX" else float(rng.uniform(-2, 2))
        posk = ["all", "start", "end", "oplist", "op"][int(rng.integers(5))]
        before = bool(rng.integers(2)) if posk in ("oplist", "op", "all") else False
        names = [POOL[int(j)] for j in rng.choice(len(POOL), size=int(rng.integers(1, 4)), replace=False)]
        position = {"all": "all", "start": "start", "end": "end", "oplist": [getattr(qp, n) for n in names], "op": getattr(qp, names[0])}[posk]
        mw = wires[int(rng.integers(nw))]
        ops = gen.build_ops(qp, ([prep] if prep else []) + specs)
        ms = [qp.expval(qp.PauliZ(mw)), qp.probs(wires=[wires[0]])]
        tape = qp.tape.QuantumScript(ops, ms)
        info = {"wires": wires, "ops": gen.describe({"wires": wires, "dev_wires": None, "batch": None, "ops": ([prep] if prep else []) + specs, "meas": []})["ops"],
                "noise": [kind, p], "position": posk, "names": names if posk in ("oplist", "op") else None, "before": before}
        # ---- model
        tw = []
        for o in ops:
            for w in o.wires:
                if w not in tw:
                    tw.append(w)
        for m in ms:
            for w in m.wires:
                if w not in tw:
                    tw.append(w)
        nsig = lambda w: (kind, ((complex(np.round(p, 12)),),), (w,))  # noqa: E731
        exp = [sig(o) for o in ops[: 1 if prep else 0]]
        if posk == "start":
            exp += [nsig(w) for w in tw]
        n_noise = 0
        sel = set(names if posk == "oplist" else names[:1]) if posk in ("oplist", "op") else None
        for s, o in zip(specs, ops[1 if prep else 0:]):
            hit = posk == "all" or (sel is not None and s["name"] in sel)
            nz = [nsig(w) for w in o.wires] if hit else []
            n_noise += len(nz)
            exp += (nz + [sig(o)]) if before else ([sig(o)] + nz)
        if posk == "end":
            exp += [nsig(w) for w in tw]
        ctx.case(fingerprint("insert", repr(info)), nontrivial=n_noise > 0 or posk in ("start", "end"), cls=f"insert:{posk}", sample=info)
        try:
            (out,), fn = qp.noise.insert(tape, getattr(qp, kind), p, position=position, before=before)
        except Exception as e:  # noqa: BLE001
            ctx.ev("noise.positions")
            ctx.violation("noise.positions", f"insert raised {type(e).__name__}: {str(e)[:250]}", case=info, mech=f"insert:raises:{type(e).__name__}")
            continue
        ctx.ev("noise.positions")
        got = [sig(o) for o in out.operations]
        if got != exp:
            j = next((q for q, (a, b) in enumerate(zip(got, exp)) if a != b), min(len(got), len(exp)))
            ctx.violation("noise.positions", f"insert(position={posk}, before={before}): operator list differs from the model at position {j}: got "
                          f"{got[j] if j < len(got) else 'END'}, expected {exp[j] if j < len(exp) else 'END'} ({len(got)} vs {len(exp)} operators)", case=info,
                          mech=f"insert:positions:{posk}" + (":before" if before else ""))
            continue
        try:
            ctx.ev("noise.results")
            res = fn(qp.execute([out], qp.device("default.mixed", wires=wires), diff_method=None))
            ref_ops = [o for o in out.operations if type(o).__name__ not in ("PhaseDamping", "AmplitudeDamping", "BitFlip")]
            psi, _ = R.run(ref_ops, wires)
            for k, m in enumerate(ms):
                val, _ = R.measure(m, psi, wires)
                g = R._np(res[k])
                if g.shape != np.shape(val) or not np.max(np.abs(g - val)) < 1e-8:
                    ctx.violation("noise.results", f"insert: result {k} with zero-strength / unitary noise differs from the reference", case=info, mech="insert:results",
                                  observed=g, expected=val)
        except Exception as e:  # noqa: BLE001
            ctx.inconclusive_case(f"insert execution failed: {type(e).__name__}: {str(e)[:150]}")
    if ctx.shard == 0:
        for bad_pos in ("middle", 3):
            try:
                qp.noise.insert(qp.tape.QuantumScript([qp.Hadamard(0)], [qp.expval(qp.PauliZ(0))]), qp.PhaseDamping, 0.1, position=bad_pos)
                ctx.note_add("insert_bad_position_accepted", repr(bad_pos))
            except ValueError:
                ctx.count("documented_rejection.insert_position")
        try:
            qp.noise.insert(qp.tape.QuantumScript([qp.Hadamard(0)], [qp.expval(qp.PauliZ(0))]), qp.CNOT, [], position="all")
            ctx.note_add("insert_multiqubit_accepted", "CNOT")
        except ValueError:
            ctx.count("documented_rejection.insert_multiqubit")


# ----------------------------------------------------------------------------- extrapolation
def part_extrap(ctx, qp, n_cases):
    from pv.ref import c26_ref as R
    N = qp.noise
    convs = {"numpy": lambda a: a}
    try:
        from pennylane import numpy as pnp
        convs["autograd"] = lambda a: pnp.array(a, requires_grad=True)
        import jax.numpy as jnp
        convs["jax"] = lambda a: jnp.array(a)
        import torch
        convs["torch"] = lambda a: torch.tensor(a, dtype=torch.float64)
    except Exception:  # noqa: BLE001
        pass
    for i in range(n_cases):
        if not ctx.more():
            break
        rng = ctx.case_rng(400000 + i * ctx.nshards + ctx.shard)
        kind = ["poly", "poly", "richardson", "exp", "exp_asym"][int(rng.integers(5))]
        iface = list(convs)[int(rng.integers(len(convs)))] if rng.random() < 0.3 else "numpy"
        cv = convs[iface]
        if kind in ("poly", "richardson"):
            order = int(rng.integers(1, 6))
            npts = order + 1 if kind == "richardson" else int(rng.integers(order + 1, order + 5))
            if rng.random() < 0.5:
                x = 1.0 + np.arange(npts) * float(rng.choice([0.5, 1.0, 2.0]))
            else:
                x = np.sort(rng.uniform(1, 7, size=npts))
                if npts > 1 and np.min(np.diff(x)) < 0.2:
                    x = 1.0 + np.arange(npts) * 0.75
            deg = int(rng.integers(0, order + 1)) if kind == "poly" else order
            c = np.concatenate([np.zeros(order - deg), rng.normal(size=deg + 1)])
            nout = int(rng.integers(1, 3))
            Y = np.stack([np.polyval(c * (j + 1), x) for j in range(nout)], axis=1) if nout > 1 else np.polyval(c, x)
            truth = np.array([c[-1] * (j + 1) for j in range(nout)]) if nout > 1 else c[-1]
            info = {"kind": kind, "order": order, "x": x.tolist(), "coeffs": c.tolist(), "interface": iface, "n_outputs": nout}
            ctx.case(fingerprint("extrap", repr(info)), nontrivial=deg >= 1, cls=f"extrap:{kind}", sample=info)
            V = np.vander(x, order + 1)
            V = V / np.sum(np.abs(V), axis=0)
            tol = max(1e-9, 50 * np.finfo(float).eps * np.linalg.cond(V) ** 2) * max(1.0, float(np.max(np.abs(Y))))
            try:
                ys = [cv(np.asarray(row)) for row in Y] if nout > 1 else [cv(np.asarray(v)) for v in Y]
                got = N.richardson_extrapolate(x, ys) if kind == "richardson" else N.poly_extrapolate(x, ys, order)
                g = R._np(got)
            except Exception as e:  # noqa: BLE001
                ctx.ev("extrap.exact")
                ctx.violation("extrap.exact", f"{kind} extrapolation raised {type(e).__name__}: {str(e)[:200]} ({iface})", case=info, mech=f"extrap:raises:{kind}:{iface}")
                continue
            ctx.ev("extrap.exact")
            if g.shape != np.shape(truth) or not np.max(np.abs(g - truth)) <= tol:
                ctx.violation("extrap.exact", f"{kind}_extrapolate(order {order}, {npts} points, {iface}) returned {g} for exact polynomial data with f(0) = {truth} (tolerance {tol:.1e})",
                              case=info, mech=f"extrap:{kind}", observed=g, expected=truth)
        else:
            A = float(rng.uniform(0.2, 2)) * (1 if rng.random() < 0.7 else -1)
            B = -float(rng.uniform(0.1, 1.0))
            C = float(rng.normal()) if kind == "exp_asym" else 0.0
            x = np.linspace(1, float(rng.uniform(3, 6)), int(rng.integers(3, 8)))
            y = A * np.exp(B * x) + C
            info = {"kind": kind, "A": A, "B": B, "C": C, "x": x.tolist(), "interface": iface}
            ctx.case(fingerprint("extrap", repr(info)), nontrivial=True, cls=f"extrap:{kind}", sample=info)
            try:
                ys = [cv(np.asarray(v)) for v in y]
                got = N.exponential_extrapolate(x, ys, asymptote=C) if kind == "exp_asym" else N.exponential_extrapolate(x, ys)
                g = float(R._np(got))
            except Exception as e:  # noqa: BLE001
                ctx.ev("extrap.exact")
                ctx.violation("extrap.exact", f"exponential extrapolation raised {type(e).__name__}: {str(e)[:200]} ({iface})", case=info, mech=f"extrap:raises:exp:{iface}")
                continue
            ctx.ev("extrap.exact")
            if not abs(g - (A + C)) < 1e-8 * max(1, abs(A) + abs(C)):
                ctx.violation("extrap.exact", f"exponential_extrapolate returned {g} for exact data A e^(Bx) + C with f(0) = {A + C}", case=info, mech=f"extrap:{kind}",
                              observed=g, expected=A + C)


# ----------------------------------------------------------------------------- ZNE end to end
def part_zne(ctx, qp, gen, n_cases):
    from pv.ref import c26_ref as R
    for i in range(n_cases):
        if not ctx.more():
            break
        rng = ctx.case_rng(500000 + i * ctx.nshards + ctx.shard)
        nw = int(rng.integers(1, 4))
        wires, specs = rand_circuit(qp, gen, rng, nw=nw, n_ops=int(rng.integers(1, 8)))
        prep = None
        if rng.random() < 0.25:
            prep = {"t": "basis", "bits": [int(x) for x in rng.integers(0, 2, size=nw)], "wires": list(wires)}
        nm = int(rng.integers(1, 3))
        obs_specs = [gen.pauli_spec(rng, wires, 2) for _ in range(nm)]
        scale = sorted(set([1.0] + [float(x) for x in (rng.integers(2, 6, size=2) if rng.random() < 0.5 else np.round(rng.uniform(1.2, 4.0, size=2), 1))]))
        if len(scale) < 2:
            scale = [1.0, 2.0, 3.0]
        extr = ["richardson", "poly1", "richardson", "poly1", "richardson", "poly1", "exp"][int(rng.integers(7))]
        path = "qnode" if rng.random() < 0.4 else "tape"
        info = {"wires": wires, "ops": gen.describe({"wires": wires, "dev_wires": None, "batch": None, "ops": ([prep] if prep else []) + specs, "meas": []})["ops"],
                "observables": obs_specs, "scale_factors": scale, "extrapolate": extr, "path": path}
        ctx.case(fingerprint("zne", repr(info)), nontrivial=True, cls=f"zne:{extr}:{path}", sample=info)
        ops = gen.build_ops(qp, ([prep] if prep else []) + specs)
        ms = [qp.expval(gen.build_obs(qp, o)) for o in obs_specs]
        psi, _ = R.run(ops, wires)
        truth = np.array([R.measure(m, psi, wires)[0] for m in ms])
        if extr == "exp" and np.min(np.abs(truth)) < 1e-3:
            extr = "richardson"  # the exponential model takes log|y|: exact zero data are outside its documented use
        fn = {"richardson": qp.noise.richardson_extrapolate, "poly1": qp.noise.poly_extrapolate, "exp": qp.noise.exponential_extrapolate}[extr]
        kw = {"extrapolate_kwargs": {"order": 1}} if extr == "poly1" else {}
        dev = qp.device("default.qubit", wires=wires)
        try:
            if path == "tape":
                tapes, post = qp.noise.mitigate_with_zne(qp.tape.QuantumScript(ops, ms), scale, qp.noise.fold_global, fn, **kw)
                got = post(qp.execute(list(tapes), dev, diff_method=None))
                if len(tapes) != len(scale):
                    ctx.ev("zne.noiseless")
                    ctx.violation("zne.noiseless", f"mitigate_with_zne produced {len(tapes)} tapes for {len(scale)} scale factors", case=info, mech="zne:tapes")
                    continue
            else:
                def qfunc():
                    for o in ops:
                        qp.apply(o)
                    out = tuple(qp.apply(m) for m in ms)
                    return out[0] if len(out) == 1 else out
                got = qp.noise.mitigate_with_zne(qp.QNode(qfunc, dev, diff_method=None), scale, qp.noise.fold_global, fn, **kw)()
        except Exception as e:  # noqa: BLE001
            ctx.ev("zne.noiseless")
            ctx.violation("zne.noiseless", f"mitigate_with_zne raised {type(e).__name__}: {str(e)[:250]}", case=info, mech=f"zne:raises:{type(e).__name__}:{extr}")
            continue
        ctx.ev("zne.noiseless")
        g = np.atleast_1d(np.array([float(R._np(v)) for v in (got if isinstance(got, (tuple, list)) else [got])]))
        if g.shape != truth.shape or not np.max(np.abs(g - truth)) < 1e-7:
            # noiseless data are constant in the scale factor: for the exponential model that is the zero-rate end of its family
            ctx.violation("zne.noiseless", f"mitigate_with_zne on a noiseless device returned {g.tolist()} instead of the exact {truth.tolist()} ({extr}, scale factors {scale})",
                          case=info, mech=f"zne:value:{extr}" + (":constant-data" if extr == "exp" else ""), observed=g, expected=truth)


def run(ctx):
    import pennylane as qp

    from pv.gen import c26_gen as gen

    warnings.filterwarnings("ignore")
    part_fold(ctx, qp, gen, ctx.n(240, 12000))
    part_add_noise(ctx, qp, gen, ctx.n(150, 8000))
    part_insert(ctx, qp, gen, ctx.n(150, 8000))
    part_extrap(ctx, qp, ctx.n(300, 12000))
    part_zne(ctx, qp, gen, ctx.n(60, 2500))
