"""C63 — Pulse evolution matches the Schroedinger equation.

Deciding monitors (post-conditions on the REAL code, jax x64):

* ``evolve.ode``     — ``qp.evolve(H)(params, t, atol, rtol).matrix()`` for random ParametrizedHamiltonians (drift + 1-4 time-dependent
  terms; coefficient families constant / polynomial / sinusoidal / Gaussian envelope / rect / pwc) and random windows [t0, t1]
  (also scalar t, ``return_intermediate``, ``complementary``) vs ``scipy.integrate.solve_ivp`` (DOP853, rtol = atol = 1e-12) of
  dU/dt = -i H(t) U with H(t) rebuilt from the generator's own numpy coefficient functions and Pauli matrices.
* ``evolve.expm``    — constant Hamiltonians vs ``expm(-i H (t1-t0))``; piecewise-constant coefficients (``qp.pulse.pwc``) vs the
  ordered product of ``expm`` over the bins intersected with the window.
* ``evolve.state``   — the state produced by ``default.qubit`` for a circuit containing the evolution (apply_operation path) vs the
  reference propagator applied to the reference state.
* ``pulse.convenience`` — ``constant``, ``rect``, ``pwc``, ``pwc_from_function`` evaluated pointwise vs their documented definitions.
* ``pulse.hardware`` — ``rydberg_interaction`` / ``rydberg_drive`` / ``transmon_interaction`` / ``transmon_drive`` (sums of several
  drives with callable / constant amplitude, phase, detuning / frequency: parameter re-ordering) evaluated as matrices
  ``qp.matrix(H(params, t))`` vs hand-built matrices from the documented formulas, and their evolution vs solve_ivp.

NOT decided here: the last sentence of the statement (``stoch_pulse_grad`` / ``pulse_odegen`` vs automatic differentiation).  Each
case costs ~10-30 s of jit compilation and the stochastic estimator needs a statistical oracle; this part of the design is left
unimplemented (see META["level_note"]).
"""
import numpy as np

from pv.ctx import fingerprint

META = {
    "id": "C63",
    "level": "exploration",
    "technique": "post-condition on ParametrizedEvolution.matrix / default.qubit evolution / pulse convenience and hardware constructors vs "
                 "independent integration (scipy solve_ivp DOP853, expm products) of hand-built Hamiltonians",
    "level_text": "Random parametrized Hamiltonians on 1-3 qubits with constant, smooth, windowed and piecewise-constant coefficients and random "
                  "time windows are evolved by the real code with tight ODE tolerances and compared with an independent integration of the "
                  "Schroedinger equation; hardware Hamiltonians are compared with matrices built from the documented formulas. Held on the cases observed.",
    "level_note": "Trusts scipy (solve_ivp, expm) and numpy. The pulse gradient transforms (stoch_pulse_grad, pulse_odegen) are NOT decided: "
                  "each case needs 10-30 s of jit compilation and the stochastic estimator needs a statistical oracle, which does not fit the "
                  "budgets; only the evolution, convenience functions and hardware Hamiltonians are monitored. Tolerances: 1e-7 with atol=rtol=1e-10..1e-11 passed through, 2e-5 with the default odeint tolerances "
                  "(1.4e-8), 1e-5 for discontinuous (pwc/rect) coefficients.",
    "shards": {"quick": 3, "thorough": 16},
    "budget_s": {"quick": 55, "thorough": 420},
    "min_evals": {"quick": 60, "thorough": 2500},
    "min_nontrivial": {"quick": 25, "thorough": 900},
    "deciding": ["evolve.ode", "evolve.expm", "pulse.convenience", "pulse.hardware"],
    "allow_rejections": True,
    "rule": "case = (Hamiltonian description, parameters, time window, options); distinct = distinct content; non-trivial = the propagator "
            "differs from the identity by more than 1e-3 and (for time-dependent cases) from the propagator of the time-averaged Hamiltonian",
    "assumptions": ["scipy DOP853 with rtol=atol=1e-12 is accurate to 1e-10 on these smooth problems (checked by unitarity of the result)"],
}

PAULI = {"X": np.array([[0, 1], [1, 0]], dtype=complex), "Y": np.array([[0, -1j], [1j, 0]], dtype=complex),
         "Z": np.array([[1, 0], [0, -1]], dtype=complex), "I": np.eye(2, dtype=complex)}


def word_matrix(word_on, n):
    """word_on: dict wire index -> 'X'/'Y'/'Z' (wires 0..n-1, wire 0 most significant)"""
    M = np.eye(1, dtype=complex)
    for w in range(n):
        M = np.kron(M, PAULI[word_on.get(w, "I")])
    return M


# ------------------------------------------------------------------------------------------------ coefficient families
def make_coeff(rng, kind, T):
    """returns (description, numpy function f(p, t), parameter value(s), jax-function factory)"""
    if kind == "constant":
        p = float(np.round(rng.uniform(-2, 2), 4))
        return ("constant",), (lambda p_, t: p_), p, lambda qp, jnp: qp.pulse.constant
    if kind == "poly":
        c = np.round(rng.uniform(-1, 1, size=int(rng.integers(2, 4))), 4)
        return ("poly",), (lambda p_, t: np.polyval(p_, t)), c, lambda qp, jnp: (lambda p_, t: jnp.polyval(p_, t))
    if kind == "sin":
        c = np.round(np.array([rng.uniform(0.3, 2), rng.uniform(0.5, 3), rng.uniform(-1, 1)]), 4)
        return ("sin",), (lambda p_, t: p_[0] * np.sin(p_[1] * t + p_[2])), c, lambda qp, jnp: (lambda p_, t: p_[0] * jnp.sin(p_[1] * t + p_[2]))
    if kind == "gauss":
        c = np.round(np.array([rng.uniform(0.5, 2.5), rng.uniform(0, T), rng.uniform(0.3, 1.0) * max(T, 0.5)]), 4)
        return ("gauss",), (lambda p_, t: p_[0] * np.exp(-((t - p_[1]) ** 2) / (2 * p_[2] ** 2))), c, \
            lambda qp, jnp: (lambda p_, t: p_[0] * jnp.exp(-((t - p_[1]) ** 2) / (2 * p_[2] ** 2)))
    raise ValueError(kind)


def run(ctx):
    import warnings

    import jax
    import jax.numpy as jnp
    import pennylane as qp
    from scipy.integrate import solve_ivp
    from scipy.linalg import expm

    from pv.checks.c34 import classify_exc, crash_mech

    jax.config.update("jax_enable_x64", True)
    warnings.filterwarnings("ignore")
    dev = qp.device("default.qubit")
    base = ctx.shard * 100000
    n_cases = ctx.n(200, 6000)
    min_cases = 10 if ctx.quick else 15
    P = {"X": qp.X, "Y": qp.Y, "Z": qp.Z}

    def ref_propagator(Hfun, t0, t1, dim, t_eval=None):
        def rhs(t, y):
            return (-1j * Hfun(t) @ y.reshape(dim, dim)).reshape(-1)
        sol = solve_ivp(rhs, (t0, t1), np.eye(dim, dtype=complex).reshape(-1), method="DOP853", rtol=1e-12, atol=1e-12, t_eval=t_eval)
        if not sol.success:
            raise RuntimeError("reference integration failed: " + str(sol.message))
        Us = [sol.y[:, k].reshape(dim, dim) for k in range(sol.y.shape[1])]
        return Us if t_eval is not None else Us[-1]

    def pl_op(word_on):
        ops = [P[c](w) for w, c in sorted(word_on.items())]
        return ops[0] if len(ops) == 1 else qp.prod(*ops)

    def rand_word(rng, n):
        k = int(rng.integers(1, min(2, n) + 1))
        ws = [int(v) for v in rng.choice(n, size=k, replace=False)]
        return {w: str(rng.choice(list("XYZ"))) for w in ws}

    def compare(monitor, what, U, Uref, tol, case, nontrivial=True, cls=None):
        ctx.case(fingerprint(repr(case)), nontrivial=nontrivial, cls=cls or what, sample=case)
        ctx.ev(monitor)
        U = np.asarray(U)
        if U.shape != np.shape(Uref):
            ctx.violation(monitor, f"{what}: shape {U.shape} != {np.shape(Uref)}", case=case, mech=f"shape:{what}")
            return False
        err = float(np.max(np.abs(U - Uref)))
        if not err <= tol:
            ctx.violation(monitor, f"{what}: result differs from the independent reference by {err:.3e} (> {tol:.1e})", case=case,
                          mech=f"wrong:{what}", observed=U, expected=np.asarray(Uref))
            return False
        return True

    def guarded(monitor, what, fn, case):
        try:
            return fn()
        except Exception as e:  # noqa: BLE001
            if classify_exc(e) == "reject":
                ctx.reject(f"{what}:{type(e).__name__}:{str(e)[:60]}")
            else:
                import traceback
                ctx.ev(monitor)
                ctx.violation(monitor, f"{what}: {type(e).__name__}: {str(e)[:300]} on an admitted input", case={**case, "tb": traceback.format_exc()[-900:]},
                              mech=crash_mech(e, what))
            return None

    for ci in range(n_cases):
        if ci >= min_cases and not ctx.more():
            break
        idx = base + ci
        ctx.case_index = idx
        if ctx.only_case is not None and idx != ctx.only_case:
            continue
        rng = ctx.case_rng(idx)
        kind = ["ode", "convenience", "expm", "hardware", "ode", "pwc", "hardware", "ode-circuit"][ci % 8]

        # ======================================================================================= convenience functions
        if kind == "convenience":
            t0, t1 = sorted(np.round(rng.uniform(-1, 6, size=2), 3))
            if t1 - t0 < 0.5:
                t1 = t0 + 1.0
            nb = int(rng.integers(1, 7))
            pv = np.round(rng.uniform(-2, 2, size=nb), 4)
            ts = np.concatenate([rng.uniform(t0 - 1, t1 + 1, size=12), [t0, t0 + (t1 - t0) / nb * 0.5, t1 - 1e-9]])
            which = (ci // 8 + ctx.shard) % 4
            if which == 0:      # pwc((t0, t1)) / pwc(T)
                scalar_span = rng.random() < 0.3
                span = float(t1 - t0) if scalar_span else (float(t0), float(t1))
                a0, a1 = (0.0, float(t1 - t0)) if scalar_span else (float(t0), float(t1))
                f = qp.pulse.pwc(span)
                for t in ts:
                    t = float(t)
                    if abs(((t - a0) / (a1 - a0) * nb) - round((t - a0) / (a1 - a0) * nb)) < 1e-6:
                        continue   # bin boundaries: floating point decides the bin
                    exp = pv[int(np.floor((t - a0) / (a1 - a0) * nb))] if a0 <= t < a1 else 0.0
                    got = guarded("pulse.convenience", "pwc", lambda: float(f(jnp.array(pv), t)), {"timespan": span, "t": t})
                    if got is None:
                        continue
                    ctx.case(fingerprint("pwc", span, pv, t), nontrivial=bool(a0 <= t < a1), cls="pwc")
                    ctx.ev("pulse.convenience")
                    if abs(got - exp) > 1e-12:
                        ctx.violation("pulse.convenience", f"pwc({span})(p, {t}) = {got}, definition gives {exp} (bins {pv.tolist()})",
                                      case={"timespan": span, "params": pv.tolist(), "t": t}, mech="pwc:wrong-bin")
            elif which == 1:    # rect
                nwin = int(rng.integers(1, 3))
                edges = np.sort(np.round(rng.uniform(t0, t1, size=2 * nwin), 3))
                wins = [(float(edges[2 * k]), float(edges[2 * k + 1])) for k in range(nwin)]
                scalar = rng.random() < 0.4
                c = float(np.round(rng.uniform(-2, 2), 3))
                inner_np = (lambda p_, t: c) if scalar else (lambda p_, t: np.polyval(p_, t))
                f = qp.pulse.rect(c if scalar else jnp.polyval, windows=wins[0] if (nwin == 1 and rng.random() < 0.5) else wins)
                pp = np.round(rng.uniform(-1, 1, size=3), 4)
                for t in ts:
                    t = float(t)
                    if any(abs(t - e) < 1e-9 for e in edges):
                        continue
                    inside = any(a <= t <= b for a, b in wins)
                    exp = float(inner_np(pp, t)) if inside else 0.0
                    got = guarded("pulse.convenience", "rect", lambda: float(f(jnp.array(pp), t)), {"windows": wins, "t": t})
                    if got is None:
                        continue
                    ctx.case(fingerprint("rect", wins, pp, t, scalar), nontrivial=inside, cls="rect")
                    ctx.ev("pulse.convenience")
                    if abs(got - exp) > 1e-10 * max(1, abs(exp)):
                        ctx.violation("pulse.convenience", f"rect(windows={wins})(p, {t}) = {got}, definition gives {exp}",
                                      case={"windows": wins, "params": pp.tolist(), "t": t, "scalar": scalar}, mech="rect:wrong-window")
            elif which == 2:    # pwc_from_function: bin k takes the value of fn at linspace(t0, t1, num_bins)[k] (documented example)
                nb2 = int(rng.integers(2, 9))
                pp = np.round(rng.uniform(-1, 1, size=2), 4)
                span = (float(t0), float(t1)) if rng.random() < 0.6 else float(t1 - t0)
                a0, a1 = (float(t0), float(t1)) if isinstance(span, tuple) else (0.0, float(t1 - t0))
                f = qp.pulse.pwc_from_function(span, nb2)(lambda p_, t: p_[0] * t + p_[1])
                grid = np.linspace(a0, a1, nb2)
                for t in ts:
                    t = float(t) - (t0 - a0)
                    r = (t - a0) / (a1 - a0) * nb2
                    if abs(r - round(r)) < 1e-6:
                        continue
                    exp = float(pp[0] * grid[int(np.floor(r))] + pp[1]) if a0 <= t < a1 else 0.0
                    got = guarded("pulse.convenience", "pwc_from_function", lambda: float(f(jnp.array(pp), t)), {"timespan": span, "t": t})
                    if got is None:
                        continue
                    ctx.case(fingerprint("pwcff", span, nb2, pp, t), nontrivial=bool(a0 <= t < a1), cls="pwc_from_function")
                    ctx.ev("pulse.convenience")
                    if abs(got - exp) > 1e-10 * max(1, abs(exp)):
                        ctx.violation("pulse.convenience", f"pwc_from_function({span}, {nb2})(fn)(p, {t}) = {got}, documented binning gives {exp}",
                                      case={"timespan": span, "num_bins": nb2, "params": pp.tolist(), "t": t}, mech="pwc_from_function:wrong-bin")
            else:               # constant
                for t in ts[:5]:
                    v = float(np.round(rng.uniform(-3, 3), 4))
                    got = guarded("pulse.convenience", "constant", lambda: float(qp.pulse.constant(v, float(t))), {"v": v})
                    ctx.case(fingerprint("const", v, float(t)), nontrivial=True, cls="constant")
                    ctx.ev("pulse.convenience")
                    if got is not None and got != v:
                        ctx.violation("pulse.convenience", f"constant({v}, {t}) = {got}", case={"v": v, "t": float(t)}, mech="constant:wrong")
            continue

        # ======================================================================================= hardware Hamiltonians
        if kind == "hardware":
            for rep in range(5 if ctx.quick else 8):
                n = int(rng.integers(1, 4))
                wires = list(range(n))
                t = float(np.round(rng.uniform(0, 2), 3))
                hw = "rydberg" if (ci // 8 + rep + ctx.shard) % 2 == 0 else "transmon"
                terms_np = []       # list of functions (params_flat_dict, t) -> matrix
                params = []
                pieces = []
                desc = {"hw": hw, "n": n, "t": t, "parts": []}
                nq = lambda w: (PAULI["I"] - PAULI["Z"]) / 2  # noqa: E731

                def emb(M1, w):
                    return word_matrix({}, n) if M1 is None else np.kron(np.kron(np.eye(2 ** w), M1), np.eye(2 ** (n - w - 1)))

                def field(name, scale=1.0):
                    """constant or callable field; returns (pl_arg, np_fn(t), param or None, description)"""
                    if rng.random() < 0.5:
                        v = float(np.round(rng.uniform(0.1, 1.5), 3)) * scale
                        return v, (lambda tt: v), None, v
                    c = np.round(rng.uniform(0.2, 1.5, size=2), 3)
                    return (lambda p_, tt: p_[0] * jnp.cos(p_[1] * tt) ** 2 + 0.1), (lambda tt: c[0] * np.cos(c[1] * tt) ** 2 + 0.1), c, ["callable", c.tolist()]

                if hw == "rydberg":
                    if n >= 2 and rng.random() < 0.7:
                        coords = [[float(v) for v in np.round(rng.uniform(0, 12, size=2), 2)] for _ in range(n)]
                        C6 = float(np.round(rng.uniform(1000, 900000), 1)) if rng.random() < 0.5 else 862690.0
                        pieces.append(qp.pulse.rydberg_interaction(coords, wires=wires, interaction_coeff=C6))
                        M = np.zeros((2 ** n, 2 ** n), dtype=complex)
                        for i in range(n):
                            for j in range(i + 1, n):
                                Rij = float(np.linalg.norm(np.array(coords[i]) - np.array(coords[j])))
                                M = M + 2 * np.pi * C6 / Rij ** 6 * emb(nq(i), i) @ emb(nq(j), j)
                        terms_np.append(lambda tt, M=M: M)
                        desc["parts"].append({"interaction": coords, "C6": C6})
                    for _ in range(int(rng.integers(1, 3))):
                        dw = sorted(int(v) for v in rng.choice(n, size=int(rng.integers(1, n + 1)), replace=False))
                        a_pl, a_np, a_p, a_d = field("amp")
                        ph_pl, ph_np, ph_p, ph_d = field("phase")
                        de_pl, de_np, de_p, de_d = field("det")
                        pieces.append(qp.pulse.rydberg_drive(a_pl, ph_pl, de_pl, dw))
                        for pp in (a_p, ph_p, de_p):
                            if pp is not None:
                                params.append(jnp.array(pp))

                        def Hd(tt, dw=dw, a_np=a_np, ph_np=ph_np, de_np=de_np):
                            Om, ph, de = 2 * np.pi * a_np(tt), ph_np(tt), 2 * np.pi * de_np(tt)
                            M = np.zeros((2 ** n, 2 ** n), dtype=complex)
                            for q in dw:
                                M = M + 0.5 * Om * (np.cos(ph) * emb(PAULI["X"], q) - np.sin(ph) * emb(PAULI["Y"], q)) - de * emb(nq(q), q)
                            return M
                        terms_np.append(Hd)
                        desc["parts"].append({"drive_wires": dw, "amplitude": a_d, "phase": ph_d, "detuning": de_d})
                else:
                    freqs = [float(v) for v in np.round(rng.uniform(3, 6, size=n), 3)]
                    conns = [(i, i + 1) for i in range(n - 1)] if n > 1 else []
                    g = [float(v) for v in np.round(rng.uniform(0.01, 0.2, size=len(conns)), 4)]
                    pieces.append(qp.pulse.transmon_interaction(qubit_freq=freqs, connections=conns, coupling=g, wires=wires))
                    M = np.zeros((2 ** n, 2 ** n), dtype=complex)
                    b = (PAULI["X"] + 1j * PAULI["Y"]) / 2      # documented: b := (sigma^x + i sigma^y)/2
                    for q in range(n):
                        M = M + 2 * np.pi * freqs[q] * emb(b.conj().T @ b, q)
                    for (i, j), gij in zip(conns, g):
                        M = M + 2 * np.pi * gij * (emb(b.conj().T, i) @ emb(b, j) + emb(b.conj().T, j) @ emb(b, i))
                    terms_np.append(lambda tt, M=M: M)
                    desc["parts"].append({"transmon_interaction": freqs, "coupling": g})
                    for _ in range(int(rng.integers(1, 3))):
                        dw = sorted(int(v) for v in rng.choice(n, size=int(rng.integers(1, n + 1)), replace=False))
                        a_pl, a_np, a_p, a_d = field("amp")
                        ph_pl, ph_np, ph_p, ph_d = field("phase")
                        fr_pl, fr_np, fr_p, fr_d = field("freq")
                        pieces.append(qp.pulse.transmon_drive(a_pl, ph_pl, fr_pl, dw))
                        for pp in (a_p, ph_p, fr_p):
                            if pp is not None:
                                params.append(jnp.array(pp))

                        def Hd(tt, dw=dw, a_np=a_np, ph_np=ph_np, fr_np=fr_np):
                            Om, ph, nu = 2 * np.pi * a_np(tt), ph_np(tt), 2 * np.pi * fr_np(tt)
                            M = np.zeros((2 ** n, 2 ** n), dtype=complex)
                            for q in dw:
                                M = M + Om * np.sin(ph + nu * tt) * emb(PAULI["Y"], q)
                            return M
                        terms_np.append(Hd)
                        desc["parts"].append({"drive_wires": dw, "amplitude": a_d, "phase": ph_d, "freq": fr_d})

                def build():
                    H = pieces[0]
                    for pc in pieces[1:]:
                        H = H + pc
                    return H
                H = guarded("pulse.hardware", hw + ":construct", build, desc)
                if H is None:
                    continue
                Href = lambda tt: sum(f(tt) for f in terms_np)  # noqa: E731
                got = guarded("pulse.hardware", hw + ":matrix", lambda: np.asarray(qp.matrix(H(params, t), wire_order=wires)), desc)
                if got is not None:
                    ref = Href(t)
                    compare("pulse.hardware", hw + ":H(params,t)", got, ref, 1e-9 * max(1.0, float(np.max(np.abs(ref)))), desc,
                            nontrivial=len(params) > 0)
                # evolution (short window: the transmon frequencies are large)
                if ctx.more() and (ci // 8) % 3 == 0 and rep == 0:
                    T = 0.3 if hw == "transmon" else 0.5
                    # Rydberg atoms drawn close together give 2*pi*C6/R^6 ~ 1e8: neither the reference integrator (DOP853, rtol 1e-12)
                    # nor odeint can resolve ~1e8 radians of phase in bounded time, so the oracle cannot decide such a case; the
                    # Hamiltonian matrix itself was compared above.  Counted, never folded into held/violated.
                    if float(np.linalg.norm(Href(0.5 * T), 2)) * T > 400.0:
                        ctx.count("evolve_skipped_stiff_reference")
                        continue
                    U = guarded("pulse.hardware", hw + ":evolve", lambda: np.asarray(qp.matrix(qp.evolve(H)(params, t=[0.0, T], atol=1e-11, rtol=1e-11), wire_order=wires)), desc)
                    if U is not None:
                        Uref = ref_propagator(Href, 0.0, T, 2 ** n)
                        # integration error of both ODE solvers grows with ||H||*T (Rydberg interaction terms can be large): scale the bound by it
                        hscale = max(1.0, float(np.linalg.norm(Href(0.5 * T), 2)) * T)
                        compare("pulse.hardware", hw + ":evolve", U, Uref, 1e-6 * hscale, {**desc, "T": T, "norm_H_times_T": hscale})
            continue

        # ======================================================================================= generic parametrized Hamiltonians
        n = int(rng.integers(1, 4))
        dim = 2 ** n
        wires = list(range(n))
        t0 = float(np.round(rng.uniform(0, 1.5), 3)) if rng.random() < 0.7 else 0.0
        t1 = t0 + float(np.round(rng.uniform(0.4, 2.5), 3))
        T = t1 - t0
        drift = []
        for _ in range(int(rng.integers(0, 3))):
            drift.append((float(np.round(rng.uniform(-1.5, 1.5), 3)), rand_word(rng, n)))
        desc = {"n": n, "t": [t0, t1], "drift": [(c, sorted(w.items())) for c, w in drift], "terms": []}
        H_pl_terms = []
        np_terms = []
        params = []

        if kind == "expm":
            # constant Hamiltonian via qp.pulse.constant coefficients
            for _ in range(int(rng.integers(1, 4))):
                w = rand_word(rng, n)
                v = float(np.round(rng.uniform(-2, 2), 4))
                H_pl_terms.append(qp.pulse.constant * pl_op(w))
                params.append(jnp.array(v))
                np_terms.append((lambda tt, v=v: v, w))
                desc["terms"].append(["constant", v, sorted(w.items())])
        elif kind == "pwc":
            for _ in range(int(rng.integers(1, 3))):
                w = rand_word(rng, n)
                nb = int(rng.integers(2, 6))
                a0 = t0 - (rng.uniform(0, 0.5) if rng.random() < 0.5 else 0.0)
                a1 = t1 + (rng.uniform(0, 0.5) if rng.random() < 0.5 else 0.0) - (rng.uniform(0, 0.3 * T) if rng.random() < 0.3 else 0.0)
                a0, a1 = float(np.round(a0, 3)), float(np.round(a1, 3))
                pv = np.round(rng.uniform(-2, 2, size=nb), 4)
                H_pl_terms.append(qp.pulse.pwc((a0, a1)) * pl_op(w))
                params.append(jnp.array(pv))

                def f(tt, a0=a0, a1=a1, pv=pv, nb=nb):
                    return float(pv[min(int(np.floor((tt - a0) / (a1 - a0) * nb)), nb - 1)]) if a0 <= tt < a1 else 0.0
                np_terms.append((f, w))
                desc["terms"].append(["pwc", [a0, a1], pv.tolist(), sorted(w.items())])
        else:
            for _ in range(int(rng.integers(1, 4))):
                w = rand_word(rng, n)
                fam = ["constant", "poly", "sin", "gauss"][int(rng.integers(4))]
                d_, f_np, pval, fac = make_coeff(rng, fam, T)
                H_pl_terms.append(fac(qp, jnp) * pl_op(w))
                params.append(jnp.array(pval))
                np_terms.append((lambda tt, f_np=f_np, pval=pval: float(f_np(pval, tt)), w))
                desc["terms"].append([fam, np.asarray(pval).tolist(), sorted(w.items())])

        def Href(tt):
            M = np.zeros((dim, dim), dtype=complex)
            for c, w in drift:
                M = M + c * word_matrix(w, n)
            for f, w in np_terms:
                M = M + f(tt) * word_matrix(w, n)
            return M

        def build():
            H = None
            for c, w in drift:
                term = c * pl_op(w)
                H = term if H is None else H + term
            for term in H_pl_terms:
                H = term if H is None else H + term
            return H
        H = guarded("evolve.ode", "construct", build, desc)
        if H is None:
            continue
        # make sure all wires appear (matrix over wire_order = wires)
        used = sorted({w for _, ww in drift for w in ww} | {w for _, ww in np_terms for w in ww})
        wo = used
        nn = len(used)
        remap = {w: k for k, w in enumerate(used)}

        def Href_used(tt):
            M = np.zeros((2 ** nn, 2 ** nn), dtype=complex)
            for c, w in drift:
                M = M + c * word_matrix({remap[a]: b for a, b in w.items()}, nn)
            for f, w in np_terms:
                M = M + f(tt) * word_matrix({remap[a]: b for a, b in w.items()}, nn)
            return M

        if kind == "expm":
            Uref = expm(-1j * Href_used(t0) * T)
            tight = rng.random() < 0.6
            kw = {"atol": 1e-11, "rtol": 1e-11} if tight else {}
            targ = [t0, t1] if rng.random() < 0.7 else T     # scalar t means [0, t]; H is constant so the propagator is the same
            U = guarded("evolve.expm", "evolve:constant-H", lambda: np.asarray(qp.matrix(qp.evolve(H)(params, t=targ, **kw), wire_order=wo)), desc)
            if U is not None:
                compare("evolve.expm", "evolve:constant-H", U, Uref, 1e-7 if tight else 2e-5, {**desc, "odeint": kw, "t_arg": str(targ)},
                        nontrivial=bool(np.max(np.abs(Uref - np.eye(2 ** nn))) > 1e-3))
            continue

        if kind == "pwc":
            # product of exponentials over the breakpoints inside [t0, t1]
            bps = {t0, t1}
            for d_ in desc["terms"]:
                a0, a1 = d_[1]
                nb = len(d_[2])
                for k in range(nb + 1):
                    tb = a0 + (a1 - a0) * k / nb
                    if t0 < tb < t1:
                        bps.add(tb)
            bps = sorted(bps)
            Uref = np.eye(2 ** nn, dtype=complex)
            for a, b in zip(bps[:-1], bps[1:]):
                Uref = expm(-1j * Href_used(0.5 * (a + b)) * (b - a)) @ Uref
            U = guarded("evolve.expm", "evolve:pwc", lambda: np.asarray(qp.matrix(qp.evolve(H)(params, t=[t0, t1], atol=1e-11, rtol=1e-11), wire_order=wo)), desc)
            if U is not None:
                compare("evolve.expm", "evolve:pwc", U, Uref, 1e-5, desc, nontrivial=bool(np.max(np.abs(Uref - np.eye(2 ** nn))) > 1e-3))
            continue

        # ---- smooth time-dependent: solve_ivp
        Uref = ref_propagator(Href_used, t0, t1, 2 ** nn)
        if np.max(np.abs(Uref.conj().T @ Uref - np.eye(2 ** nn))) > 1e-9:
            ctx.inconclusive_case("reference propagator not unitary to 1e-9")
            continue
        Uavg = expm(-1j * sum(Href_used(t0 + (k + 0.5) * T / 16) for k in range(16)) / 16 * T)
        nontriv = bool(np.max(np.abs(Uref - np.eye(2 ** nn))) > 1e-3 and np.max(np.abs(Uref - Uavg)) > 1e-4)
        variant = (ci // 8 + ctx.shard) % 4
        if kind == "ode-circuit":
            # state evolved by default.qubit (apply_operation path), preceded by a few gates
            pre = [(str(rng.choice(["RX", "RY"])), float(np.round(rng.uniform(-2, 2), 3)), int(w)) for w in used]

            def circ():
                for nm, ang, w in pre:
                    getattr(qp, nm)(ang, wires=w)
                qp.evolve(H)(params, t=[t0, t1], atol=1e-11, rtol=1e-11)
                return qp.state()
            st = guarded("evolve.state", "qnode:state", lambda: np.asarray(qp.QNode(circ, qp.device("default.qubit", wires=wo), interface="jax")()), desc)
            if st is not None:
                from pv.ref import gates as G
                from pv.ref import sv
                psi = sv.run([(G.ref_matrix(nm, [ang], 1), [w]) for nm, ang, w in pre], wo)
                ref = Uref @ psi
                compare("evolve.state", "qnode:state", st, ref, 1e-7, {**desc, "pre": pre}, nontrivial=nontriv)
            continue
        if variant == 0:      # tight tolerances, explicit window
            U = guarded("evolve.ode", "evolve:window", lambda: np.asarray(qp.matrix(qp.evolve(H)(params, t=[t0, t1], atol=1e-11, rtol=1e-11), wire_order=wo)), desc)
            if U is not None:
                compare("evolve.ode", "evolve:window", U, Uref, 1e-7, desc, nontrivial=nontriv)
        elif variant == 1:    # default tolerances
            U = guarded("evolve.ode", "evolve:default-tol", lambda: np.asarray(qp.matrix(qp.evolve(H)(params, t=[t0, t1]), wire_order=wo)), desc)
            if U is not None:
                compare("evolve.ode", "evolve:default-tol", U, Uref, 2e-5, desc, nontrivial=nontriv)
        elif variant == 2:    # scalar t == window [0, t]
            Uref0 = ref_propagator(Href_used, 0.0, t1, 2 ** nn)
            U = guarded("evolve.ode", "evolve:scalar-t", lambda: np.asarray(qp.matrix(qp.evolve(H)(params, t=t1, atol=1e-11, rtol=1e-11), wire_order=wo)), desc)
            if U is not None:
                compare("evolve.ode", "evolve:scalar-t", U, Uref0, 1e-7, {**desc, "t_arg": t1}, nontrivial=nontriv)
        else:                 # intermediate times, with / without complementary
            mids = sorted(float(v) for v in np.round(rng.uniform(t0, t1, size=int(rng.integers(1, 3))), 3))
            tl = [t0] + [m for m in mids if t0 < m < t1] + [t1]
            Us = ref_propagator(Href_used, t0, t1, 2 ** nn, t_eval=tl)
            for comp in (False, True):
                ref = np.stack([Us[-1] @ Uk.conj().T for Uk in Us]) if comp else np.stack(Us)
                U = guarded("evolve.ode", "evolve:intermediate", lambda comp=comp: np.asarray(qp.matrix(
                    qp.evolve(H)(params, t=tl, return_intermediate=True, complementary=comp, atol=1e-11, rtol=1e-11), wire_order=wo)), desc)
                if U is not None:
                    compare("evolve.ode", "evolve:intermediate" + (":complementary" if comp else ""), U, ref, 1e-7,
                            {**desc, "times": tl, "complementary": comp}, nontrivial=nontriv)
