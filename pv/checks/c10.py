"""C10 — Every registered decomposition rule implements its operator exactly.

Deciding monitor ``rule.matrix``: every rule that the framework lists for a generated operator instance
(``qp.list_decomps(instance)`` + the graph's generator of symbolic rules for legacy Adjoint/Pow/Controlled operators)
and that reports itself applicable (``rule.is_applicable(**resource_params)``) is invoked exactly like the framework
does (``_get_decomp_args``) inside an ``AnnotatedQueue``.  ``Allocate``/``Deallocate`` are resolved by the harness's own
resolver (fresh wire per allocation), the emitted gates are multiplied by the independent R-SV simulator (matrices
from the R-GATES table where tabulated, the real ``qp.matrix`` of the emitted gate otherwise) and the result is
compared with the operator's matrix — global phase included — under the documented work-wire semantics
(zeroed: |0> -> |0>; borrowed: identity on the wire; burnable/garbage: free but unentangled).
Monitor ``rule.workwires``: use-after-deallocate / double deallocate.
Rules with mid-circuit measurements are C13's subject and are only counted here.
"""
import numpy as np

from pv.ctx import fingerprint

META = {
    "id": "C10",
    "level": "exploration",
    "technique": "runtime post-condition on every applicable registered decomposition rule: emitted gate list multiplied by an "
                 "independent dense simulator vs. the operator's matrix (phase included), work wires resolved by the harness",
    "level_text": "Each (rule, instance) pair found applicable on generated instances of ~130 operator/template classes and their "
                  "Adjoint/Pow/Controlled variants (control values, work wires of both types) is executed and its circuit compared "
                  "with the operator's matrix on the operator's wires; zeroed work wires must return to |0>, borrowed ones act as identity. "
                  "Held on the pairs observed; rules never found applicable are listed as uncovered.",
    "level_note": "Target = qp.matrix(op) (the operator's own matrix, per the statement); for six arithmetic templates (Incrementer, Adder, "
                  "Multiplier, OutAdder, OutMultiplier, SemiAdder) the documented classical action on basis states (independent oracle, "
                  "target:documented-arithmetic); for the other templates without a native matrix the harness's simulation of the legacy "
                  "decomposition() (agreement of two real paths, weaker; counted as target:legacy-decomposition) "
                  "restricted to the documented input domain (work wires |0>, x < mod). Matrices of emitted gates come from the independent "
                  "table when tabulated, else from qp.matrix of the emitted gate. Approximate templates are C58's; MCM rules are C13's. "
                  "The ambient wrapper on rule invocations from other checks (design) is not installed: only driven invocations are judged.",
    "shards": {"quick": 4, "thorough": 16},
    "budget_s": {"quick": 55, "thorough": 110},
    "min_evals": {"quick": 600, "thorough": 6000},
    "min_nontrivial": {"quick": 300, "thorough": 3000},
    "deciding": ["rule.matrix"],
    "rule": "case = (rule, operator instance) with rule.is_applicable true; distinct = distinct (rule name, operator class, symbolic "
            "wrapper, resource params, rounded data); non-trivial = the rule emitted at least one gate other than the operator itself",
    "assumptions": ["numpy linear algebra", "qp.matrix of emitted gates that are not in the reference table is right (C01/C02/C03)"],
}

TOL = 1e-8          # max-abs entry error; decomposition rules are exact (mutants are O(1)); numerical synthesis rules stay < 1e-9


def _mech(kind, key, rule):
    return f"{kind}:{key}:{rule.name}"


def _other_branch(D, t, inst, CC, qp):
    """Classifier: the emitted circuit is *a* z-th power of the base (D^q == base^(z q) for a small q) but not the
    principal one that ``Pow.matrix`` (scipy fractional_matrix_power) defines."""
    try:
        z = float(inst.sym[1])
        b = CC.target_of(qp, inst.base)
        Vb, Ub = b["Vin"], b["Uin"]
        M = Vb.conj().T @ Ub
        Dm = t["Vin"].conj().T @ D
        for q in range(2, 9):
            zq = z * q
            if abs(zq - round(zq)) < 1e-9:
                p = int(round(zq))
                Mp = np.linalg.matrix_power(M, p) if p >= 0 else np.linalg.matrix_power(M.conj().T, -p)
                return bool(np.max(np.abs(np.linalg.matrix_power(Dm, q) - Mp)) < 1e-8)
    except Exception:  # noqa: BLE001
        return False
    return False


_PER_MECH = {}


def _viol(ctx, monitor, message, case=None, mech=None, observed=None, expected=None):
    """At most 3 witnesses per mechanism and shard (the bus keeps 40 per shard): further ones are only counted."""
    n = _PER_MECH.get(mech, 0)
    _PER_MECH[mech] = n + 1
    if n < 3:
        ctx.violation(monitor, message, case=case, mech=mech, observed=observed, expected=expected)
    else:
        ctx.count(f"more_witnesses[{mech}]")


def run(ctx):
    import warnings

    import pennylane as qp

    from pv.gen import c10_instances as GI
    from pv.ref import c10_circuit as CC

    warnings.filterwarnings("ignore")
    covered = set()
    max_err = 0.0
    for name, inst, rule, src, key in GI.workload(ctx, qp):
        op = inst.op
        tagkey = key if key != "generated" else f"generated[{inst.tag or 'base'}]"
        info = {"class": name, "rule": rule.name, "registry_key": key, "source": src, **GI.describe(inst)}
        try:
            P = CC.prepare(qp, rule, op)
        except Exception as e:  # noqa: BLE001 - is_applicable / resource_params raised
            ctx.inconclusive_case(f"{name}/{rule.name}: applicability raised {type(e).__name__}: {e}")
            continue
        if P is None:
            ctx.count("not_applicable")
            continue
        if P.error is not None:
            e = P.error
            # a rule that says it is applicable must produce a circuit
            ctx.ev("rule.invocation")
            _viol(ctx, "rule.invocation", f"{tagkey}::{rule.name} is applicable to {info['op']} but raised {type(e).__name__}: {e}",
                          case=info, mech=_mech("raise", tagkey, rule))
            continue
        ctx.ev("rule.invocation")
        if P.info["has_mcm"]:
            ctx.count("mcm_rule_left_to_C13")
            ctx.cover(f"{key}::{rule.name}")
            covered.add(f"{key}::{rule.name}")
            continue
        # ---- work-wire lifetime
        ctx.ev("rule.workwires")
        if P.info["use_after_free"] or P.info["double_free"]:
            _viol(ctx, "rule.workwires", f"{tagkey}::{rule.name}: work wire used after deallocation / deallocated twice: {P.info}",
                          case=info, mech=_mech("lifetime", tagkey, rule))
        # ---- matrices
        try:
            gates, frac = CC.gates_of(qp, P.ops)
            t = CC.target_of(qp, inst)
            work = list(P.work) + list(t["work"])
            if len(t["wires"]) + len(work) > (10 if ctx.quick else 11):
                ctx.count("skipped_too_large")
                continue
            res = CC.factor_check(t["Uin"], t["Vin"], t["wires"], gates, work)
        except CC.Unsupported as e:
            ctx.count("unsupported")
            ctx.note_add("unsupported", f"{name}/{inst.tag}/{rule.name}: {str(e)[:140]}")
            continue
        except Exception as e:  # noqa: BLE001
            ctx.inconclusive_case(f"{name}/{rule.name}: harness {type(e).__name__}: {e}")
            continue
        how = t["how"]
        D = res.pop("D_cols")
        res.pop("wire_order", None)
        ctx.ev("rule.matrix")
        ctx.count(f"target:{how}")
        ctx.count("emitted_gates", len(gates))
        ctx.count("emitted_gates_independent_matrix_x1000", int(frac * 1000 * len(gates)))
        self_emit = len(P.ops) == 1 and type(P.ops[0]) is type(op)
        nontrivial = len(P.ops) >= 1 and not self_emit
        try:
            rp = repr(sorted((k, repr(v)[:80]) for k, v in P.params.items()))
        except Exception:  # noqa: BLE001
            rp = ""
        fp = fingerprint(rule.name, type(op).__name__, inst.tag, rp, info.get("data"))
        ctx.case(fp, nontrivial=nontrivial, cls=f"{key}::{rule.name}",
                 sample={"rule": rule.name, "op": info["op"][:160], "n_emitted": len(P.ops), "work": [w.kind for w in work],
                         "err": res["err_exact"], "target": how})
        covered.add(f"{key}::{rule.name}")
        if work:
            ctx.count("pairs_with_work_wires")
        if any(not w.static for w in work):
            ctx.count("pairs_with_dynamic_work_wires")
        info.update(n_emitted=len(P.ops), work=[w.kind for w in work], target=how,
                    emitted=[repr(o)[:80] for o in P.ops[:12]], result=dict(res))
        err = res["err"] if inst.phase_free else res["err_exact"]
        if err <= TOL:
            max_err = max(max_err, err)
            continue
        # ---- classify the mechanism
        only_phase = res["err"] <= TOL and res["nN"] == 0
        kind = "phase" if only_phase else ("matrix-or-workwire" if work else "matrix")
        mech = _mech(kind, tagkey, rule)
        if inst.sym and inst.sym[0] == "pow" and float(inst.sym[1]) != int(inst.sym[1]) and not work:
            if _other_branch(D, t, inst, CC, qp):
                mech = f"pow-branch:{rule.name}"
        root = inst
        while root.base is not None:
            root = root.base
        try:
            if CC.target_of(qp, root).get("legacy_agrees") is False:
                # the operator's own decomposition() contradicts its documented arithmetic: one mechanism for the class
                mech = f"documented-arithmetic:{name}"
        except Exception:  # noqa: BLE001
            pass
        if only_phase:
            msg = (f"{tagkey}::{rule.name} on {info['op']}: circuit equals the operator only up to the global phase "
                   f"e^(i*{res.get('W_angle')})")
        else:
            msg = (f"{tagkey}::{rule.name} on {info['op']}: circuit differs from the operator's matrix (max |delta| = {err:.3e}; "
                   f"modulo a global phase {res['err']:.3e}; work={info['work']}; target={how})")
        _viol(ctx, "rule.matrix", msg, case=info, mech=mech, observed=res, expected={"err": 0.0})
    ctx.note("max_err_held", max_err)
    GI.report_uncovered_rules(ctx, qp, covered)
