"""C11 — Declared decomposition resources match the emitted gates.

Same instance space and rule enumeration as C10 (``pv.gen.c10_instances.workload``).  For every applicable
(rule, instance) pair the rule is invoked like the framework does; the harness counts the emitted operators by their
compressed resource representation (``abstractify(op)``; ``Conditional`` unwrapped to its base, ``Allocate``/
``Deallocate`` excluded — the framework's documented counting convention) and compares with what
``rule.compute_resources(**resource_params)`` declares:

* ``resources.exact``   – rules with ``exact_resources=True``: the two multisets are equal (zero-count entries ignored);
* ``resources.subset``  – inexact rules: every emitted type is among the declared types;
* ``resources.workwires`` – the peak number of simultaneously live dynamically allocated wires (harness's own
  Allocate/Deallocate bookkeeping) is at most ``rule.get_work_wire_spec(**resource_params).total``.
"""
from collections import Counter

from pv.ctx import fingerprint

META = {
    "id": "C11",
    "level": "exploration",
    "technique": "runtime post-condition on every applicable decomposition rule: harness-counted multiset of emitted compressed "
                 "resource reps and peak live allocations vs. the rule's declared resources / WorkWireSpec",
    "level_text": "Each applicable (rule, instance) pair over ~130 operator/template classes and their Adjoint/Pow/Controlled variants "
                  "(control values, work wires of both types, sizes flipping applicability conditions) is invoked and the emitted gate "
                  "multiset compared type-by-type with the declared gate counts; allocations are replayed by the harness to get the peak "
                  "number of live work wires. Held on the pairs observed; rules never applicable are listed as uncovered.",
    "level_note": "Uses the framework's abstractify() to name a resource type (that *is* the documented unit of comparison) but counts and "
                  "compares itself; does not use _test_decomposition_rule / _count_gates. Per-kind work-wire use (zeroed/borrowed/burnable/"
                  "garbage) is recorded as a note only: the statement bounds the number of work wires, not their kinds.",
    "shards": {"quick": 4, "thorough": 16},
    "budget_s": {"quick": 55, "thorough": 110},
    "min_evals": {"quick": 600, "thorough": 6000},
    "min_nontrivial": {"quick": 300, "thorough": 3000},
    "deciding": ["resources.exact", "resources.workwires"],
    "rule": "case = (rule, operator instance) with rule.is_applicable true; distinct = distinct (rule name, operator class, symbolic "
            "wrapper, resource params); non-trivial = the rule emitted at least one gate",
    "assumptions": ["abstractify(op) is the compressed resource representation the framework counts by"],
}


def _s(x, n=400):
    return str(x)[:n]


_WORK_KEYS = {"work_wires", "work_wire_type", "num_work_wires"}


def _canon(x, strip):
    """Canonical hashable description of a compressed resource rep / abstract operator; with ``strip`` the work-wire
    attributes (count and type) are left out — used only to *classify* a mismatch, never to accept one."""
    from pennylane.decomposition.resources import CompressedResourceOp

    if isinstance(x, CompressedResourceOp):
        return (x.op_type.__name__, tuple(sorted((str(k), _canon(v, strip)) for k, v in x.params.items()
                                                 if not (strip and k in _WORK_KEYS))))
    args = getattr(x, "arguments", None)
    if isinstance(args, dict) and hasattr(x, "dynamic_argnames"):
        return (type(x).__name__, tuple(sorted((str(k), _canon(v, strip)) for k, v in args.items()
                                               if not (strip and k in _WORK_KEYS))))
    if isinstance(x, type):
        return x.__name__
    if isinstance(x, dict):
        return tuple(sorted((repr(_canon(k, strip)), _canon(v, strip)) for k, v in x.items()))
    if isinstance(x, (list, tuple)):
        return tuple(_canon(v, strip) for v in x)
    shp = getattr(x, "shape", None)
    if shp is not None and hasattr(x, "dtype") and type(x).__name__ == "AbstractArray":
        return ("AbstractArray", tuple(shp), str(x.dtype))
    if type(x).__name__ == "AbstractWires":
        return ("AbstractWires", str(len(x)))
    r = repr(x)
    if r.startswith("AbstractWires(") and r.endswith(")"):
        return ("AbstractWires", r[len("AbstractWires("):-1])
    return r


def _family(name):
    for pre in ("controlled(", "adjoint(", "flip_zero_ctrl_values("):
        if name.startswith(pre):
            return pre + "*)"
    return name


def _base_rule(name):
    """Innermost rule name of a generated wrapper rule: controlled(adjoint(_x)) -> _x."""
    changed = True
    while changed:
        changed = False
        for pre in ("controlled(", "adjoint(", "flip_zero_ctrl_values("):
            if name.startswith(pre) and name.endswith(")"):
                name = name[len(pre):-1]
                changed = True
    return name


def _mech_name(tagkey, rname):
    """Mechanism key: generated wrapper rules (controlled/adjoint/flip of a base rule) are keyed by the base rule they wrap,
    so the same defect seen through different wrappers/instances is one mechanism; direct rules keep (registry key, rule)."""
    b = _base_rule(rname)
    if b != rname:
        return f"wrapped:{b}"
    # rules registered for generated symbolic operators (generated[C], generated[base], generated[adj], ...): one mechanism per rule
    return f"generated:{rname}" if tagkey.startswith("generated[") else f"{tagkey}:{rname}"


def _classify(emitted, declared, exact):
    """'workwire-attrs' when every discrepancy disappears once work-wire count/type are ignored in the keys."""
    def fold(d):
        out = {}
        for k, v in d.items():
            c = _canon(k, True)
            out[c] = out.get(c, 0) + v
        return out
    try:
        fe, fd = fold(emitted), fold(declared)
    except Exception:  # noqa: BLE001
        return None
    if exact:
        return "workwire-attrs" if fe == fd else None
    return "workwire-attrs" if all(k in fd for k in fe) else None


def _toffoli_vs_mcx3(emitted, declared):
    """True when the only discrepancy is Toffoli counted where a 3-wire MultiControlledX is declared (or the reverse): the
    generated controlled(...) wrapper declares controlled_resource_rep(MCX) = MCX with one more control, while qp.ctrl of a
    CNOT-like MCX emits the Toffoli class.  Used only to name the mechanism."""
    def split(d):
        tm, rest = 0, {}
        for k, v in d.items():
            sk = str(k)
            if sk == "Toffoli" or sk.startswith("MultiControlledX(wires=AbstractWires(3)"):
                tm += v
            else:
                rest[k] = v
        return tm, rest
    (te, re_), (td, rd) = split(emitted), split(declared)
    return te == td and te > 0 and re_ == rd


_PER_MECH = {}


def _viol(ctx, monitor, message, case=None, mech=None, observed=None, expected=None):
    """At most 3 witnesses per mechanism and shard (the bus keeps 40 per shard): further ones are only counted."""
    n = _PER_MECH.get(mech, 0)
    _PER_MECH[mech] = n + 1
    if n < 3:
        ctx.violation(monitor, message, case=case, mech=mech, observed=observed, expected=expected)
    else:
        ctx.count(f"more_witnesses[{mech}]")


def run(ctx):  # noqa: C901
    import warnings

    import pennylane as qp
    from pennylane.core.operator import abstractify

    from pv.gen import c10_instances as GI
    from pv.ref import c10_circuit as CC

    warnings.filterwarnings("ignore")
    covered = set()
    SubroutineOp = getattr(qp.templates, "SubroutineOp", None)
    if SubroutineOp is None:
        from pennylane.templates.core import SubroutineOp
    for name, inst, rule, src, key in GI.workload(ctx, qp):
        op = inst.op
        tagkey = key if key != "generated" else f"generated[{inst.tag or 'base'}]"
        info = {"class": name, "rule": rule.name, "registry_key": key, "source": src, **GI.describe(inst)}
        try:
            P = CC.prepare(qp, rule, op)
        except Exception as e:  # noqa: BLE001
            ctx.inconclusive_case(f"{name}/{rule.name}: applicability raised {type(e).__name__}: {e}")
            continue
        if P is None:
            ctx.count("not_applicable")
            continue
        if P.error is not None:
            ctx.count("rule_raised(C10)")
            continue
        # ---- declared
        try:
            declared = dict(rule.compute_resources(**P.params).gate_counts)
        except Exception as e:  # noqa: BLE001
            ctx.ev("resources.declared")
            _viol(ctx, "resources.declared", f"{tagkey}::{rule.name}: compute_resources raised {type(e).__name__}: {e} for {info['op']}",
                          case=info, mech=f"resources-raise:{tagkey}:{rule.name}")
            continue
        ctx.ev("resources.declared")
        declared = {k: int(v) for k, v in declared.items() if v > 0}
        # ---- emitted (harness's own count)
        emitted = Counter()
        try:
            for o in P.ops:
                if type(o).__name__ == "Conditional":
                    o = o.base
                emitted[abstractify(o)] += 1
        except Exception as e:  # noqa: BLE001
            ctx.inconclusive_case(f"{name}/{rule.name}: abstractify raised {type(e).__name__}: {e}")
            continue
        emitted = dict(emitted)
        exact = bool(rule.exact_resources) and not (isinstance(op, SubroutineOp) and not op.subroutine.exact_resources)
        try:
            rp = repr(sorted((k, repr(v)[:80]) for k, v in P.params.items()))
        except Exception:  # noqa: BLE001
            rp = ""
        fp = fingerprint(rule.name, type(op).__name__, inst.tag, rp)
        ctx.case(fp, nontrivial=len(P.ops) >= 1, cls=f"{key}::{rule.name}",
                 sample={"rule": rule.name, "op": info["op"][:140], "exact": exact, "emitted": {_s(k, 60): v for k, v in list(emitted.items())[:6]}})
        covered.add(f"{key}::{rule.name}")
        info.update(exact=exact, declared={_s(k): v for k, v in declared.items()}, emitted={_s(k): v for k, v in emitted.items()})
        if exact:
            ctx.ev("resources.exact")
            if emitted != declared:
                wrong = {_s(k): (emitted.get(k, 0), declared.get(k, 0)) for k in set(emitted) | set(declared)
                         if emitted.get(k, 0) != declared.get(k, 0)}
                cl = _classify(emitted, declared, True)
                mech = f"{cl}:{_family(rule.name)}" if cl else f"count:{_mech_name(tagkey, rule.name)}"
                if not cl and _base_rule(rule.name) != rule.name and _toffoli_vs_mcx3(emitted, declared):
                    mech = "count:wrapped:toffoli-vs-mcx3"
                _viol(ctx, "resources.exact", f"{tagkey}::{rule.name} on {info['op']}: emitted gate counts differ from the declared "
                                                 f"exact resources; (emitted, declared) per type: {wrong}",
                              case=info, mech=mech, observed=info["emitted"], expected=info["declared"])
        else:
            ctx.ev("resources.subset")
            missing = [k for k in emitted if k not in declared]
            if missing:
                cl = _classify(emitted, declared, False)
                mech = f"{cl}:{_family(rule.name)}" if cl else f"undeclared:{_mech_name(tagkey, rule.name)}"
                _viol(ctx, "resources.subset", f"{tagkey}::{rule.name} on {info['op']}: emitted gate types not among the declared "
                                                  f"(inexact) resources: {[_s(k) for k in missing]}",
                              case=info, mech=mech, observed=info["emitted"], expected=info["declared"])
        # ---- work wires
        try:
            spec = rule.get_work_wire_spec(**P.params)
        except Exception as e:  # noqa: BLE001
            _viol(ctx, "resources.workwires", f"{tagkey}::{rule.name}: get_work_wire_spec raised {type(e).__name__}: {e}",
                          case=info, mech=f"spec-raise:{tagkey}:{rule.name}")
            continue
        ctx.ev("resources.workwires")
        peak = P.info["peak_live"]
        if peak:
            ctx.count("pairs_allocating")
        if peak > spec.total:
            _viol(ctx, "resources.workwires", f"{tagkey}::{rule.name} on {info['op']}: {peak} dynamically allocated wires live at once, "
                                                 f"declared WorkWireSpec total = {spec.total} ({spec})",
                          case={**info, "alloc": P.info["per_kind"]}, mech=f"workwires:{tagkey}:{rule.name}", observed=peak, expected=spec.total)
        else:
            declared_kinds = {"zeroed": spec.zeroed, "borrowed": spec.borrowed, "burnable": spec.burnable, "garbage": spec.garbage}
            for kind, n in P.info["peak_per_kind"].items():
                if kind in declared_kinds and n > declared_kinds[kind]:
                    ctx.count("kind_mismatch_notes")
                    ctx.note_add("workwire_kind_mismatch", f"{tagkey}::{rule.name}: uses {n} {kind}, declares {declared_kinds}")
    GI.report_uncovered_rules(ctx, qp, covered)
