"""C32 — Result structure depends only on the request.

The *shape skeleton* (nesting of tuples, array shapes, scalar-ness, dtype category, container family) of QNode results and of Jacobians is
computed from the request alone by a specification function written here from the documented return rules (single measurement unwrapped,
several -> tuple, shot vector -> outer tuple over copies, broadcasting -> leading axis, per-measurement shapes probs 2^k / sample (shots, k) /
sample(obs) (shots,) / counts dict / state 2^n / density matrix 2^k x 2^k / scalars (), Jacobian = same nesting with the parameter axes appended).

Deciding monitors:
* ``shape.spec``   every configuration's result skeleton equals the specification
* ``shape.cross``  all configurations (device x interface x diff method) that accept one request return the same skeleton
* ``jac.spec``     Jacobians from qp.jacobian / jax.jacobian / torch.autograd.functional.jacobian follow the specified nesting
"""
import warnings

import numpy as np

from pv.ctx import fingerprint

META = {
    "id": "C32",
    "level": "exploration",
    "technique": "runtime post-condition at the QNode boundary: shape skeleton of results and Jacobians vs. a specification function of the request "
                 "alone, plus cross-configuration equality (differential over device x interface x diff method)",
    "level_text": "Random measurement lists (expval/var/probs/sample/counts/state/density_matrix/purity/vn_entropy/mutual_info) x shots (analytic, int, "
                  "shot vectors) x broadcast size (none, 1, 3) x parameter shapes are executed on default.qubit, default.mixed, reference.qubit and "
                  "null.qubit through numpy, autograd, jax, jax-jit and torch with diff methods best/backprop/parameter-shift/adjoint/finite-diff/"
                  "hadamard/spsa/None; Jacobian structure through the three AD frameworks; a small mid-circuit-measurement family compares "
                  "mcm_method deferred / tree-traversal / one-shot; held on the requests observed.",
    "level_note": "Values are not compared (other properties do). Configurations refused with a documented error type (DeviceError, "
                  "QuantumFunctionError, NotImplementedError, ValueError mentioning support) are rejections. lightning devices and TensorFlow are not "
                  "installed. Container family is compared as numpy-like / jax / torch only.",
    "shards": {"quick": 3, "thorough": 16},
    "budget_s": {"quick": 110, "thorough": 300},
    "min_evals": {"quick": 150, "thorough": 1000},
    "min_nontrivial": {"quick": 40, "thorough": 200},
    "allow_rejections": True,
    "deciding": ["shape.spec", "shape.cross", "jac.spec"],
    "rule": "case = request (measurement list, shots, broadcast size, parameter shapes) evaluated under several configurations; distinct = distinct request; "
            "non-trivial = >= 2 measurements or a shot vector or a broadcast axis or a non-scalar measurement",
    "assumptions": ["the specification function transcribes the documented return rules"],
}

FLOAT, INT, CPLX, DICT = "float", "int", "complex", "dict"


# ----------------------------------------------------------------------------- specification (request -> skeleton), independent of PennyLane
def meas_leaf(m, shots, n_dev_wires):
    k = m["k"]
    if k in ("expval", "var", "purity", "vn_entropy", "mutual_info"):
        return ((), FLOAT)
    if k == "probs":
        return ((2 ** len(m["wires"]),), FLOAT)
    if k == "sample_w":
        return ((shots, len(m["wires"])), INT)
    if k == "sample_obs":
        return ((shots,), FLOAT)
    if k == "counts":
        return DICT
    if k == "state":
        return ((2**n_dev_wires,), CPLX)
    if k == "density_matrix":
        return ((2 ** len(m["wires"]), 2 ** len(m["wires"])), CPLX)
    raise ValueError(k)


def spec_forward(meas, shots_flat, B, n_dev_wires):
    """Skeleton: ("T", ...) for tuples, (shape, dtype category) leaves, "dict" for counts."""
    def one(shots):
        leaves = []
        for m in meas:
            lf = meas_leaf(m, shots, n_dev_wires)
            if lf != DICT and B is not None:
                lf = ((B,) + lf[0], lf[1])
            leaves.append(lf)
        return leaves[0] if len(leaves) == 1 else ("T",) + tuple(leaves)

    if shots_flat is None:
        return one(None)
    if len(shots_flat) == 1:
        return one(shots_flat[0])
    return ("T",) + tuple(one(s) for s in shots_flat)


def spec_jacobian(meas, shots_flat, arg_shapes, multi_arg):
    def one():
        out = []
        for m in meas:
            ms = meas_leaf(m, None, 0)[0]
            per_arg = [(ms + tuple(a), FLOAT) for a in arg_shapes]
            out.append(("T",) + tuple(per_arg) if multi_arg else per_arg[0])
        return out[0] if len(out) == 1 else ("T",) + tuple(out)

    if shots_flat is None or len(shots_flat) == 1:
        return one()
    return ("T",) + tuple(one() for _ in shots_flat)


def family(x):
    mod = type(x).__module__
    if mod.startswith("torch"):
        return "torch"
    if mod.startswith("jax"):
        return "jax"
    return "numpy"


def skeleton(x, with_family=False):
    if isinstance(x, tuple):
        return ("T",) + tuple(skeleton(e, with_family) for e in x)
    if isinstance(x, list):
        return ("L",) + tuple(skeleton(e, with_family) for e in x)
    if isinstance(x, dict):
        return DICT
    try:
        shp = tuple(int(s) for s in np.shape(x))
        dt = str(getattr(x, "dtype", type(x).__name__)).replace("torch.", "")
    except Exception:  # noqa: BLE001
        return ("?", type(x).__name__)
    cat = CPLX if "complex" in dt else (INT if ("int" in dt or "bool" in dt) else FLOAT)
    return (shp, cat, family(x)) if with_family else (shp, cat)


def strip_dtype(sk):
    if isinstance(sk, tuple) and sk and sk[0] in ("T", "L"):
        return (sk[0],) + tuple(strip_dtype(e) for e in sk[1:])
    if sk == DICT:
        return sk
    return sk[0]


def families(x):
    if isinstance(x, (tuple, list)):
        s = set()
        for e in x:
            s |= families(e)
        return s
    if isinstance(x, dict):
        return set()
    return {family(x)}


REJECT_TYPES = ("DeviceError", "QuantumFunctionError", "NotImplementedError", "DecompositionUndefinedError", "CompileError")


def run(ctx):
    warnings.filterwarnings("ignore")
    import time as _time

    import jax
    import jax.numpy as jnp
    import pennylane as qp
    import torch
    from pennylane import numpy as pnp

    jax.config.update("jax_enable_x64", True)
    try:
        import os
        cdir = os.path.join(os.path.dirname(os.path.dirname(os.path.dirname(os.path.abspath(__file__)))), "evidence", ".work", "jaxcache")
        os.makedirs(cdir, exist_ok=True)
        jax.config.update("jax_compilation_cache_dir", cdir)
        jax.config.update("jax_persistent_cache_min_compile_time_secs", 0.0)
        jax.config.update("jax_persistent_cache_min_entry_size_bytes", -1)
    except Exception:  # noqa: BLE001
        pass
    _t0 = _time.monotonic()

    def more():
        return (_time.monotonic() - _t0 < ctx.budget_s) or ctx.more()

    seen = {}

    def viol(mon, msg, case, mech, **kw):
        seen[mech] = seen.get(mech, 0) + 1
        ctx.count(f"viol/{mech}")
        if seen[mech] <= 3:
            ctx.violation(mon, msg, case=case, mech=mech, **kw)

    def is_rejection(e):
        n = type(e).__name__
        if n in REJECT_TYPES:
            return True
        s = str(e).lower()
        if n in ("ValueError", "TypeError", "RuntimeError") and any(w in s for w in ("not support", "unsupported", "does not support", "cannot differentiate", "only supported",
                                                                                      "can only be", "not compatible", "incompatible", "require", "is not differentiable", "must be", "not implemented")):
            return True
        return False

    WIRES = [0, 1, 2]

    def build_meas(m):
        k = m["k"]
        if k == "expval":
            return qp.expval(mk_obs(m["obs"]))
        if k == "var":
            return qp.var(mk_obs(m["obs"]))
        if k == "probs":
            return qp.probs(wires=m["wires"])
        if k == "sample_w":
            return qp.sample(wires=m["wires"])
        if k == "sample_obs":
            return qp.sample(mk_obs(m["obs"]))
        if k == "counts":
            return qp.counts(wires=m["wires"])
        if k == "state":
            return qp.state()
        if k == "density_matrix":
            return qp.density_matrix(wires=m["wires"])
        if k == "purity":
            return qp.purity(wires=m["wires"])
        if k == "vn_entropy":
            return qp.vn_entropy(wires=m["wires"])
        if k == "mutual_info":
            return qp.mutual_info(wires0=m["wires"][:1], wires1=m["wires"][1:2])
        raise ValueError(k)

    def mk_obs(desc):
        fac = [{"X": qp.PauliX, "Y": qp.PauliY, "Z": qp.PauliZ}[p](w) for p, w in desc]
        ob = fac[0]
        for f_ in fac[1:]:
            ob = ob @ f_
        return ob

    def gen_obs(rng):
        k = int(rng.integers(1, 3))
        ws = [WIRES[int(i)] for i in rng.permutation(3)[:k]]
        return [("XYZ"[int(rng.integers(3))], w) for w in ws]

    def sub(rng, lo=1, hi=3):
        k = int(rng.integers(lo, hi + 1))
        return [WIRES[int(i)] for i in rng.permutation(3)[:k]]

    def gen_request(rng, force_vector_broadcast=False):
        shots_kind = ["analytic", "int", "vector"][int(rng.choice(3, p=[0.4, 0.3, 0.3]))]
        if force_vector_broadcast:
            shots_kind = "vector"
        if shots_kind == "analytic":
            spec, flat = None, None
            kinds = ["expval", "var", "probs", "probs", "state", "density_matrix", "purity", "vn_entropy", "mutual_info", "expval"]
        else:
            if shots_kind == "int":
                n = int(rng.choice([1, 2, 7, 10]))
                spec, flat = n, [n]
            else:
                parts = [int(x) for x in rng.integers(1, 9, size=int(rng.integers(2, 4)))]
                spec, flat = [], []
                for p in parts:
                    if rng.random() < 0.4:
                        c = int(rng.integers(1, 4))
                        spec.append((p, c))
                        flat += [p] * c
                    else:
                        spec.append(p)
                        flat.append(p)
                if len(flat) == 1:
                    spec, flat = [flat[0], flat[0]], [flat[0], flat[0]]
            kinds = ["expval", "var", "probs", "sample_w", "sample_obs", "counts", "expval", "probs"]
        nm = int(rng.integers(1, 5))
        meas = []
        for _ in range(nm):
            k = kinds[int(rng.integers(len(kinds)))]
            if k in ("expval", "var", "sample_obs"):
                meas.append({"k": k, "obs": gen_obs(rng)})
            elif k in ("probs", "sample_w", "counts", "density_matrix", "purity", "vn_entropy"):
                meas.append({"k": k, "wires": sub(rng)})
            elif k == "mutual_info":
                meas.append({"k": k, "wires": sub(rng, 2, 2)})
            else:
                if not any(m["k"] == "state" for m in meas):
                    meas.append({"k": "state"})
        if not meas:
            meas = [{"k": "expval", "obs": gen_obs(rng)}]
        B = [None, None, None, 1, 3][int(rng.integers(5))]
        if force_vector_broadcast:
            meas = [m for m in meas if m["k"] != "counts"] or [{"k": "expval", "obs": gen_obs(rng)}]
            B = [2, 3, 3, 1][int(rng.integers(4))]
        if any(m["k"] == "counts" for m in meas):
            B = None
        return {"meas": meas, "shots": spec, "flat": flat, "B": B}

    DEVS = ["default.qubit", "default.mixed", "reference.qubit", "null.qubit"]
    IFACES = ["numpy", "autograd", "jax", "jax-jit", "torch"]
    DIFFS = ["best", "backprop", "parameter-shift", "adjoint", "finite-diff", "hadamard", "spsa", None]

    def make_qnode(dev_name, iface, diff, req, mcm=None):
        dev = qp.device(dev_name, wires=WIRES)

        def f(x, y):
            qp.RX(x, wires=0)
            qp.RY(y[0], wires=1)
            qp.CNOT(wires=[0, 1])
            qp.RZ(y[1], wires=2)
            qp.CNOT(wires=[1, 2])
            ms = [build_meas(m) for m in req["meas"]]
            return ms[0] if len(ms) == 1 else tuple(ms)

        node = qp.QNode(f, dev, interface={"numpy": "auto", "jax-jit": "jax"}.get(iface, iface), diff_method=diff)
        if req["shots"] is not None:
            node = qp.set_shots(node, req["shots"])
        return node

    def inputs(iface, B, rg=False):
        x = np.linspace(0.1, 0.7, B) if B is not None else 0.3
        y = np.array([0.5, 0.7])
        if iface == "numpy":
            return x, y
        if iface == "autograd":
            return pnp.array(x, requires_grad=True), pnp.array(y, requires_grad=True)
        if iface in ("jax", "jax-jit"):
            return jnp.asarray(x), jnp.asarray(y)
        if iface == "torch":
            return torch.tensor(x, dtype=torch.float64, requires_grad=rg), torch.tensor(y, requires_grad=rg)
        raise ValueError(iface)

    def forward_case(rng, gi, cheap=False):
        # cheap=True: broadcasting x partitioned shots (repeated counts included) on every device with the numpy interface and no
        # differentiation -- devices without native broadcasting go through broadcast_expand, whose post-processing rebuilds the shot axis
        req = gen_request(rng, force_vector_broadcast=cheap)
        info = {"measurements": req["meas"], "shots": req["shots"], "broadcast": req["B"]}
        nontriv = len(req["meas"]) > 1 or (req["flat"] and len(req["flat"]) > 1) or req["B"] is not None or any(m["k"] not in ("expval", "var") for m in req["meas"])
        ctx.case(fingerprint("fwd", repr(info)), nontrivial=bool(nontriv), cls=f"forward/{'analytic' if req['shots'] is None else ('vector' if len(req['flat']) > 1 else 'int')}/B={req['B']}",
                 sample=info)
        want = spec_forward(req["meas"], req["flat"], req["B"], 3)
        configs = [("default.qubit", "numpy", "best")]
        pool = [(d, i, f_) for d in DEVS for i in IFACES for f_ in DIFFS]
        if cheap:
            configs += [(d, "numpy", None) for d in DEVS[1:]]
            ctx.count("forward.cheap_vector_broadcast")
        else:
            for idx in rng.permutation(len(pool))[: (5 if ctx.quick else 8)]:
                configs.append(pool[int(idx)])
        got = {}
        for cfg in configs:
            d, i, df = cfg
            if i == "jax-jit" and any(m["k"] == "counts" for m in req["meas"]):
                continue
            if d == "default.mixed" and any(m["k"] == "state" for m in req["meas"]):
                continue  # documented: qp.state() on default.mixed is the density matrix
            try:
                node = make_qnode(d, i, df, req)
                x, y = inputs(i, req["B"])
                res = jax.jit(node)(x, y) if i == "jax-jit" else node(x, y)
            except Exception as e:  # noqa: BLE001
                unsupported = df == "adjoint" and any(m["k"] != "expval" for m in req["meas"])  # documented: adjoint differentiates expectation values only
                if d == "null.qubit" and "Incorrect output dtype" in str(e):
                    ctx.count("null.qubit-jit-dtype")  # the mock device returns a float state; dtype is outside the statement
                    continue
                if is_rejection(e) or unsupported:
                    ctx.reject(f"{d}/{i}/{df}:{type(e).__name__}")
                else:
                    ctx.ev("shape.spec")
                    mech = f"raises:{type(e).__name__}:{d}:{i}"
                    if req["B"] == 1 and req["shots"] is not None and "Incorrect output shape" in str(e) and "Expected: (1," in str(e):
                        mech = "broadcast1-finite-shots-squeezed"  # jit's own shape inference expects the size-1 batch axis that the execution drops
                    viol("shape.spec", f"configuration {cfg} raised {type(e).__name__}: {str(e)[:200]} ... {str(e)[-300:]}", {**info, "config": list(map(str, cfg))}, mech)
                continue
            ctx.ev("shape.spec")
            ctx.cover(f"{d}/{i}/{df}")
            sk = skeleton(res)
            cinfo = {**info, "config": list(map(str, cfg))}
            if strip_dtype(sk) != strip_dtype(want):
                mech = "shape"
                if req["B"] == 1 and req["shots"] is not None and strip_dtype(sk) == strip_dtype(spec_squeezed(req)):
                    mech = "broadcast1-finite-shots-squeezed"
                viol("shape.spec", f"result structure {strip_dtype(sk)} != specified {strip_dtype(want)} for config {cfg}", cinfo, f"{mech}", observed=repr(strip_dtype(sk)),
                     expected=repr(strip_dtype(want)))
            elif sk != want:
                # dtype category is outside the statement (nesting and shapes): recorded, never a verdict (e.g. null.qubit returns a float state)
                ctx.count(f"dtype-category-differs:{d}")
            fam = families(res)
            wantfam = {"numpy": "numpy", "autograd": "numpy", "jax": "jax", "jax-jit": "jax", "torch": "torch"}[i]
            if fam and fam != {wantfam}:
                viol("shape.spec", f"interface {i} returned containers of family {sorted(fam)}", cinfo, f"container:{i}:{d}")
            got[cfg] = strip_dtype(sk)
        if len(got) >= 2:
            ctx.ev("shape.cross")
            base = got[configs[0]] if configs[0] in got else next(iter(got.values()))
            for cfg, sk in got.items():
                if sk != base:
                    mech = f"cross:{cfg[0]}:{cfg[1]}:{cfg[2]}"
                    if req["B"] == 1 and req["shots"] is not None and strip_dtype(want) in (sk, base):
                        mech = "broadcast1-finite-shots-squeezed"  # one side follows the specification, the other dropped the size-1 batch axis
                    viol("shape.cross", f"config {cfg} returns {sk} but {configs[0]} returns {base} for the same request", {**info, "config": list(map(str, cfg))}, mech)

    def spec_squeezed(req):
        """What the request would look like if scalar/probs measurements lost a size-1 broadcast axis while samples kept it (classifier only)."""
        def one(shots):
            leaves = []
            for m in req["meas"]:
                lf = meas_leaf(m, shots, 3)
                if lf != DICT and m["k"] in ("sample_w", "sample_obs"):
                    lf = ((1,) + lf[0], lf[1])
                leaves.append(lf)
            return leaves[0] if len(leaves) == 1 else ("T",) + tuple(leaves)
        fl = req["flat"]
        return one(fl[0]) if len(fl) == 1 else ("T",) + tuple(one(s) for s in fl)

    # ------------------------------------------------------------------ Jacobians
    def jac_case(rng, gi):
        kinds = ["expval", "var", "probs"]
        nm = int(rng.integers(1, 4))
        meas = []
        for _ in range(nm):
            k = kinds[int(rng.integers(3))]
            meas.append({"k": k, "obs": gen_obs(rng)} if k != "probs" else {"k": k, "wires": sub(rng, 1, 2)})
        fw = ["jax", "torch", "autograd"][int(rng.integers(3))]
        if fw == "autograd":
            meas = meas[:1]
        shots_spec, flat = None, None
        diff = ["best", "backprop", "parameter-shift", "adjoint", "finite-diff", "hadamard", "spsa"][int(rng.integers(7))]
        if diff in ("parameter-shift", "finite-diff", "spsa") and rng.random() < 0.4:
            parts = [int(x) for x in rng.integers(3, 9, size=int(rng.integers(1, 4)))]
            if fw == "autograd":
                parts = parts[:1]  # autograd cannot differentiate tuple-valued (shot vector) outputs: documented limitation
            shots_spec, flat = (parts if len(parts) > 1 else parts[0]), parts
        dev_name = DEVS[int(rng.choice(4, p=[0.5, 0.2, 0.2, 0.1]))]
        multi = bool(rng.random() < 0.6)
        req = {"meas": meas, "shots": shots_spec, "flat": flat, "B": None}
        info = {"measurements": meas, "shots": shots_spec, "framework": fw, "diff_method": diff, "device": dev_name, "args": "x,y" if multi else "y"}
        ctx.case(fingerprint("jac", repr(info)), nontrivial=True, cls=f"jacobian/{fw}/{diff}", sample=info)
        want = spec_jacobian(meas, flat, [(), (2,)] if multi else [(2,)], multi)
        try:
            node = make_qnode(dev_name, fw, diff, req)
            if fw == "jax":
                x, y = inputs("jax", None)
                J = jax.jacobian(node, argnums=(0, 1) if multi else 1)(x, y)
            elif fw == "torch":
                x, y = inputs("torch", None, rg=True)
                if multi:
                    J = torch.autograd.functional.jacobian(node, (x, y))
                else:
                    J = torch.autograd.functional.jacobian(lambda yy: node(x.detach(), yy), y)
            else:
                x, y = inputs("autograd", None)
                J = qp.jacobian(node, argnums=[0, 1] if multi else 1)(x, y)
        except Exception as e:  # noqa: BLE001
            if is_rejection(e) or (diff == "adjoint" and any(m["k"] != "expval" for m in meas)):
                ctx.reject(f"jac:{dev_name}/{fw}/{diff}:{type(e).__name__}")
            else:
                ctx.ev("jac.spec")
                viol("jac.spec", f"jacobian raised {type(e).__name__}: {str(e)[:250]}", info, f"jac-raises:{type(e).__name__}:{fw}:{diff}")
            return
        ctx.ev("jac.spec")
        ctx.cover(f"jac/{dev_name}/{fw}/{diff}")
        sk = strip_dtype(skeleton(J))
        if sk != strip_dtype(want):
            viol("jac.spec", f"Jacobian structure {sk} != specified {strip_dtype(want)} ({fw}, {diff}, {dev_name})", info, f"jac-shape:{fw}:{diff}", observed=repr(sk),
                 expected=repr(strip_dtype(want)))

    # ------------------------------------------------------------------ mid-circuit measurements: the serving path must not change the structure
    def mcm_case(rng, gi):
        shots = [None, 20, [5, 6]][int(rng.integers(3))]
        flat = None if shots is None else ([shots] if isinstance(shots, int) else shots)
        kinds = [["expval_m"], ["expval_m", "probs_m"], ["expval_m", "expval_z"], ["probs_m"], ["var_m", "expval_z"], ["expval_z", "probs_w"]][int(rng.integers(6))]
        info = {"family": "mcm", "shots": shots, "measurements": kinds}
        ctx.case(fingerprint("mcm", repr(info)), nontrivial=True, cls="mcm", sample=info)
        leaf = {"expval_m": ((), FLOAT), "var_m": ((), FLOAT), "expval_z": ((), FLOAT), "probs_m": ((2,), FLOAT), "probs_w": ((2,), FLOAT)}

        def one():
            lv = [leaf[k] for k in kinds]
            return lv[0] if len(lv) == 1 else ("T",) + tuple(lv)
        want = one() if flat is None or len(flat) == 1 else ("T",) + tuple(one() for _ in flat)
        got = {}
        for mm in ("deferred", "tree-traversal", "one-shot"):
            if mm == "one-shot" and shots is None:
                continue
            dev = qp.device("default.qubit", wires=4)

            def f(x):
                qp.RX(x, 0)
                m = qp.measure(0)
                qp.cond(m, qp.PauliX)(1)
                out = []
                for k in kinds:
                    out.append({"expval_m": lambda: qp.expval(m), "var_m": lambda: qp.var(m), "expval_z": lambda: qp.expval(qp.Z(1)), "probs_m": lambda: qp.probs(op=m),
                                "probs_w": lambda: qp.probs(wires=[1])}[k]())
                return out[0] if len(out) == 1 else tuple(out)

            node = qp.QNode(f, dev, mcm_method=mm)
            if shots is not None:
                node = qp.set_shots(node, shots)
            try:
                res = node(0.4)
            except Exception as e:  # noqa: BLE001
                ctx.ev("shape.spec")
                if is_rejection(e):
                    ctx.reject(f"mcm:{mm}:{type(e).__name__}")
                else:
                    viol("shape.spec", f"mcm_method={mm} raised {type(e).__name__}: {str(e)[:200]}", {**info, "mcm_method": mm}, f"mcm:{mm}:raises:{type(e).__name__}")
                continue
            ctx.ev("shape.spec")
            sk = strip_dtype(skeleton(res))
            got[mm] = sk
            if sk != strip_dtype(want):
                viol("shape.spec", f"mcm_method={mm}: result structure {sk} != specified {strip_dtype(want)}", {**info, "mcm_method": mm}, f"mcm:{mm}:shape", observed=repr(sk),
                     expected=repr(strip_dtype(want)))
        if len(got) >= 2:
            ctx.ev("shape.cross")

    # ------------------------------------------------------------------ drive
    N = ctx.n(51, 2400)
    for j in range(N):
        if not more():
            break
        gi = ctx.shard + j * ctx.nshards
        ctx.case_index = gi
        rng = ctx.case_rng(gi)
        r = rng.random()
        if r < 0.55:
            forward_case(rng, gi)
            forward_case(ctx.case_rng(10_000_019 + gi), gi, cheap=True)
        elif r < 0.92:
            jac_case(rng, gi)
        else:
            mcm_case(rng, gi)
