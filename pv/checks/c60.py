"""C60 — Classical-shadow estimators are exactly unbiased.

Deciding monitors:

* ``snapshot.local``  every row of ``ClassicalShadow.local_snapshots`` equals 3 U^dag|b><b|U - I = 3 (I + (-1)^b sigma_r)/2 - I (documented form).
* ``shadow.state``    FULL ENUMERATION: a synthetic shadow listing every (recipe in {X,Y,Z}^n, outcome in {0,1}^n) pair is pushed through
                      the real ``global_snapshots`` (all wires, wire subsets in any order, explicit ``snapshots`` index lists) and the
                      harness averages the per-row outputs with the exact Born weights p(b|r)/3^n: the result must be rho (1e-10).
                      For stabilizer states the weights are integer multiples of 6^-n, so an integer-replicated shadow makes the real
                      unweighted mean (np.mean of global_snapshots) exactly rho.
* ``shadow.expval``   same for the estimator: single-row shadows -> ``ClassicalShadow.expval(obs, k=1)`` and ``pauli_expval`` per row, weighted
                      mean == tr(rho P) for EVERY Pauli word (4^n) and random real linear combinations, built through different operator
                      front-ends and arbitrary wire labels (wire_map); replicated stabilizer shadows: ``expval(H, k)`` for k = 1 and k > 1 directly.
* ``device.form``     ``qp.classical_shadow`` on default.qubit / default.mixed: shape (2, T, n), integer dtype, bits in {0,1}, recipes in
                      {0,1,2}, same recipes for the same seed.
* ``device.stat``     joint (recipe, outcome) counts vs exact probabilities (chi-square, alpha 1e-9, two-stage) and ``qp.shadow_expval``
                      vs tr(rho H) (z-test with the exact single-snapshot variance, alpha 1e-9, two-stage).
Extra (not deciding): ``shadow.entropy`` Renyi entropies of exactly-reconstructed reduced stabilizer states.
"""
import itertools
import math

import numpy as np

from pv.ctx import fingerprint
from pv.ref.c60_limit import violation as _violation

META = {
    "id": "C60",
    "level": "exploration",
    "exhaustive": True,
    "technique": "runtime post-conditions on ClassicalShadow.local_snapshots/global_snapshots/expval/pauli_expval driven with synthetic "
                 "full-enumeration shadows (all 3^n recipes x 2^n outcomes, exact Born weights); statistical two-stage tests of the device measurements",
    "level_text": "For random 1-3 qubit pure and mixed states the estimator code runs once on every (recipe, outcome) pair and the harness forms "
                  "the probability-weighted mean: it must reproduce rho and tr(rho P) for every Pauli word to 1e-10 (the recipe/outcome space is "
                  "enumerated exhaustively per state; states are sampled). Device measurements are tested statistically (alpha 1e-9, two-stage).",
    "level_note": "Born weights and reference expectation values come from the harness' own Pauli matrices (pv/ref/gates.py). Statistical part: "
                  "chi-square/z-tests can miss small biases (power limited by T <= 5e3 (quick) / 1e4 (thorough) shots, 8x on confirmation). 'exhaustive' refers to the "
                  "recipe x outcome space for n <= 3, not to states/observable front-ends.",
    "shards": {"quick": 2, "thorough": 16},
    "budget_s": {"quick": 150, "thorough": 600},
    "min_evals": {"quick": 1500, "thorough": 20000},
    "deciding": ["snapshot.local", "shadow.state", "shadow.expval", "device.form", "device.stat"],
    "rule": "case = (family, state, wire labels, observable list); distinct = distinct (family, n, state bytes, labels); non-trivial = state is "
            "not a computational basis state (enumeration families) / at least one measured wire not in a Z eigenstate (device family)",
    "assumptions": ["exact Born probabilities computed from the harness' Pauli projectors are correct"],
}

TOL = 1e-10
I2 = np.eye(2, dtype=complex)
SIG = [np.array([[0, 1], [1, 0]], dtype=complex), np.array([[0, -1j], [1j, 0]], dtype=complex), np.array([[1, 0], [0, -1]], dtype=complex)]
LETTER = "XYZ"


def kron_all(ms):
    out = np.eye(1, dtype=complex)
    for m in ms:
        out = np.kron(out, m)
    return out


def enum_table(n):
    """All (recipe, outcome) rows: recipes (6^n, n), bits (6^n, n)."""
    R, B = [], []
    for r in itertools.product(range(3), repeat=n):
        for b in itertools.product(range(2), repeat=n):
            R.append(r)
            B.append(b)
    return np.array(B, dtype=np.int64), np.array(R, dtype=np.int64)


def proj(r, b):
    return kron_all([(I2 + (1 - 2 * bi) * SIG[ri]) / 2 for ri, bi in zip(r, b)])


def weights(rho, bits, recipes):
    n = bits.shape[1]
    w = np.array([np.trace(rho @ proj(r, b)).real for b, r in zip(bits, recipes)])
    return w / 3**n


def word_matrix(word):
    """word: tuple over {-1,0,1,2}."""
    return kron_all([I2 if c < 0 else SIG[c] for c in word])


def random_rho(rng, n):
    kind = ["pure", "pure", "mixed", "mixed_lowrank", "product", "basis", "maxmixed"][int(rng.integers(7))]
    d = 2**n
    if kind == "pure":
        v = rng.normal(size=d) + 1j * rng.normal(size=d)
        v /= np.linalg.norm(v)
        return np.outer(v, v.conj()), kind
    if kind == "mixed":  # purification with an environment of the same size
        v = rng.normal(size=(d, d)) + 1j * rng.normal(size=(d, d))
        rho = v @ v.conj().T
        return rho / np.trace(rho).real, kind
    if kind == "mixed_lowrank":
        v = rng.normal(size=(d, 2)) + 1j * rng.normal(size=(d, 2))
        rho = v @ v.conj().T
        return rho / np.trace(rho).real, kind
    if kind == "product":
        vs = []
        for _ in range(n):
            v = rng.normal(size=2) + 1j * rng.normal(size=2)
            vs.append(v / np.linalg.norm(v))
        v = kron_all([x.reshape(2, 1) for x in vs]).reshape(-1)
        return np.outer(v, v.conj()), kind
    if kind == "basis":
        v = np.zeros(d, dtype=complex)
        v[int(rng.integers(d))] = 1
        return np.outer(v, v.conj()), kind
    return np.eye(d, dtype=complex) / d, kind


def reduced(rho, n, keep):
    """Partial trace of rho (n qubits, first = MSB) onto qubits ``keep`` in that order."""
    from pv.ref import sv

    return sv.reduced_dm(rho, list(range(n)), list(keep))


def labels_for(rng, n):
    mode = ["range", "range", "str", "noncontig", "perm", "mixed"][int(rng.integers(6))]
    if mode == "range":
        return list(range(n)), mode
    if mode == "str":
        return [str(x) for x in rng.choice(["a", "b", "c", "q0", "aux", "w"], size=n, replace=False)], mode
    if mode == "noncontig":
        return [int(x) for x in rng.choice(np.arange(1, 12), size=n, replace=False)], mode
    if mode == "perm":
        return [int(x) for x in rng.permutation(n)], mode
    pool = [0, 3, "a", "q", 7, "t"]
    return [pool[int(i)] for i in rng.choice(len(pool), size=n, replace=False)], mode


def build_word_op(qp, rng, word, labels):
    """Operator for a Pauli word through a random front-end. word over {-1,0,1,2}."""
    cls = [qp.X, qp.Y, qp.Z]
    fac = [cls[c](labels[i]) for i, c in enumerate(word) if c >= 0]
    idw = [labels[i] for i, c in enumerate(word) if c < 0]
    if not fac:
        return qp.Identity(labels[int(rng.integers(len(labels)))]), "identity"
    style = ["matmul", "prod", "pauliword", "with_identity", "sprod1", "lincomb1"][int(rng.integers(6))]
    if len(fac) == 1 and style in ("matmul", "prod"):
        return fac[0], "single"
    if style == "matmul":
        op = fac[0]
        for f in fac[1:]:
            op = op @ f
        return op, style
    if style == "prod":
        order = [fac[int(i)] for i in rng.permutation(len(fac))]
        return qp.prod(*order), style
    if style == "pauliword":
        pw = qp.pauli.PauliWord({labels[i]: LETTER[c] for i, c in enumerate(word) if c >= 0})
        return pw.operation(), style
    if style == "with_identity" and idw:
        return qp.prod(*(fac + [qp.Identity(idw[0])])), style
    if style == "sprod1":
        return qp.s_prod(1.0, fac[0] if len(fac) == 1 else qp.prod(*fac)), style
    return qp.Hamiltonian([1.0], [fac[0] if len(fac) == 1 else qp.prod(*fac)]), "lincomb1"


def build_sum_op(qp, rng, words, coeffs, labels):
    cls = [qp.X, qp.Y, qp.Z]
    ops = []
    for word in words:
        fac = [cls[c](labels[i]) for i, c in enumerate(word) if c >= 0]
        ops.append(qp.Identity(labels[0]) if not fac else (fac[0] if len(fac) == 1 else qp.prod(*fac)))
    style = ["hamiltonian", "sum", "dot"][int(rng.integers(3))]
    if style == "hamiltonian":
        return qp.Hamiltonian([float(c) for c in coeffs], ops), style
    if style == "sum":
        return qp.sum(*[qp.s_prod(float(c), o) for c, o in zip(coeffs, ops)]), style
    return qp.dot([float(c) for c in coeffs], ops), style


def observable_set(qp, rng, n, labels, max_words=None):
    """[(operator, reference matrix, description)] : every Pauli word + random sums."""
    words = list(itertools.product([-1, 0, 1, 2], repeat=n))
    if max_words is not None and len(words) > max_words:
        keep = sorted(rng.choice(len(words), size=max_words, replace=False).tolist())
        words = [words[i] for i in keep]
    out = []
    for wd in words:
        op, style = build_word_op(qp, rng, wd, labels)
        out.append((op, word_matrix(wd), {"word": "".join("I" if c < 0 else LETTER[c] for c in wd), "style": style}))
    allw = list(itertools.product([-1, 0, 1, 2], repeat=n))
    for _ in range(3 if n < 3 else 5):
        k = int(rng.integers(2, min(6, len(allw)) + 1))
        sel = [allw[int(i)] for i in rng.choice(len(allw), size=k, replace=False)]
        cs = rng.normal(size=k).round(3)
        op, style = build_sum_op(qp, rng, sel, cs, labels)
        M = sum(c * word_matrix(wd) for c, wd in zip(cs, sel))
        out.append((op, M, {"sum": [["".join("I" if c < 0 else LETTER[c] for c in wd), float(cf)] for wd, cf in zip(sel, cs)], "style": style}))
    return out


# ----------------------------------------------------------------------------------------------- family A: weighted full enumeration
def enum_case(ctx, qp, rng, gi):
    n = int(rng.choice([1, 2, 2, 3, 3]))
    rho, kind = random_rho(rng, n)
    labels, lmode = labels_for(rng, n)
    bits, recipes = enum_table(n)
    T = len(bits)
    perm = rng.permutation(T)
    bits, recipes = bits[perm], recipes[perm]
    w = weights(rho, bits, recipes)
    dt = [np.int8, np.int64, np.int32][int(rng.integers(3))]
    bits_d, rec_d = bits.astype(dt), recipes.astype(dt)
    info = {"family": "enum", "n": n, "state": kind, "labels": labels, "dtype": np.dtype(dt).name, "rho": rho}
    nontriv = kind != "basis"
    ctx.case(fingerprint("enum", n, rho.round(12).tobytes(), repr(labels)), nontrivial=nontriv, cls=f"enum/n={n}/{kind}",
             sample={k: v for k, v in info.items() if k != "rho"} if rng.random() < 0.1 else None)
    assert abs(w.sum() - 1) < 1e-12

    def viol(mon, msg, mech, obs=None, exp=None):
        _violation(ctx, mon, msg, case=info, mech=mech, observed=obs, expected=exp)

    shadow = qp.ClassicalShadow(bits_d, rec_d, wire_map=None if lmode == "range" and rng.random() < 0.5 else list(labels))
    # ---- local snapshots: documented form
    loc = np.asarray(shadow.local_snapshots())
    ctx.ev("snapshot.local")
    if loc.shape != (T, n, 2, 2):
        viol("snapshot.local", f"local_snapshots shape {loc.shape} != {(T, n, 2, 2)}", "local:shape")
    else:
        ref = np.array([[3 * (I2 + (1 - 2 * b) * SIG[r]) / 2 - I2 for r, b in zip(rr, bb)] for rr, bb in zip(recipes, bits)])
        if np.max(np.abs(loc - ref)) > TOL:
            t, q = np.unravel_index(int(np.argmax(np.abs(loc - ref).max(axis=(2, 3)))), (T, n))
            viol("snapshot.local", f"local snapshot for recipe {LETTER[recipes[t, q]]}, bit {bits[t, q]} is not 3 U^dag|b><b|U - I",
                 f"local:{LETTER[recipes[t, q]]}", loc[t, q], ref[t, q])
    # ---- global snapshots: weighted mean over ALL (recipe, outcome) pairs = rho
    glob = np.asarray(shadow.global_snapshots())
    ctx.ev("shadow.state")
    if glob.shape != (T, 2**n, 2**n):
        viol("shadow.state", f"global_snapshots shape {glob.shape}", "state:shape")
    else:
        est = np.tensordot(w, glob, axes=(0, 0))
        if np.max(np.abs(est - rho)) > TOL:
            viol("shadow.state", f"probability-weighted mean of all {T} global snapshots differs from rho by {np.max(np.abs(est - rho)):.3e} (n={n}, {kind})",
                 "state:biased", est, rho)
    # ---- wire subsets (column indices) in arbitrary order, explicit snapshot index lists
    if n >= 2:
        for _ in range(2):
            k = int(rng.integers(1, n + 1))
            sub = [int(x) for x in rng.choice(n, size=k, replace=False)]
            cont = [sub, tuple(sub), np.array(sub)][int(rng.integers(3))]
            g = np.asarray(shadow.global_snapshots(wires=cont))
            ctx.ev("shadow.state")
            est = np.tensordot(w, g, axes=(0, 0)) if g.shape[0] == T else None
            ref = reduced(rho, n, sub)
            if est is None or est.shape != ref.shape or np.max(np.abs(est - ref)) > TOL:
                viol("shadow.state", f"weighted mean of global_snapshots(wires={sub}) differs from the reduced state on those qubits (n={n}, {kind})",
                     "state:subset", est, ref)
    idx = [int(x) for x in rng.permutation(T)[: max(1, T // 2)]]
    g = np.asarray(shadow.global_snapshots(snapshots=idx if rng.random() < 0.5 else np.array(idx)))
    ctx.ev("shadow.state")
    if g.shape != (len(idx), 2**n, 2**n) or (glob.shape == (T, 2**n, 2**n) and np.max(np.abs(g - glob[idx])) > TOL):
        viol("shadow.state", "global_snapshots(snapshots=indices) does not return the snapshots of those rows", "state:snapshots-arg")
    # ---- expectation values: weighted mean of single-row estimators = tr(rho O)
    obs = observable_set(qp, rng, n, labels)
    ops = [o for o, _, _ in obs]
    exact = np.array([np.trace(rho @ M).real for _, M, _ in obs])
    acc = np.zeros(len(obs))
    failed = False
    for t in range(T):
        sh = qp.ClassicalShadow(bits_d[t:t + 1], rec_d[t:t + 1], wire_map=list(labels))
        try:
            v = np.asarray(sh.expval(ops if rng.random() < 0.7 else tuple(ops), k=1), dtype=float).reshape(-1)
        except Exception as e:  # noqa: BLE001
            ctx.ev("shadow.expval")
            viol("shadow.expval", f"ClassicalShadow.expval raised {type(e).__name__}: {e} on Pauli observables {[d for _, _, d in obs][:3]}...",
                 f"expval:raises:{type(e).__name__}")
            failed = True
            break
        if v.shape != (len(obs),):
            ctx.ev("shadow.expval")
            viol("shadow.expval", f"expval of a list of {len(obs)} observables returned shape {v.shape}", "expval:shape")
            failed = True
            break
        acc += w[t] * v
    if not failed:
        ctx.ev("shadow.expval", len(obs))
        err = np.abs(acc - exact)
        if np.max(err) > TOL * max(1.0, np.max(np.abs(exact))):
            j = int(np.argmax(err))
            d = obs[j][2]
            viol("shadow.expval", f"probability-weighted mean of the single-snapshot estimators of {d} is {acc[j]:.12g}, exact <O> = {exact[j]:.12g} "
                                  f"(n={n}, {kind}, labels {labels})", "expval:biased:" + ("sum" if "sum" in d else "word"), acc[j], exact[j])
    # ---- the functional form pauli_expval(bits, recipes, words)
    words = np.array(list(itertools.product([-1, 0, 1, 2], repeat=n)), dtype=np.int64)
    pe = np.asarray(qp.shadows.pauli_expval(bits_d, rec_d, words), dtype=float)
    ctx.ev("shadow.expval", len(words))
    if pe.shape != (T, len(words)):
        viol("shadow.expval", f"pauli_expval shape {pe.shape}", "pauli_expval:shape")
    else:
        est = w @ pe
        ref = np.array([np.trace(rho @ word_matrix(tuple(wd))).real for wd in words])
        if np.max(np.abs(est - ref)) > TOL:
            j = int(np.argmax(np.abs(est - ref)))
            viol("shadow.expval", f"pauli_expval: weighted mean for word {words[j].tolist()} is {est[j]:.12g}, exact {ref[j]:.12g}", "pauli_expval:biased", est[j], ref[j])
        # single-snapshot values are 0 or +-3^|P|
        loc_w = (words >= 0).sum(axis=1)
        if not np.all(np.isin(np.abs(pe), np.concatenate([[0.0], 3.0 ** np.arange(n + 1)]))) or np.any(np.abs(pe) > 3.0 ** loc_w[None, :] + 1e-12):
            viol("shadow.expval", "pauli_expval single-snapshot values are not in {0, +-3^|P|}", "pauli_expval:range")


# ----------------------------------------------------------------------------------------------- family B: replicated stabilizer shadows
def stabilizer_state(rng, n):
    from pv.ref import gates as G
    from pv.ref import sv

    S = np.diag([1, 1j]).astype(complex)
    gates = []
    for _ in range(int(rng.integers(0, 4 * n + 3))):
        r = rng.random()
        if r < 0.35:
            gates.append((G.H, [int(rng.integers(n))]))
        elif r < 0.6:
            gates.append((S, [int(rng.integers(n))]))
        elif r < 0.7:
            gates.append((G.X, [int(rng.integers(n))]))
        elif n >= 2:
            a, b = [int(x) for x in rng.choice(n, size=2, replace=False)]
            gates.append((G.controlled(G.X, 1), [a, b]))
    return sv.run(gates, list(range(n)))


def renyi(rho, alpha, base=None):
    ev = np.linalg.eigvalsh((rho + rho.conj().T) / 2)
    ev = ev[ev > 1e-12]
    if alpha == 1:
        s = float(-(ev * np.log(ev)).sum())
    else:
        s = float(np.log((ev**alpha).sum()) / (1 - alpha))
    return s / math.log(base) if base else s


def stab_case(ctx, qp, rng, gi):
    n = int(rng.choice([1, 2, 3, 3]))
    psi = stabilizer_state(rng, n)
    rho = np.outer(psi, psi.conj())
    labels, lmode = labels_for(rng, n)
    bits, recipes = enum_table(n)
    w = weights(rho, bits, recipes)
    cnt = w * 6**n
    if np.max(np.abs(cnt - np.rint(cnt))) > 1e-9:
        ctx.inconclusive_case("stabilizer weights are not integer multiples of 6^-n (harness)")
        return
    cnt = np.rint(cnt).astype(int)
    rows = np.repeat(np.arange(len(bits)), cnt)
    T0 = len(rows)
    assert T0 == 6**n
    info = {"family": "stabilizer", "n": n, "labels": labels, "psi": psi}
    nontriv = bool(np.max(np.abs(psi)) < 1 - 1e-9)
    ctx.case(fingerprint("stab", n, psi.round(9).tobytes(), repr(labels)), nontrivial=nontriv, cls=f"stab/n={n}",
             sample={"family": "stabilizer", "n": n, "labels": labels, "amplitudes": psi} if rng.random() < 0.1 else None)

    def viol(mon, msg, mech, obs=None, exp=None):
        _violation(ctx, mon, msg, case=info, mech=mech, observed=obs, expected=exp)

    sh_rows = rows[rng.permutation(T0)]
    shadow = qp.ClassicalShadow(bits[sh_rows].astype(np.int8), recipes[sh_rows].astype(np.int8), wire_map=list(labels))
    est = np.mean(np.asarray(shadow.global_snapshots()), axis=0)
    ctx.ev("shadow.state")
    if est.shape != rho.shape or np.max(np.abs(est - rho)) > TOL:
        viol("shadow.state", f"mean of global_snapshots over the exact-frequency shadow of a stabilizer state differs from rho by {np.max(np.abs(est - rho)):.3e}",
             "state:biased", est, rho)
    obs = observable_set(qp, rng, n, labels, max_words=24)
    ops = [o for o, _, _ in obs]
    exact = np.array([np.trace(rho @ M).real for _, M, _ in obs])
    for k in (1, int(rng.choice([2, 3, 5]))):
        if k == 1:
            sh = shadow
        else:  # k identical blocks: every block mean is exact, so the median of means is exact
            tiled = np.concatenate([rows[rng.permutation(T0)] for _ in range(k)])
            sh = qp.ClassicalShadow(bits[tiled].astype(np.int8), recipes[tiled].astype(np.int8), wire_map=list(labels))
        try:
            v = np.asarray(sh.expval(ops, k=k), dtype=float).reshape(-1)
        except Exception as e:  # noqa: BLE001
            ctx.ev("shadow.expval")
            viol("shadow.expval", f"expval(k={k}) raised {type(e).__name__}: {e}", f"expval:raises:{type(e).__name__}")
            continue
        ctx.ev("shadow.expval", len(obs))
        if v.shape != exact.shape or np.max(np.abs(v - exact)) > TOL * max(1.0, np.max(np.abs(exact))):
            j = int(np.argmax(np.abs(v - exact))) if v.shape == exact.shape else 0
            viol("shadow.expval", f"expval(k={k}) on the exact-frequency shadow: {obs[j][2]} -> {v[j] if v.shape == exact.shape else v.shape}, exact {exact[j]:.12g}",
                 f"expval:biased:k={'1' if k == 1 else 'gt1'}", v, exact)
    # single observable (not a list) returns a scalar
    j = int(rng.integers(len(obs)))
    v = np.asarray(shadow.expval(ops[j], k=1))
    ctx.ev("shadow.expval")
    if v.shape != () or abs(float(v) - exact[j]) > TOL * max(1.0, abs(exact[j])):
        viol("shadow.expval", f"expval of a single observable {obs[j][2]}: {v!r}, exact {exact[j]:.12g}", "expval:single", v, exact[j])
    # entropies of exactly reconstructed reduced states (extra monitor)
    if lmode == "range" or True:
        k = int(rng.integers(1, n + 1))
        sub = sorted(int(x) for x in rng.choice(n, size=k, replace=False))
        alpha = [1, 2, 3, 1.0, 2.0][int(rng.integers(5))]
        base = [None, 2, math.e, 10][int(rng.integers(4))]
        try:
            s = float(shadow.entropy(wires=sub, alpha=alpha, base=base))
        except Exception as e:  # noqa: BLE001
            ctx.ev("shadow.entropy")
            viol("shadow.entropy", f"entropy(wires={sub}, alpha={alpha}, base={base}) raised {type(e).__name__}: {e}", f"entropy:raises:{type(e).__name__}")
            return
        ctx.ev("shadow.entropy")
        ref = renyi(reduced(rho, n, sub), alpha, base)
        if abs(s - ref) > 1e-7:
            viol("shadow.entropy", f"entropy(wires={sub}, alpha={alpha}, base={base}) = {s:.10g} on an exactly reconstructed state, exact Renyi entropy {ref:.10g}",
                 "entropy:value", s, ref)


# ----------------------------------------------------------------------------------------------- family C: device measurements
def single_estimates(bits, recipes, words, coeffs):
    """Textbook single-snapshot estimate of sum_i c_i P_i for each enumerated row (used for the exact variance only)."""
    e = np.zeros(len(bits))
    for wd, c in zip(words, coeffs):
        wd = np.array(wd)
        sup = wd >= 0
        match = np.all(recipes[:, sup] == wd[sup][None, :], axis=1)
        sign = 1 - 2 * (bits[:, sup].sum(axis=1) % 2)
        e += c * match * sign * 3.0 ** sup.sum()
    return e


def device_case(ctx, qp, rng, gi):
    from pv.ref import c60_stat as st
    from pv.ref import sv

    N = int(rng.choice([1, 2, 2, 3, 3, 4]))
    standard = rng.random() < 0.6
    if standard:
        dev_wires = list(range(N))
        lmode = "range"
    else:
        dev_wires, lmode = labels_for(rng, N)
        if dev_wires == list(range(N)):
            dev_wires, lmode = [w + 1 for w in dev_wires], "offset"
    k = int(rng.integers(1, min(N, 3) + 1))
    meas_pos = [int(x) for x in rng.choice(N, size=k, replace=False)]
    if standard and rng.random() < 0.7:
        meas_pos = sorted(meas_pos)
    meas = [dev_wires[p] for p in meas_pos]
    mixed = rng.random() < 0.3
    devname = "default.mixed" if mixed else "default.qubit"
    psi = rng.normal(size=2**N) + 1j * rng.normal(size=2**N)
    if rng.random() < 0.25:  # sparse / structured states
        psi = psi * (rng.random(2**N) < 0.4)
        if not np.any(psi):
            psi[0] = 1
    psi /= np.linalg.norm(psi)
    rho_full = np.outer(psi, psi.conj())
    ops = [qp.StatePrep(psi, wires=dev_wires)]
    p_flip = None
    if mixed and rng.random() < 0.7:
        p_flip = float(rng.uniform(0.05, 0.5))
        fw = int(rng.integers(N))
        ops.append(qp.BitFlip(p_flip, wires=dev_wires[fw]))
        Xf = sv.embed(SIG[0], [fw], list(range(N)))
        rho_full = (1 - p_flip) * rho_full + p_flip * Xf @ rho_full @ Xf
    rho = reduced(rho_full, N, meas_pos)
    bits_t, rec_t = enum_table(k)
    w = weights(rho, bits_t, rec_t)
    T = int(rng.choice([2000, 3000, 5000])) if ctx.quick else int(rng.choice([3000, 6000, 10000]))
    info = {"family": "device", "device": devname, "dev_wires": dev_wires, "measured": meas, "shots": T, "standard_wires": standard, "bitflip": p_flip}
    nontriv = bool(np.max(np.abs(np.diag(rho).real)) < 1 - 1e-6)
    ctx.case(fingerprint("device", devname, psi.round(9).tobytes(), repr(dev_wires), repr(meas), p_flip), nontrivial=nontriv,
             cls=f"device/{devname}/{'standard' if standard else 'labelled'}", sample=info if rng.random() < 0.1 else None)
    info_v = {**info, "psi": psi}
    lab_mech = None if standard else "nonstandard-wire-labels"

    def viol(mon, msg, mech, obs=None, exp=None):
        _violation(ctx, mon, msg, case=info_v, mech=mech, observed=obs, expected=exp)

    def run_shadow(shots, dev_seed, mp_seed):
        dev = qp.device(devname, wires=dev_wires, seed=dev_seed)
        tape = qp.tape.QuantumScript(ops, [qp.classical_shadow(wires=meas, seed=mp_seed)], shots=shots)
        return qp.execute([tape], dev, diff_method=None)[0]

    seeds = [int(x) for x in rng.integers(1, 2**30, size=8)]
    # ---------------- classical_shadow: form, reproducibility, statistics
    try:
        out = run_shadow(T, seeds[0], seeds[1])
    except Exception as e:  # noqa: BLE001
        ctx.ev("device.form")
        viol("device.form", f"qp.classical_shadow on {devname} raised {type(e).__name__}: {e}", f"classical_shadow:raises:{type(e).__name__}" + (":" + lab_mech if lab_mech else ""))
        out = None
    if out is not None:
        out = np.asarray(out)
        ctx.ev("device.form")
        ok = True
        if out.shape != (2, T, k):
            viol("device.form", f"classical_shadow output shape {out.shape} != (2, {T}, {k})", "form:shape")
            ok = False
        elif not np.issubdtype(out.dtype, np.integer):
            viol("device.form", f"classical_shadow output dtype {out.dtype} is not an integer type", "form:dtype")
            ok = False
        elif not (np.all(np.isin(out[0], [0, 1])) and np.all(np.isin(out[1], [0, 1, 2]))):
            viol("device.form", "bits not in {0,1} or recipes not in {0,1,2}", "form:values")
            ok = False
        if ok:
            out2 = np.asarray(run_shadow(T, seeds[2], seeds[1]))
            ctx.ev("device.form")
            if not np.array_equal(out2[1], out[1]):
                viol("device.form", "same classical_shadow seed gave different recipes in two executions", "form:seed-recipes")
            cells = {(tuple(r), tuple(b)): i for i, (b, r) in enumerate(zip(bits_t.tolist(), rec_t.tolist()))}

            def counts_of(o):
                c = np.zeros(len(bits_t))
                key = o[1].astype(np.int64) * 2 + o[0].astype(np.int64)  # per qubit 0..5
                code = np.zeros(o.shape[1], dtype=np.int64)
                for q in range(k):
                    code = code * 6 + key[:, q]
                ref_code = np.zeros(len(bits_t), dtype=np.int64)
                for q in range(k):
                    ref_code = ref_code * 6 + (rec_t[:, q] * 2 + bits_t[:, q])
                lut = {int(cd): i for i, cd in enumerate(ref_code)}
                u, n_u = np.unique(code, return_counts=True)
                for cd, m in zip(u, n_u):
                    c[lut[int(cd)]] += m
                return c

            def stage(s):
                o = out if s == 0 else np.asarray(run_shadow(8 * T, seeds[3], seeds[4]))
                return st.gof_pvalue(counts_of(o), w)

            ctx.ev("device.stat")
            rej, ps = st.two_stage(stage)
            if rej:
                viol("device.stat", f"joint (recipe, outcome) frequencies of qp.classical_shadow on {devname} reject the exact Born distribution twice "
                                    f"(p = {ps}; measured {meas} of {dev_wires})", "stat:classical_shadow" + (":" + lab_mech if lab_mech else ""))
    # ---------------- shadow_expval
    allw = [wd for wd in itertools.product([-1, 0, 1, 2], repeat=k) if any(c >= 0 for c in wd)]
    sel = [allw[int(i)] for i in rng.choice(len(allw), size=min(len(allw), 4), replace=False)]
    Hs, specs = [], []
    for wd in sel:
        op, style = build_word_op(qp, rng, wd, meas)
        Hs.append(op)
        specs.append(([wd], [1.0], style))
    if len(allw) >= 2:
        m = int(rng.integers(2, min(4, len(allw)) + 1))
        ws = [allw[int(i)] for i in rng.choice(len(allw), size=m, replace=False)]
        cs = [float(c) for c in rng.normal(size=m).round(3)]
        op, style = build_sum_op(qp, rng, ws, cs, meas)
        Hs.append(op)
        specs.append((ws, cs, style))
    means, variances = [], []
    for ws, cs, _ in specs:
        e = single_estimates(bits_t, rec_t, ws, cs)
        mu = float(w @ e)
        exact = float(sum(c * np.trace(rho @ word_matrix(wd)).real for wd, c in zip(ws, cs)))
        if abs(mu - exact) > 1e-9:
            ctx.inconclusive_case("harness: textbook estimator mean != exact expectation")
            return
        means.append(exact)
        variances.append(float(w @ e**2) - mu**2)
    single = len(Hs) == 1 or rng.random() < 0.2
    Harg = Hs[0] if single else Hs
    nH = 1 if single else len(Hs)

    def run_expval(shots, dev_seed, mp_seed):
        dev = qp.device(devname, wires=dev_wires, seed=dev_seed)
        tape = qp.tape.QuantumScript(ops, [qp.shadow_expval(Harg, k=1, seed=mp_seed)], shots=shots)
        return np.asarray(qp.execute([tape], dev, diff_method=None)[0], dtype=float).reshape(-1)

    try:
        v0 = run_expval(T, seeds[5], seeds[6])
    except Exception as e:  # noqa: BLE001
        ctx.ev("device.stat")
        viol("device.stat", f"qp.shadow_expval on {devname} with device wires {dev_wires} raised {type(e).__name__}: {e}",
             "shadow_expval-wire-map" if lab_mech else f"shadow_expval:raises:{type(e).__name__}")
        return
    if v0.shape != (nH,):
        ctx.ev("device.stat")
        viol("device.stat", f"shadow_expval returned shape {v0.shape} for {nH} observable(s)", "shadow_expval:shape")
        return
    v1 = None
    for j in range(nH):
        def stage(s, j=j):
            nonlocal v1
            if s == 0:
                return st.z_pvalue(v0[j], means[j], variances[j], T)
            if v1 is None:
                v1 = run_expval(8 * T, seeds[7], seeds[4])
            return st.z_pvalue(v1[j], means[j], variances[j], 8 * T)

        ctx.ev("device.stat")
        rej, ps = st.two_stage(stage)
        if rej:
            viol("device.stat", f"qp.shadow_expval estimate of {specs[j][0]} x {specs[j][1]} on wires {meas} (device wires {dev_wires}, {devname}) is "
                                f"{v0[j]:.5g} / {v1[j]:.5g} (8x shots), exact {means[j]:.5g}, sigma {math.sqrt(variances[j] / T):.3g} (p = {ps})",
                 "shadow_expval-wire-map" if lab_mech else "stat:shadow_expval", [float(v0[j]), float(v1[j])], means[j])


# ----------------------------------------------------------------------------------------------- driver
def run(ctx):
    import warnings

    import pennylane as qp

    warnings.filterwarnings("ignore")
    plan = [("enum", ctx.n(36, 800), enum_case), ("stab", ctx.n(40, 800), stab_case), ("device", ctx.n(50, 800), device_case)]
    base = 0
    for kind, count, fn in plan:
        for i in range(count):
            if not ctx.more():
                return
            gi = base + i * ctx.nshards + ctx.shard
            if ctx.only_case is not None and gi != ctx.only_case:
                continue
            ctx.case_index = gi
            with ctx.guard(kind, "harness error"):
                fn(ctx, qp, ctx.case_rng(gi), gi)
        base += 10_000_000
